"""Snapshot monitor for C06 (immutability) - no source hooks.

A *heap snapshot* maps the id of every object reachable from a set of roots (pool objects and
every symbol of musiclang.library) to its shallow, field-level value:

  music object (Note/Silence/Continuation, Melody, Chord/CustomChord, Score, Tonality, Element)
      -> ('obj', class name, ((field, cell), ...))       fields of __dict__, sorted
  list / tuple -> ('list', (cell, ...))     dict -> ('dict', ((key, cell), ...))   set -> ('set', sorted reprs)

a cell is ('ref', id) for a traversed child (music object or container) and ('val', canonical repr)
for anything else (ints, Fractions, strings, None ...).  The snapshot keeps a reference to every
object it saw, so ids are never reused while it is alive.

`functools.cached_property` slots (Chord.chord_pitches, extension_notes ...) are memo cells: their
*appearance* is not a change (the value is a function of the other fields), a *different* value once
present is.  `Note.properties` (the NoteProperties back-pointer) is checked for identity of its
`note` field only.
"""
import sys
sys.dont_write_bytecode = True
from fractions import Fraction
import functools

_MUSIC = None
_CACHED = {}


def music_types():
    global _MUSIC
    if _MUSIC is None:
        from musiclang import Note, Melody, Chord, Score, Tonality, Element
        _MUSIC = (Note, Melody, Chord, Score, Tonality, Element)
    return _MUSIC


def cached_names(cls):
    r = _CACHED.get(cls)
    if r is None:
        r = set()
        for k in cls.__mro__:
            for n, v in vars(k).items():
                if isinstance(v, functools.cached_property):
                    r.add(n)
        _CACHED[cls] = r
    return r


def canon(v):
    """canonical text of a non-traversed value"""
    if isinstance(v, bool) or v is None:
        return repr(v)
    if isinstance(v, int):
        return str(int(v))
    if isinstance(v, Fraction):
        return f'{v.numerator}/{v.denominator}'
    if isinstance(v, float):
        return repr(v)
    if isinstance(v, str):
        return repr(v)
    if isinstance(v, frozenset):
        return 'frozenset(' + ','.join(sorted(canon(i) for i in v)) + ')'
    try:
        import numpy as np
        if isinstance(v, np.integer):
            return str(int(v))
        if isinstance(v, np.floating):
            return repr(float(v))
    except ImportError:
        pass
    return f'<{type(v).__name__}>'


class Snapshot:
    __slots__ = ('val', 'obj', 'path')

    def __init__(self):
        self.val = {}    # id -> shallow value
        self.obj = {}    # id -> object (keeps it alive)
        self.path = {}   # id -> first access path found (for reports)

    def __contains__(self, i):
        return i in self.val


def _traversable(v, MT):
    return isinstance(v, MT) or type(v) in (list, dict, set, tuple)


def take(roots, into=None):
    """roots: iterable of (label, object).  Returns a Snapshot of everything reachable.
    With `into`, only objects not yet in `into` are added (incremental growth of the pool)."""
    MT = music_types()
    snap = into if into is not None else Snapshot()
    val, objs, paths = snap.val, snap.obj, snap.path
    stack = []
    for label, o in roots:
        if _traversable(o, MT) and id(o) not in val:
            stack.append((label, o))
    while stack:
        path, o = stack.pop()
        i = id(o)
        if i in val:
            continue
        objs[i] = o
        paths[i] = path
        val[i] = shallow(o, MT, stack, path, val)
    return snap


def shallow(o, MT, stack=None, path='', seen=None):
    """shallow value of one object; pushes untraversed children on `stack` when given"""
    t = type(o)

    def cell(v, sub):
        if isinstance(v, MT) or type(v) in (list, dict, set, tuple):
            if stack is not None and id(v) not in seen:
                stack.append((path + sub, v))
            return ('ref', id(v))
        return ('val', canon(v))

    if t is list or t is tuple:
        return ('list', tuple(cell(v, f'[{k}]') for k, v in enumerate(o)))
    if t is dict:
        return ('dict', tuple((canon(k) if not isinstance(k, str) else k, cell(v, f'[{k!r}]')) for k, v in o.items()))
    if t is set:
        return ('set', tuple(sorted(canon(v) for v in o)))
    d = getattr(o, '__dict__', {})
    fields = []
    for k in sorted(d):
        v = d[k]
        if k == 'properties':
            fields.append((k, ('val', 'self' if getattr(v, 'note', None) is o else 'other')))
            continue
        fields.append((k, cell(v, '.' + k)))
    return ('obj', t.__name__, tuple(fields))


def diff(before, objs=None):
    """Compare every object recorded in `before` with its value now.
    Returns a list of changes: dict(id, path, cls, field, old, new)."""
    MT = music_types()
    out = []
    for i, old in before.val.items():
        o = before.obj[i]
        new = shallow(o, MT)
        if new == old:
            continue
        out.extend(_explain(i, before.path[i], o, old, new, before))
    return out


def _show_cell(c, snap):
    if c is None:
        return '<absent>'
    if c[0] == 'val':
        return c[1]
    o = snap.obj.get(c[1]) if snap is not None else None
    if o is not None:
        try:
            return f'{type(o).__name__}@{str(o)[:60]}'
        except Exception:  # noqa
            return f'{type(o).__name__}#'
    return 'ref#new'


def _explain(i, path, o, old, new, snap):
    kind = old[0]
    cls = type(o).__name__
    res = []
    if kind == 'obj':
        of, nf = dict(old[2]), dict(new[2])
        memo = cached_names(type(o))
        for k in sorted(set(of) | set(nf)):
            a, b = of.get(k), nf.get(k)
            if a == b:
                continue
            if k in memo and a is None:
                continue          # a memo cell was filled: not a change of the object's value
            if k in memo and a is not None and b is not None and a[0] == 'ref' and b[0] == 'ref':
                pass              # memo cell re-bound to another container: report
            res.append({'id': i, 'path': path, 'cls': cls, 'field': k, 'old': _show_cell(a, snap),
                        'new': _show_cell(b, snap)})
    else:
        res.append({'id': i, 'path': path, 'cls': cls, 'field': '<content>',
                    'old': _show_container(old, snap), 'new': _show_container(new, snap)})
    return res


def _show_container(v, snap):
    if v[0] == 'list':
        return '[' + ', '.join(_show_cell(c, snap) for c in v[1])[:200] + ']'
    if v[0] == 'dict':
        return '{' + ', '.join(f'{k}: {_show_cell(c, snap)}' for k, c in v[1])[:200] + '}'
    return '{' + ', '.join(v[1])[:200] + '}'


def owner_field(snap, target_id):
    """(class, field) of the first music object holding container `target_id` in a field (for reports)"""
    for i, v in snap.val.items():
        if v[0] == 'obj':
            for k, c in v[2]:
                if c == ('ref', target_id):
                    return v[1], k
    for i, v in snap.val.items():
        if v[0] in ('list', 'dict'):
            cells = v[1] if v[0] == 'list' else [c for _, c in v[1]]
            if ('ref', target_id) in cells:
                oc = owner_field(snap, i)
                if oc:
                    return oc[0], oc[1] + '[]'
    return None


def library_roots():
    import musiclang.library as L
    MT = music_types()
    roots = []
    for k, v in vars(L).items():
        if k.startswith('__'):
            continue
        if isinstance(v, MT) or type(v) in (list, dict, set, tuple):
            roots.append(('library.' + k, v))
    return roots
