"""Table generator for C15: musiclang.analyze.constants -> lean/MV/Gen/Roman.lean (by value).

DICT_TONALITY, DICT_RELATIVE_CHANGE (both modes, dict order), EXTENSION_REPLACER (tuple order, the
replacements are applied sequentially so the order is observable), the pattern text of DEGREE_REGEX
(the model has a hand-written matcher for exactly this pattern; a theorem pins the text) and
Metric.SIGNATURES (the supported time signatures).
"""
import sys
sys.dont_write_bytecode = True
from translate import HEADER, lint, lstr, Untranslatable


def lmode2(m):
    if m not in ('M', 'm'):
        raise Untranslatable(f'unexpected mode {m!r} in an analyze table')
    return '.' + m


def gen_roman():
    import musiclang.analyze.constants as C
    from musiclang.write.rhythm.metric import Metric
    o = [HEADER, 'import MV.Model.Types', 'namespace MV.Gen', '']
    for mode in ('M', 'm'):
        d = C.DICT_TONALITY[mode]
        o.append(f'/-- `analyze.constants.DICT_TONALITY[{mode!r}]` in dict order: figure -> (semitones, mode) -/')
        o.append(f'def DICT_TONALITY_{mode} : List (String × (Int × Mode)) := [')
        o.append(',\n'.join(f'  ({lstr(k)}, ({lint(v[0])}, {lmode2(v[1])}))' for k, v in d.items()) + ']')
        o.append('')
    extra = [k for k in C.DICT_TONALITY if k not in ('M', 'm')]
    o.append('def DICT_TONALITY_EXTRA_KEYS : List String := [' + ', '.join(lstr(k) for k in extra) + ']')
    for mode in ('M', 'm'):
        d = C.DICT_RELATIVE_CHANGE[mode]
        o.append(f'/-- `analyze.constants.DICT_RELATIVE_CHANGE[{mode!r}]`: figure -> (degree, mode, key offset) -/')
        o.append(f'def DICT_RELATIVE_CHANGE_{mode} : List (String × (Int × Mode × Int)) := [')
        o.append(',\n'.join(f'  ({lstr(k)}, ({lint(v[0])}, {lmode2(v[1])}, {lint(v[2])}))' for k, v in d.items()) + ']')
        o.append('')
    extra = [k for k in C.DICT_RELATIVE_CHANGE if k not in ('M', 'm')]
    o.append('def DICT_RELATIVE_CHANGE_EXTRA_KEYS : List String := [' + ', '.join(lstr(k) for k in extra) + ']')
    o.append('/-- `analyze.constants.EXTENSION_REPLACER` in tuple order (applied sequentially) -/')
    o.append('def EXTENSION_REPLACER : List (String × String) := [')
    o.append(',\n'.join(f'  ({lstr(k)}, {lstr(v)})' for k, v in C.EXTENSION_REPLACER) + ']')
    o.append('/-- `analyze.constants.DEGREE_REGEX.pattern` -/')
    o.append(f'def DEGREE_REGEX_PATTERN : String := {lstr(C.DEGREE_REGEX.pattern)}')
    o.append(f'def DEGREE_REGEX_FLAGS : Int := {lint(int(C.DEGREE_REGEX.flags))}')
    o.append('/-- `Metric.SIGNATURES` -/')
    o.append('def SIGNATURES : List (Int × Int) := [' + ', '.join(f'({lint(a)}, {lint(b)})' for a, b in Metric.SIGNATURES) + ']')
    o.append('')
    o.append('end MV.Gen')
    return '\n'.join(o) + '\n'


GENERATORS = {'Roman': gen_roman}
