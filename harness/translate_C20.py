"""Extra generated tables for C20 (equality and hashing): the dynamics of `Note.to_code`.

`Note.to_code` (the printed form, which `Melody.__eq__` compares and which the melody / chord /
tonality hashes are taken of) prints the dynamic figure of the note, computed by
`NoteProperties.amp_figure` with float arithmetic.  The table is extracted *by value*:

* `AMP_THRESHOLDS` / `AMP_TOP`: the cascade `n <= t -> figure` of `amp_figure`, read from the
  constants of the live code object (exact rationals of the float literals);
* `DYNAMICS`: for each dynamic property of a note (`ppp` ... `fff`) the amplitude it sets
  (exact rational of the float) and the figure the live code prints for it;
* `AMP_FIGURE_INT`: the figure the live code prints for the integer amplitudes 0..127.
The Lean side proves (by `decide`) that the exact-rational cascade of the model gives the figure
the live (float) code gives on every row of the last two tables.
"""
import sys
sys.dont_write_bytecode = True
from fractions import Fraction
from translate import HEADER, lrat, lstr, lint, Untranslatable

FIGURES = ['n', 'ppp', 'pp', 'p', 'mp', 'mf', 'f', 'ff', 'fff']


def gen_dynamics():
    from musiclang import Note
    from musiclang.write.properties.note_properties import NoteProperties
    consts = NoteProperties.amp_figure.fget.__code__.co_consts
    # expected shape: (doc, t0, 'n', t1, 'ppp', ..., t8, 'ff', 'fff')
    items = [c for c in consts if isinstance(c, (int, float)) and not isinstance(c, bool) or (isinstance(c, str) and c in FIGURES)]
    pairs = []
    i = 0
    while i + 1 < len(items) and isinstance(items[i], (int, float)) and isinstance(items[i + 1], str):
        pairs.append((items[i], items[i + 1]))
        i += 2
    rest = items[i:]
    if len(rest) != 1 or not isinstance(rest[0], str) or not pairs:
        raise Untranslatable(f'amp_figure: unexpected constants {consts!r}')
    ths = [Fraction(*float(t).as_integer_ratio()) for t, _ in pairs]
    if ths != sorted(ths):
        raise Untranslatable(f'amp_figure: thresholds not ascending {consts!r}')
    o = [HEADER, 'import MV.Model.Types', 'namespace MV.Gen', '']
    o.append('/-- cascade of `NoteProperties.amp_figure`: `amp/120 <= t -> figure`, first match wins -/')
    o.append('def AMP_THRESHOLDS : List (Rat × String) := [')
    o.append(',\n'.join(f'  ({lrat(t)}, {lstr(f)})' for t, f in pairs) + ']')
    o.append(f'def AMP_TOP : String := {lstr(rest[0])}')
    o.append('')
    base = Note('s', 0, 0, 1)
    rows = []
    for f in FIGURES[1:]:   # `.n` is shadowed by the duration `n` (0 quarters) in Note.__getattr__
        n = getattr(base, f)
        rows.append(f'  ({lstr(f)}, {lrat(n.amp)}, {lstr(n.amp_figure)})')
    o.append('/-- dynamic property -> (amplitude it sets, figure the live code prints for it) -/')
    o.append('def DYNAMICS : List (String × Rat × String) := [')
    o.append(',\n'.join(rows) + ']')
    o.append('')
    rows = []
    for a in range(0, 128):
        n = Note('s', 0, 0, 1, amp=a)
        rows.append(f'({lint(a)}, {lstr(n.amp_figure)})')
    o.append('/-- integer amplitude -> figure the live code prints -/')
    o.append('def AMP_FIGURE_INT : List (Int × String) := [' + ', '.join(rows) + ']')
    o.append('')
    o.append('end MV.Gen')
    return '\n'.join(o) + '\n'


GENERATORS = {'Dynamics': gen_dynamics}
