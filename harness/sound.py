"""Independent denotation of a score (what should sound), and readers of what the library renders.

`spec_sound` is the property C03 states, written directly on the score structure: it does not call
anything from musiclang.write.out.  Pitches of non-relative notes come from the documented closed form (C01's oracle),
those of relative notes from `Chord.to_pitch` (the pitch calculus, C09).
"""
import sys
sys.dont_write_bytecode = True
from fractions import Fraction


def part_names(score):
    names = []
    for ch in score.chords:
        for p in ch.score.keys():
            if p not in names:
                names.append(p)
    return names


def chord_duration(ch):
    return max([sum((Fraction(n.duration) for n in m.notes), Fraction(0)) for m in ch.score.values()], default=Fraction(0))


def documented_pitch(ch, n):
    """pitch of a non-relative note: the closed form written from the documentation (C01's independent oracle) where
    it has an exact opinion, so that what should sound does not depend on the library's own pitch function (seed
    C03-5 memoised that function on an equality that ignores the accidental: `ch.to_pitch` itself returned the
    wrong pitch and an oracle built on it agreed with the renderer).  Otherwise `Chord.to_pitch`."""
    got = int(ch.to_pitch(n))
    if type(ch).__name__ != 'Chord':
        return got
    try:
        from props.C01 import expected_pitch
        exp = expected_pitch(ch, n)
    except Exception:
        return got
    if exp is None:
        return got
    if isinstance(exp, tuple):
        return got if exp[0] <= got <= exp[1] else int(exp[0])
    return int(exp)


def spec_sound(score, first_relative_reference=0):
    """{part: [(pitch, onset, duration, velocity)]} in quarter notes"""
    out = {}
    for part in part_names(score):
        evs = []
        time = Fraction(0)
        last = None          # last sounded pitch of the part (reset when the part is absent)
        open_ev = None       # index of the sounding note a continuation would extend
        for ch in score.chords:
            if part not in ch.score:
                last, open_ev = None, None
                time += chord_duration(ch)
                continue
            t = time
            for n in ch.score[part].notes:
                d = Fraction(n.duration)
                if n.type == 'r':
                    open_ev = None
                elif n.type == 'l':
                    if open_ev is not None:
                        p, o, dd, v = evs[open_ev]
                        evs[open_ev] = (p, o, dd + d, v)
                else:
                    if n.type == 'd':
                        p = n.val + 12 * n.octave
                    elif n.is_relative:
                        ref = last if last is not None else first_relative_reference
                        p = int(ch.to_pitch(n, last_pitch=ref))      # raises outside the +-10 octave window (C09)
                        try:
                            # the k-th pitch of the note's system above / below the reference, counted directly
                            # (C09's independent oracle) rather than taken from the function under test
                            # (seed C03-7 misplaced the sign of a downward note's octave in that function)
                            from props.C09 import expected_rel
                            p = int(expected_rel(ch, n, ref))
                        except Exception:
                            pass
                    else:
                        p = documented_pitch(ch, n)
                    last = p
                    evs.append((p, t, d, int(n.amp)))
                    open_ev = len(evs) - 1
                t += d
            time += chord_duration(ch)
        out[part] = evs
    return out


def well_referenced(score):
    """every relative note has an earlier sounded note of its part with no absence in between; no pattern notes"""
    for part in part_names(score):
        last = False
        for ch in score.chords:
            if part not in ch.score:
                last = False
                continue
            for n in ch.score[part].notes:
                if n.type == 'x':
                    return False
                if n.type in ('r', 'l'):
                    continue
                if n.is_relative and not last:
                    return False
                last = True
    return True


def frac_of_float(x):
    return Fraction(x).limit_denominator(1000000)


def impl_events(score, tempo):
    """sorted [(instrument name, pitch, onset s, duration s, velocity)] from Score.to_events"""
    evs = score.to_events(tempo=tempo)
    return sorted((e['instrument'], int(e['pitch']), frac_of_float(e['offset']), frac_of_float(e['duration']),
                   int(e['velocity'])) for e in evs)


def spec_events(score, tempo):
    sp = spec_sound(score)
    out = []
    for part, evs in sp.items():
        name = part.split('__')[0]
        for p, o, d, v in evs:
            out.append((name, p, o * 60 / tempo, d * 60 / tempo, v))
    return sorted(out)


def impl_sound(score):
    """{part: [(pitch, onset, duration, velocity)]} read from the rendered note matrix (get_notes),
    continuations merged into the directly preceding sounding note of the same track"""
    from musiclang.write.out.to_midi import get_notes, get_track_list
    tracks = get_track_list(score)
    rows = get_notes(score)
    out = {t: [] for t in tracks}
    open_ev = {t: None for t in tracks}
    per = {}
    for r in rows:
        per.setdefault(int(r[4]), []).append(r)
    for ti, rs in per.items():
        t = tracks[ti]
        for r in rs:
            pitch, off, dur, vel, _, sil, cont = r[:7]
            if cont:
                if open_ev[t] is not None:
                    p, o, d, v = out[t][open_ev[t]]
                    out[t][open_ev[t]] = (p, o, d + Fraction(dur), v)
            elif sil:
                open_ev[t] = None
            else:
                out[t].append((int(pitch), Fraction(off), Fraction(dur), int(vel)))
                open_ev[t] = len(out[t]) - 1
    return out


def amps_of(score):
    """the amplitude of every note in traversal order (the text form only keeps the nearest dynamics figure)"""
    return [float(n.amp) for c in score.chords for m in c.score.values() for n in m.notes]


def plain_rests(score):
    """the same score with every rest / continuation held as a plain `Note` of type 'r' / 'l' instead of an instance of
    the `Silence` / `Continuation` subclasses — what `Note.replace(x, r)`, `Melody.replace` and `Note('r', 0, 0, d)`
    produce.  Such a note prints, compares and must render exactly like the subclass instance (seed C09-6 recognised
    rests with isinstance)."""
    from musiclang import Note, Score
    out = []
    for c in score.chords:
        c = c.copy()
        for m in c.score.values():
            for i, n in enumerate(m.notes):
                if n.type in ('r', 'l') and type(n) is not Note:
                    m.notes[i] = Note(n.type, 0, 0, n.duration, tags=set(n.tags), tempo=n.tempo, pedal=n.pedal)
        out.append(c)
    return Score(out)


def load_score(text, amps=None, plain=False):
    """rebuild a score from its text form (replay files store scores as text); `amps` restores amplitudes that the
    text form cannot express; `plain` holds rests / continuations as plain notes (see plain_rests)"""
    from musiclang import Score, Chord
    s = Score.from_str(text)
    if isinstance(s, Chord):
        s = Score([s])
    if plain:
        s = plain_rests(s)
    if amps:
        it = iter(amps)
        for c in s.chords:
            for m in c.score.values():
                for n in m.notes:
                    a = next(it)
                    n.amp = int(a) if float(a).is_integer() else a
    return s
