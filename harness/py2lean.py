"""py2lean: a small typed translator from the AST of selected pure functions of the live library
to Lean 4 definitions ("source images", lean/MV/Gen/Src*.lean).

Purpose (DESIGN.md §9.6): a second, mechanical tie between code and model.  The hand-written
model functions are proved equal to these generated definitions (MV/Props/Tie*.lean), so a
change of the Python source changes the generated definition and the equality is re-checked
by `lake build`; independently the generated definitions are run against the real functions
(stream `src`), which validates this translator.

Admitted subset (anything else raises `Untranslatable`, and the source tie of that function is
reported as lost — never guessed):
  statements : docstring, pass, import, `x = e`, `x op= e`, if/elif/else, return, raise
  expressions: int/bool/None/str constants, names, + - * // % unary -, comparisons, and/or/not,
               `in` / `not in`, `is None` / `is not None`, conditional expressions, tuples,
               indexing and one-sided slices of lists, list comprehensions (nested generators,
               filters), calls of list / sorted / set / len / abs / range / isinstance /
               np.asarray, numpy vector-scalar arithmetic, comparisons and boolean-mask
               indexing, attribute access / method calls / constructors / global tables
               declared in the spec (bound to model functions or generated tables), calls of
               other translated functions (missing trailing arguments take the defaults of the `def`: constants are read from
               the source, others must be declared in the entry, key `defaults`).
Additions for the duration operations (group SrcDurOps; all opt-in through spec bindings or entry keys, so the images of the
other groups do not change): `isinstance` on int / float / str, typed global functions (`spec.calls`, e.g. `frac`), typed
operators bound in the spec or to translated `__add__` / `__radd__` instances (`spec.binops`, entry keys `binop` / `rbinop`),
`obj(...)` through `spec.callables`, values that are one of several classes at run time (`UNIONS`: a `match` per class at the
assignment or at the operator), local recursive functions (entry key `nested`: structural recursion on an explicit depth
bound `rec_fuel`, exhaustion = RecursionError), `xs[i] = v` on a fresh list, `x[::-1]`, comprehension filters that can raise
(`filterM`), dict comprehensions over `d.items()` that keep the keys, `sum(xs, None)`, attributes of a possibly-None value
(AttributeError), per-function `copy()` templates (entry key `copy`), folding of `len([x])` / literal comparisons (`fold`).
List surgery (group SrcExt; the generated file must import MV.Model.PyList, namespace `PyL`): `l[:]` (copy), `l[::-1]`,
`l[i] = v`, `l.insert(i, v)`, `l.pop(i)` (as a statement), `x in l` / `l.index(x)` on lists of strings or of a type whose
`__eq__` the spec binds (`spec.eq`), an empty dict literal with `d[k] = v`, `d[k]`, `d.keys()` (association list in insertion
order, keys compared with the bound `__eq__`), `sorted(l, key=lambda x: e)` with int / Optional[int] keys, f-strings and `+`
on strings.  A parameter the function mutates must be declared `owned` in the spec entry (see `translate_function`).
Re-notations (group SrcConv; bindings local to its entries, entry key `local_spec`): dict types the spec declares
(`spec.dict_types`: `{}`, `d[k] = v`, `x.attr[k] = v`, `{k: f(v) for k, v in d.items()}`, `for k, v in d.items()`), `obj(**d)`
(`spec.call_objects`), `None <op> int` (`spec.none_arith`: TypeError), `l.index(x)` by a translated `__eq__` (`spec.eq_index`),
methods declared to return new objects (`spec.fresh_methods`), `for a, b in pairs`, `a, d[k] = e`, `x.a, y.b = e1, e2`,
`try: … except [Exception]: …` whose body always returns, functions that call themselves (entry key `recursive`: structural
recursion on a depth bound `fuel`), keyword arguments in any order with defaults left out.
Slicing (groups SrcBetween / SrcBetweenProject): dicts as association lists of type `Dict K V`: literals with constant string
keys, `{k: v for k in keys}` (a `None` value makes the entries Optional, their type is fixed by the first store), `d[k]`,
`d[k] = v`, `d[k] op= v`, `d.keys()`, `d.update(e)`, `dict(d)`, `f(**d)` on a callable local (`spec.kwcalls`), all stores only on
dicts no other name refers to; `x if o is not None else y` on an Optional local (a `match`; a raising branch is only evaluated
when taken), built-ins bound per argument types (`spec.builtins`), `o.attr` on an Optional (`spec.option_unwrap`: AttributeError
on None), `for` over a bound iterable (`spec.iters`) and over `enumerate(v)` when the index is never read.
Loops and closures (group SrcEuclid; the generated file must import MV.Model.PyEuclid): `while TEST: BODY` with `break` / `continue`
(`FunTr.while_loop`: a separate definition `<f>_loop<n>` by structural recursion on the bound `rec_fuel`, one unit per iteration,
exhaustion = Err.other; the function and its callers take the bound, entry key `fuel`, as for local recursions), local functions that
read / append to lists of the enclosing function (entry key `nested` with `captures` / `mutates`: the lists become parameters, the
appended-to lists the result; called as statements, `FunTr.closure_call`), `for i, x in enumerate(v)` with the index read and
`for i, (a, b) in enumerate(pairs)` (`Py.enumerate`), two-sided slices `l[a:b]` of int lists (`Py.slice`).
Masks and the transformer dispatcher (group SrcMask; every form below raised `Untranslatable` before, all bindings are opt-in):
`**kwargs` as a record (entry key `kwargs` = a type of `spec.kwrecords`; named parameters with a constant default that the entry does
not list are the keywords read from it: `beat=0` -> `kwargs.beat.getD 0`, `instrument=None` -> the field), calls that pass it on
`callee(args, k=v, …, **kwargs)` to a method (`spec.kwmethods`) or to an object (`spec.callables`: a local, an attribute bound in
`spec.attrs`, a constant subscript) with the duplicate-keyword TypeError (`FunTr.kwrecord_call`), `x.__class__(…)` on a declared
class (`spec.class_ctor`), `~x` (`spec.unops`), `a <= b < c` on pure operands, `all(…)` / `any(…)` on a list comprehension or on a
generator expression whose elements cannot raise, `isinstance(x, C)` on a declared sum type as a value (a `match`) and on a class
the spec declares outside the sum (`spec.not_in_sum`: False), conditional expressions whose branches have different declared
classes (joined by `spec.coercions`) or can raise (only the branch taken is evaluated), list displays of different declared
classes (coerced to one of them), `{k: f(k) for k in d}` over a dict the spec declares (`spec.dict_key_iters`; the values may raise),
`{k: v for k, v in pairs if v is not None}`, an Optional mapped into another Optional by `spec.coercions`.
Equality / printed forms (group SrcEq): `a == b` / `a != b` on two values of one type whose `__eq__` the spec binds (`spec.eq`, the
binding kind SrcExt uses for `in` / `index`), non-string pieces `{x}` of an f-string whose `str(x)` the spec binds per type
(`spec.fstr`), `[e for a, b in pairs]` (a tuple target over a list of tuples, single generator).
MIDI helpers (group SrcMidiUtil): `sum(xss, [])` on a list of lists (the concatenation, `List.flatten`).  The group SrcSpell needed no
new construct: music21 constructors / attribute stores are `spec.methods` / `spec.store_templates` bindings on marker types, `str(int)`
is a `spec.builtins` binding, `mode in SCALES` a `spec.binops` binding.
Re-voicing (group SrcPvl; all opt-in through spec bindings or entry keys): `x.a.b = v` on a copy that holds an `a` object of its
own (`spec.owned_attrs`, see `FunTr.nested_store`), `==` / `!=` on a pair of types the spec binds (`spec.binops[(A, 'Eq', B)]`),
one-sided slices of any list (`l[1:]`), local functions that read parameters of the enclosing function (key `closure` of a
`nested` entry: the variables become leading parameters of the lifted definition), comprehensions with a pair target over a list
of pairs (`for i, x in enumerate(row)`, `enumerate` bound in `spec.builtins`), lists indexed by an int-like type
(`spec.int_types`: numpy integer scalars), `np.<f>(…)` bound per argument types (`spec.builtins['np.<f>']`), bound methods
called with literal keyword arguments (`spec.kw_methods`: `np.diff(x, axis=1)`).
Importer (group SrcImport; every item opt-in through a spec binding / entry key, or a form that raised `Untranslatable` before):
float literals (exact value, type `Float`) compared exactly with ints / Fractions; `-x` on a Fraction; `a <= b < c` on operands that
cannot raise; a conditional expression whose branch can raise (`spec.raising_ifexp`: only the branch taken is evaluated);
`for i, x in enumerate(v)` with the index read and `for i, (a, b) in …` (a bound `enumerate` / `zip` in `spec.builtins`, hidden names
for the nested pairs); a plain (non-recursive, closure-free) local `def` (entry key `nested` with `plain=True`); `xs.pop()`;
`xs[i].attr = e` / `op=` on a fresh list (`check_item_store`: no name an item was appended under is read between the store and its
next binding); `x.attr = e` through the loop variable running over a parameter declared `owned_items` (`check_elem_store`; call sites:
`check_owned`); on declared dict types `x = d.pop(k[, None])` (template `pop`; the popped value is a fresh object — assumption printed),
a `d.pop(k)` argument hoisted in front of its call when the earlier arguments are atoms, `d[k] op= v` (template `get`), `{k: v}` with a
computed key, methods / `in` / `len` on a `{}` whose dict type is fixed by that use, iteration over a bound iterable in a comprehension,
a comprehension as the iterable of a loop that changes the dicts it reads; `f(…)(**d)`; owned arguments re-bound by the same statement
(form (d) of `check_owned_call`); items of a list that was empty when created typed by the attribute / method read from them;
`[f(a, b, …) for a, b, … in rows]`; a list display of mixed types read as a tuple (entry key `list_rows`).
Printed forms down to the note (group SrcText): `a <op> b` on two `Float`s (a value the spec types `Float`, e.g. a bound `amp / 120`,
against a float literal) compared by their exact values; everything else the group needs is a spec binding (`spec.binops` for `/` and
`in`, `spec.fstr`, `spec.globals`, `spec.subscripts`) or an entry key (`join_ifs`).
Where the forks of the groups met (merges of SrcOrn, SrcDurOps, SrcExt, then of SrcConv, SrcBetween / SrcBetweenProject):
  * `/`: a `spec.binops` binding first (SrcDurOps: `Py.ratDiv`, SrcBetween: `PyB.ratDiv`), else the built-in reading (SrcOrn:
    `Py.fracDiv`, `x / 2` pure); bindings are looked up with the operand types as inferred, then with their type variables resolved;
  * `x[::-1]`: a `(type, '[::-1]')` method binding first (SrcDurOps, a `Melody`: a fresh local `rv_n`), else `.reverse` on a `List …`;
  * item store: `xs[i] = v` / `d[k] = v` on a local name -> `PyL.setItem` / `PyL.dictSet` (SrcExt, file imports MV.Model.PyList);
    `m.notes[i] = v` through an attribute that is the list itself -> `Py.setItem` (SrcDurOps, defined in its PRELUDE);
  * dicts, three readings that never mix (`FunTr.dict_reading`): a type declared in `spec.dict_types` with its own `set` template
    (SrcConv), `Dict K V` with `spec.dict_ops` / `lookupKey` (SrcBetween), `Assoc (K × V)` with `PyL.dictSet` / `PyL.dictGet` and the
    bound `__eq__` (SrcExt; this tag was `Dict …` before the second merge).  `{}` is SrcConv's when the spec declares dict types,
    else SrcExt's; a literal with string keys and `{k: v for k in keys}` are SrcBetween's; `{k: f(v) for k, v in …}` is SrcConv's
    over the `.items()` of a declared dict type, else SrcDurOps's list of pairs;
  * `obj(**d)`: one handler (`FunTr.object_call`) reads `spec.callables` (SrcDurOps), `spec.kwcalls` (SrcBetween), `spec.call_objects` (SrcConv);
  * entry key `owned` (parameters the function stores into): see `FunTr.check_owned` (three call disciplines are admitted);
  * depth bounds: the entry key `fuel` of SrcDurOps (`rec_fuel`) and of SrcConv (`fuel`) is one key, see `translate_function`;
  * a loop variable that is `None` before a loop and a value afterwards: SrcDurOps's implementation (SrcBetween's gave the same text);
  * `assert`: SrcOrn's statement (a truthy binding for the test, the note on the message), plus SrcBetween's skip of a test decided by the types;
  * tree nodes: `matchsum` = SrcOrn's `if isinstance(x, C)` on a `spec.sums` type, `matchunion` = SrcDurOps's `UNIONS` value, `try` = SrcConv's;
  * plug-in groups translate against their own copy of the spec (translate_src.make), so bindings do not leak between groups.
Third merge (SrcEuclid, SrcMask, SrcEq, SrcSpell / SrcMidiUtil): the four forks only met in this docstring and in the list of `Spec`
fields (both sides kept).  Every addition sits on a path that raised `Untranslatable` before (two-sided slices, `enumerate` with the
index read, `while`, closures; comparison chains, `all` / `any`, `isinstance` as a value, joined conditional branches, `**kwargs`
records; `==` through `spec.eq` as the last case of `e_Compare`, `spec.fstr`, tuple targets of list comprehensions; `sum(xss, [])`),
so no reading of an older group changes; a comparison chain of SrcMask goes link by link through `e_Compare` and so may use SrcEq's
`spec.eq` case, `all(…)` / `any(…)` go through the list comprehension and so admit SrcEq's tuple targets.
Fourth merge (SrcPvl, SrcImport onto the third):
  * tuple targets of a list comprehension with one generator: SrcEq's handler (any arity, filters); SrcPvl's pair target and SrcImport's
    row target were the same reading with another bound name, kept through `spec.tuple_binder` (`kv`, SrcPvl `p`, SrcImport `row`) so
    that every generated file keeps its text.  SrcPvl's own pair handler remains for comprehensions with several generators; a plain
    target that shadows a component of an enclosing tuple target is refused (SrcEq's rule; SrcPvl's fork un-shadowed it, nothing used that);
  * local functions (`FunTr.local_function`): the `nested` entry takes `captures` / `mutates` (SrcEuclid: read / appended-to variables,
    called as a statement), `closure` (SrcPvl: parameters of the enclosing function it reads, called inside expressions) or `plain`
    (SrcImport: closed, not recursive, no depth bound); `closure` excludes the other two.  In `spec.funs` SrcEuclid's pair stays under
    the key `closure`, SrcPvl's list is under `closure_params`;
  * a conditional expression with a branch that can raise: one handler (SrcMask's `join_branches` covers SrcImport's int / Fraction
    case); `spec.raising_ifexp` no longer admits anything, it keeps SrcImport's text (no outer parentheses);
  * comparison chains: SrcMask's handler alone (SrcImport's, for two order comparisons, gave the same text);
  * `for i, x in enumerate(v)` with the index read / `for i, (a, b) in enumerate(…)`: SrcEuclid's `Py.enumerate` reading unless the
    group binds `enumerate` in `spec.builtins` (SrcImport), in which case the loop runs over that binding (SrcImport's nested targets);
  * slices: SrcEuclid's two-sided `l[a:b]` of int lists first, then one-sided slices of any list (SrcPvl); `e_Call`: SrcMask's `**kwargs`
    record and `x.__class__(…)` first, then SrcImport's `f(…)(**d)`; statements: SrcPvl's `x.a.b = v` and SrcImport's `xs[i].attr = v`
    are disjoint targets, both kept;
  * the int -> Fraction promotions in front of a loop are emitted in sorted order: the forks iterated over a `set` of names, whose order
    changes with the hash seed of the run (first visible in SrcImport, the first function that promotes two variables at once).
Typing is by a simple flow-sensitive inference from the parameter types given in the spec; an
`if` duplicates the rest of the block into both branches, so every path is typed on its own.
Python evaluation order is kept: every sub-expression that can raise is bound (`let t ← …`)
in source order before the expression using it.
"""
import ast, inspect, textwrap, importlib, re


class Untranslatable(Exception):
    pass


def split_prod(ty):
    """components of `A × B × C` (top level only)"""
    out, depth, cur = [], 0, ''
    for tok in ty.split(' '):
        depth += tok.count('(') - tok.count(')')
        if tok == '×' and depth == 0:
            out.append(cur.strip())
            cur = ''
        else:
            cur += ' ' + tok
    out.append(cur.strip())
    return [o[1:-1] if o.startswith('(') and o.endswith(')') and ' × ' not in o[1:-1] else o for o in out]


KEYWORDS = {'at', 'from', 'end', 'open', 'fun', 'show', 'have', 'do', 'then', 'else', 'if', 'let', 'in', 'by',
            'match', 'with', 'where', 'def', 'theorem', 'namespace', 'section', 'instance', 'class', 'structure',
            'variable', 'universe', 'import', 'export', 'prefix', 'infix', 'notation', 'macro', 'syntax', 'Type',
            'Prop', 'Sort', 'return', 'for', 'unless', 'try', 'catch', 'finally', 'mut', 'break', 'continue',
            'deriving', 'extends', 'abbrev', 'axiom', 'example', 'inductive', 'calc', 'using', 'nomatch', 'local'}

ERRS = {'Exception': 'other', 'ValueError': 'value', 'KeyError': 'key', 'IndexError': 'index', 'TypeError': 'type',
        'ZeroDivisionError': 'zerodiv', 'AttributeError': 'attr', 'AssertionError': 'assertion',
        'NotImplementedError': 'other'}

LIST_TYPES = ('List Int', 'Np')
INT_LIT = re.compile(r'^\((-?\d+) : Int\)$')


def display_len(t):
    """number of elements of a Lean list display `[a, b, …]` written by this translator, else None"""
    if not (t.startswith('[') and t.endswith(']')):
        return None
    inner = t[1:-1].strip()
    if not inner:
        return 0
    depth, n = 0, 1
    for ch in inner:
        if ch in '([{⟨':
            depth += 1
        elif ch in ')]}⟩':
            depth -= 1
            if depth < 0:
                return None
        elif ch == ',' and depth == 0:
            n += 1
    return n if depth == 0 else None


# builtin classes in `isinstance(x, C)` -> declared types whose values are instances of C (a bool is an int)
PYCLASSES = {'int': ('Int', 'Bool'), 'float': ('Float',), 'bool': ('Bool',), 'str': ('Str',)}


def ident(n):
    return f'«{n}»' if n in KEYWORDS else n


UNIONS = {}      # 'A|B' -> (Lean inductive, [(member type, constructor)]): values whose Python class is decided at run time


ASSOC = 'Assoc '     # SrcExt's dicts: `Assoc (K × V)`, the entry type fixed by the first store (SrcBetween's are `Dict K V`, see `dict_kv`)


def dict_kv(ty):
    """`Dict K V` (SrcBetween: a Python dict read as an association list in insertion order) -> (K, V)"""
    k, v = ty[5:].split(' ', 1)
    v = v.strip()
    return k, (v[1:-1] if v.startswith('(') and v.endswith(')') else v)


def lean_ty(t):
    if t in UNIONS:
        return UNIONS[t][0]
    if t.startswith(ASSOC):            # SrcExt: a dict is its association list in insertion order, `Assoc <entry type>`
        return 'List ' + t[len(ASSOC):]
    if t.startswith('Dict '):          # SrcBetween: `Dict K V`
        k, v = dict_kv(t)
        return f'List ({lean_ty(k)} × {lean_ty(v)})'
    return {'Np': 'List Int', 'NpBool': 'List Bool', 'None': 'Unit', 'Str': 'String', 'Set Int': 'List Int',
            'Parts': 'List (String × Melody)', 'List Str': 'List String', 'Metric': 'Rhythm.Metric',
            'Float': 'Rat'}.get(t, t)


def ilit(k):
    return f'({k} : Int)'


def is_list(ty):
    return ty in ('Np', 'Melody') or ty.startswith('List ')


def elem_ty(ty):
    if ty == 'Np':
        return 'Int'
    if ty == 'Melody':
        return 'Note'
    e = ty[len(ASSOC):].strip() if ty.startswith(ASSOC) else ty[5:].strip()
    return e[1:-1] if e.startswith('(') and e.endswith(')') else e


def paren(t):
    return t if (' ' not in t or t.startswith('(')) else f'({t})'


def strip_outer(ty):
    """`(A × (B × C))` -> `A × (B × C)` when the first parenthesis closes at the end"""
    if not (ty.startswith('(') and ty.endswith(')')):
        return ty
    depth = 0
    for i, ch in enumerate(ty):
        depth += ch == '('
        depth -= ch == ')'
        if depth == 0 and i < len(ty) - 1:
            return ty
    return ty[1:-1]


def tuple_proj(n, i):
    """projection i of an n-tuple nested to the right"""
    if n == 1:
        return ''
    return ''.join('.2' for _ in range(i)) + ('.1' if i < n - 1 else '')


class Spec:
    """what the translator may assume about names it does not translate itself"""

    def __init__(self, attrs=None, methods=None, ctors=None, globals_=None, subscripts=None):
        self.attrs = attrs or {}          # (type, attr) -> (template, result type)   `Res T` = may raise
        self.methods = methods or {}      # (type, method) -> (template over {0}=self,{1}.., result type)
        self.ctors = ctors or {}          # class name -> dict(fields=[(py, lean, type, default-or-None)], drop=[..], ty=..)
        self.globals = globals_ or {}     # global name -> (term, type)
        self.subscripts = subscripts or {}  # global name -> (template over {0}=key, key type, result type)
        self.funs = {}                    # python name -> dict(lean, params, ret, pure)   (filled while translating)
        self.operators = {}               # (type, '+') -> python function name in funs
        self.funs_by_attr = {}            # (type, attr) -> python function name in funs (translated properties / methods)
        self.fields = {}                  # (type, python attribute) -> (Lean field, field type): attributes that may be stored to
        self.value_types = set()          # record types with value semantics (`x.copy()` is the identity on the model's values)
        self.kinds = set()                # note type strings that exist as `Kind` constructors
        self.tuple_fields = {}            # (record type, constant index) -> (template, type): rows stored as Python lists
        self.index_methods = {}           # container type -> (template over {0}=container,{1}=key, key type, result type)
        self.copy_template = {}           # value type -> what `x.copy()` is on the model's values (default: the identity)
        # --- bindings added for the plug-in groups (all empty by default: nothing changes for specs that do not set them)
        self.binops = {}                  # (left type, ast operator name, right type) -> (template over {0},{1}, result type); `Res T` = may
                                          #   raise.  Set by hand (SrcOrn: `+` on note-or-melody values; SrcDurOps: `/` on Fractions, list * int,
                                          #   `In`) or by the entry keys `binop` / `rbinop` (typed instances of translated `__add__` / `__radd__`).
                                          #   A binding wins over the built-in reading of `/` (see `FunTr.binop`).
        self.truthy = {}                  # type -> template of `bool(x)` (a value of that type used as a condition)
        self.coercions = {}               # (from type, to type) -> template: representation changes of the model (Note into note-or-melody)
        self.sums = {}                    # sum type -> {python class name: (match pattern over {0}, payload type)}  (isinstance tests)
        self.store_templates = {}         # (type, attr) -> (template over {0}=object,{1}=value, value type, result type): `x.attr = v` on a non-record
        self.fraction_ctors = set()       # names bound to `fractions.Fraction` in the translated module
        self.calls = {}                   # (global function name, argument types) -> (template over {0}.., result type)
        self.callables = {}               # (type of the called object, (positional types…, '**T' for a `**dict` argument)) ->
                                          #   (template over {0}=object,{1}.., result type, keyword names that are dropped)
        self.eq = {}                      # type -> template over {0}=list item / stored key, {1}=value: Python's `{0} == {1}` (`__eq__`)
        # --- binding kinds added for the group SrcConv (all empty by default: nothing changes for the other groups)
        self.none_arith = None            # template over {0}: an `Option Int` used as an arithmetic operand (`None % 12` raises TypeError)
        self.fresh_methods = set()        # (type, method): the result is a new object no other name refers to
        self.eq_index = {}                # element type -> template over {0}=list,{1}=value: `list.index(value)` by the translated `__eq__`
        self.call_objects = {}            # type -> (template over {0}=object,{1}=dict, dict type, result type): `obj(**dict)`
        self.dict_types = {}              # dict type -> dict(key=, val=, items=type of .items(), set=template {0},{1},{2})
        self.dict_empty = '[]'            # `{}` on the model's association lists
        # --- binding kinds added for the groups SrcBetween / SrcBetweenProject (empty by default)
        self.kwcalls = {}                 # (type of a callable local, type of the dict in `f(**d)`) -> (template over {0}=f,{1}=d, result type)
        self.builtins = {}                # built-in function name -> {tuple of argument types: (template, result type)}
        self.dict_ops = {}                # 'set' / 'get' / 'update' -> template: Python dict operations on association lists
        self.option_unwrap = None         # template over {0}: `x.attr` on an Optional x (AttributeError on None), `Res T`
        self.iters = {}                   # type -> (template over {0}, list type): what `for x in v` iterates over
        # --- binding kinds added for the group SrcMask (empty by default)
        self.unops = {}                   # (type, ast unary operator name) -> (template over {0}, result type): `~x` (`__invert__`)
        self.class_ctor = {}              # declared type of `x` -> constructor name of `spec.ctors`: `x.__class__(…)`
        self.kwrecords = {}               # record type of a `**kwargs` parameter -> {keyword: (Lean field, field type `Option T`)}
        self.kwmethods = {}               # (type, method, positional types…, '**T') -> (template over {0}=self,{1}..,{n}=kwargs, result type)
        self.not_in_sum = set()           # (sum type, python class name): classes disjoint from the sum (`isinstance` is False)
        self.dict_key_iters = {}          # dict type -> (template over {0} for the list of its keys, key type): `{k: f(k) for k in d}`
        # --- binding kind added for the group SrcEq (empty by default)
        self.fstr = {}                    # type -> template over {0}: `str(x)` of a non-string piece `{x}` of an f-string (no conversion, no format spec)
        # --- binding kinds added for the group SrcPvl (empty by default)
        self.tuple_binder = 'kv'          # prefix of the variable a tuple target of a comprehension is bound to (SrcPvl's fork wrote 'p', SrcImport's 'row')
        self.owned_attrs = set()          # (type, attr): `x.copy()` on a value of `type` gives the copy an `attr` object of its own
        self.int_types = set()            # types that index a list as an int does (numpy integer scalars)
        self.kw_methods = {}              # (type, method, ((keyword, literal term), …)) -> (template over {0}=object,{1}.. positional, result
                                          #   type): a bound method called with these keyword arguments, each a literal (`np.diff(x, axis=1)`)
        # --- binding kinds added for the group SrcImport
        # --- binding kind added for the group SrcRoman (empty by default)
        self.const_dicts = {}             # (key type, value type) -> declared type name: a dict literal whose keys are distinct tuples of int
                                          #   constants (`{(6, 8): 2, (2, 2): 2}`), read as the association list in source order
        self.raising_ifexp = False        # SrcImport's fork admitted `a if c else b` with a branch that can raise only under this flag; since
                                          #   the merge with SrcMask (which admits it always) it only selects that fork's text (no outer parentheses)


class FunTr:
    def __init__(self, spec, name, params, ret, self_type=None):
        self.spec, self.name, self.params, self.ret = spec, name, params, ret
        self.n = 0
        self.assumed = []      # partial-evaluation decisions taken from the declared types
        self.fresh_terms = set()   # terms known to denote a value no other name refers to (results of copy / constructors / calls)
        self.last_tuple = None     # (term, [(component term, type)]) of the tuple expression translated last
        self.tyvars = {}           # marker -> resolved element type of an empty list literal
        self.in_loop = 0
        self.consts = {}           # parameters the spec fixes to a literal (defaults that the tie does not vary)
        self.join_ifs = False      # entry option: an `if` without return / raise joins its branches instead of duplicating the rest
        self.cur_target = None     # name assigned by the statement being translated (`x = f(x, …)` with an owned parameter) …
        self.cur_value = None      # … and its right-hand side
        self.copy_template = {}    # value type -> `x.copy()` on the model's values, for this function only (entry key `copy`)
        self.typed_ops = False     # entry key `typed_ops`: operator instances translated from the classes win over list concatenation
        self.fold_literals = False  # entry key `fold`: `len([x])` and comparisons of two int literals are evaluated
        self.nested = {}           # entry key `nested`: local function name -> dict(lean=, params=, ret=) (recursion by fuel)
        self.nested_defs = []      # rendered local functions
        self.has_fuel = False      # the Lean definition takes `rec_fuel : Nat` (bound on the depth of local recursions)
        self.fuel_name = None      # … under this name: `rec_fuel` (SrcDurOps) or `fuel` (SrcConv), see `call_fun` / `translate_function`
        self.ret_expr = None       # the expression of the `return` statement being translated
        self.state_param = None    # SrcRoman, entry key `state`: the owned parameter a method mutates; it is returned (see `translate_function`)

    def fresh(self, base='t'):
        self.n += 1
        return f'{base}_{self.n}'

    # ---------------------------------------------------------------- expressions
    def bind(self, B, term, ty):
        """`ty` may be `Res T`: bind it and return a pure name of type T"""
        if ty.startswith('Res '):
            if B is None:
                raise Untranslatable('an expression that can raise inside a pure context')
            inner = ty[4:].strip()
            if inner.startswith('(') and inner.endswith(')'):
                inner = inner[1:-1]
            t = self.fresh()
            B.append((t, term))
            return t, inner
        return term, ty

    def expr(self, e, env, B):
        m = getattr(self, 'e_' + type(e).__name__, None)
        if m is None:
            raise Untranslatable(f'expression {type(e).__name__} at line {getattr(e, "lineno", "?")}')
        return m(e, env, B)

    def e_Constant(self, e, env, B):
        v = e.value
        if v is None:
            return 'none', 'None'
        if isinstance(v, bool):
            return ('true' if v else 'false'), 'Bool'
        if isinstance(v, int):
            return ilit(v), 'Int'
        if isinstance(v, str):
            import json
            return json.dumps(v, ensure_ascii=True), 'Str'
        if isinstance(v, float) and v == v and v not in (float('inf'), float('-inf')):
            # SrcImport: a float literal is carried as the exact rational value of the double (type `Float`, never converted silently)
            from fractions import Fraction
            q = Fraction(v)
            return f'(({q.numerator} : Rat) / ({q.denominator} : Rat))', 'Float'
        raise Untranslatable(f'constant {v!r}')

    def e_Name(self, e, env, B):
        if e.id in self.consts and e.id in env and e.id not in env.get('__rebound__', ()):
            return self.consts[e.id], env[e.id]
        if e.id in env.get('__subst__', {}) and e.id in env:
            return env['__subst__'][e.id], env[e.id]           # components of the pair a dict comprehension runs over
        if e.id in env.get('__const__', {}) and e.id in env:
            return env['__const__'][e.id], env[e.id]      # a local bound to a boolean literal on this path
        if e.id in env:
            return ident(e.id), env[e.id]
        if e.id in self.spec.globals:
            return self.spec.globals[e.id]
        raise Untranslatable(f'unknown name {e.id}')

    def e_Tuple(self, e, env, B):
        parts = [self.expr(x, env, B) for x in e.elts]
        t = '(' + ', '.join(p[0] for p in parts) + ')'
        self.last_tuple = (t, parts)
        return t, ' × '.join(paren(lean_ty(p[1])) if ' × ' in lean_ty(p[1]) else lean_ty(p[1]) for p in parts)

    def e_List(self, e, env, B):
        if not e.elts:
            m = f'⟦T{len(self.tyvars) + 1}⟧'
            self.tyvars[m] = None
            return '[]', f'List {m}'
        parts = [self.expr(x, env, B) for x in e.elts]
        if any(p[1] != parts[0][1] for p in parts) and getattr(self, 'list_rows', False):
            # SrcImport (entry key `list_rows`): a list display of fixed length with items of several types is a row, read as a tuple
            t = '(' + ', '.join(p[0] for p in parts) + ')'
            self.last_tuple = (t, parts)
            return t, ' × '.join(paren(lean_ty(p[1])) if ' × ' in lean_ty(p[1]) else lean_ty(p[1]) for p in parts)
        if any(p[1] != parts[0][1] for p in parts):
            # SrcMask: elements of different declared classes that the spec coerces to one of the element types (`[self, other]`)
            for cand in [p[1] for p in parts]:
                try:
                    parts = [(self.coerce(t_, ty_, cand, 'list element'), cand) for t_, ty_ in parts]
                    break
                except Untranslatable:
                    continue
            else:
                raise Untranslatable('heterogeneous list')
        return '[' + ', '.join(p[0] for p in parts) + ']', f'List {paren(lean_ty(parts[0][1]))}'

    def truth(self, t, ty):
        """`t : ty` used as a condition: a Bool as it is, other types only through a `truthy` binding of the spec"""
        if ty != 'Bool' and ty in self.spec.truthy:
            return self.spec.truthy[ty].format(t), 'Bool'
        return t, ty

    def e_Dict(self, e, env, B):
        """a dict is an association list in insertion order; three readings, chosen by the literal and by what the group's spec binds:
          * a literal with distinct constant string keys (SrcBetween): the list in source order, type `Dict Str V`;
          * `{}` when the spec declares dict types (SrcConv, `spec.dict_types`): which declared type it is is fixed by the first
            store / by what it is passed as (`as_dict_type`);
          * `{}` otherwise (SrcExt): the entry type is fixed by the first store, type `Assoc ⟦T⟧` (operations of MV.Model.PyList)"""
        if len(e.keys) == 1 and e.keys[0] is not None and not isinstance(e.keys[0], ast.Constant) and self.spec.dict_types:
            # SrcImport: `{k: v}` with a computed key, of the dict type the spec declares for these key / value types
            k_, kty_ = self.expr(e.keys[0], env, B)
            v_, vty_ = self.expr(e.values[0], env, B)
            cands = [d for d, D in self.spec.dict_types.items() if lean_ty(D['key']) == lean_ty(kty_)
                     and lean_ty(D['val']).replace('Melody', 'List Note') == lean_ty(vty_).replace('Melody', 'List Note')]
            if len(cands) != 1:
                raise Untranslatable(f'dict literal {{{kty_}: {vty_}}}')
            return f'[({k_}, {v_})]', cands[0]
        if e.keys and self.spec.const_dicts and all(
                isinstance(k_, ast.Tuple) and k_.elts and all(isinstance(x_, ast.Constant) and type(x_.value) is int for x_ in k_.elts)
                for k_ in e.keys):
            # SrcRoman: `{(6, 8): 2, (2, 2): 2}`: distinct tuples of int constants as keys, values of one type; the spec names the type
            if len({tuple(x_.value for x_ in k_.elts) for k_ in e.keys}) != len(e.keys):
                raise Untranslatable('dict literal with a repeated key')
            items = [(self.expr(k_, env, B), self.expr(v_, env, B)) for k_, v_ in zip(e.keys, e.values)]
            sig = (items[0][0][1], items[0][1][1])
            if any((k_[1], v_[1]) != sig for k_, v_ in items) or sig not in self.spec.const_dicts:
                raise Untranslatable(f'dict literal {sig}')
            return '[' + ', '.join(f'({k_[0]}, {v_[0]})' for k_, v_ in items) + ']', self.spec.const_dicts[sig]
        if e.keys:
            if any(not (isinstance(k_, ast.Constant) and isinstance(k_.value, str)) for k_ in e.keys) \
                    or len({k_.value for k_ in e.keys}) != len(e.keys):
                raise Untranslatable('dict literal')
            items = [(self.expr(k_, env, B)[0], self.expr(v_, env, B)) for k_, v_ in zip(e.keys, e.values)]
            if any(v_[1] != items[0][1][1] for _, v_ in items):
                raise Untranslatable('heterogeneous dict')
            return '[' + ', '.join(f'({k_}, {v_[0]})' for k_, v_ in items) + ']', f'Dict Str {paren(items[0][1][1])}'
        m = f'⟦T{len(self.tyvars) + 1}⟧'
        self.tyvars[m] = None
        if self.spec.dict_types:
            self.dictvars = getattr(self, 'dictvars', set()) | {m}
            return self.spec.dict_empty, m
        return '[]', f'{ASSOC}{m}'

    def dict_reading(self, ty):
        """which reading of Python dicts a type belongs to: 'declared' = a dict type of `spec.dict_types` or a `{}` that will
        become one (SrcConv), 'kv' = `Dict K V` (SrcBetween), 'assoc' = `Assoc (K × V)` (SrcExt); None for other types"""
        if self.spec.dict_types and (self.resolve(ty) in self.spec.dict_types or ty in getattr(self, 'dictvars', ())):
            return 'declared'
        if ty.startswith('Dict '):
            return 'kv'
        if ty.startswith(ASSOC):
            return 'assoc'
        return None

    def as_dict_type(self, ty, key=None, val=None, want=None):
        """the declared dict type `ty` stands for; an empty `{}` is resolved by what is stored into it / what it is passed as"""
        ty = self.resolve(ty)
        if ty in self.spec.dict_types:
            return ty
        if ty in getattr(self, 'dictvars', ()) and self.tyvars.get(ty) is None:
            cands = [d for d, D in self.spec.dict_types.items()
                     if (want is None or d == want) and (key is None or lean_ty(D['key']) == lean_ty(key))
                     and (val is None or lean_ty(D['val']).replace('Melody', 'List Note') == lean_ty(val).replace('Melody', 'List Note'))]
            if len(cands) == 1:
                self.tyvars[ty] = cands[0]
                return cands[0]
        return None

    def e_JoinedStr(self, e, env, B):
        """f-string whose pieces are literal text and `{s}` for a string `s` (no conversion, no format spec)"""
        import json
        parts = []
        for v in e.values:
            if isinstance(v, ast.Constant) and isinstance(v.value, str):
                parts.append(json.dumps(v.value, ensure_ascii=True))
            elif isinstance(v, ast.FormattedValue) and v.conversion == -1 and v.format_spec is None:
                t, ty = self.expr(v.value, env, B)
                if lean_ty(ty) != 'String' and ty in self.spec.fstr:
                    t, ty = self.spec.fstr[ty].format(t), 'Str'       # SrcEq: `{x}` is `str(x)`, bound per type in the spec
                if lean_ty(ty) != 'String':
                    raise Untranslatable(f'f-string piece of type {ty}')
                parts.append(t)
            else:
                raise Untranslatable('f-string form')
        return ('(' + ' ++ '.join(parts) + ')' if len(parts) > 1 else (parts[0] if parts else '""')), 'Str'

    def eq_fun(self, ty):
        """Python's `==` on `ty` as a Lean function `item -> value -> Bool` (strings: built in; other types: `spec.eq`)"""
        if lean_ty(ty) == 'String':
            return '(fun (a b : String) => a == b)'
        tmpl = getattr(self.spec, 'eq', {}).get(ty)
        if tmpl is None:
            raise Untranslatable(f'`==` on {ty} is not bound in the spec')
        return f'(fun (a b : {lean_ty(ty)}) => {tmpl.format("a", "b")})'

    def e_UnaryOp(self, e, env, B):
        t, ty = self.expr(e.operand, env, B)
        if isinstance(e.op, ast.Not):
            t, ty = self.truth(t, ty)
        if isinstance(e.op, ast.USub) and ty == 'Int':
            return f'(-{t})', 'Int'
        if isinstance(e.op, ast.USub) and ty == 'Rat':
            return f'(-{t})', 'Rat'           # SrcImport: `-x` on a Fraction
        if isinstance(e.op, ast.Not) and ty == 'Bool':
            if t in ('true', 'false'):
                return ('false' if t == 'true' else 'true'), 'Bool'
            return f'(!{t})', 'Bool'
        if (ty, type(e.op).__name__) in self.spec.unops:          # SrcMask: `~mask`
            tmpl, rty = self.spec.unops[(ty, type(e.op).__name__)]
            return self.bind(B, tmpl.format(t), rty)
        raise Untranslatable(f'unary {type(e.op).__name__} on {ty}')

    def e_BoolOp(self, e, env, B):
        op = '&&' if isinstance(e.op, ast.And) else '||'
        first, ty = self.truth(*self.expr(e.values[0], env, B))
        if ty != 'Bool':
            raise Untranslatable('and/or on non-bool')
        terms = [first]
        for v in e.values[1:]:
            Bi = []
            t, ty = self.truth(*self.expr(v, env, Bi))
            if Bi:
                raise Untranslatable('short-circuit operand that can raise')
            if ty != 'Bool':
                raise Untranslatable('and/or on non-bool')
            terms.append(t)
        absorbing = 'false' if op == '&&' else 'true'
        if absorbing in terms:
            return absorbing, 'Bool'          # operands are pure (checked above), so short-circuiting cannot be observed
        terms = [t for t in terms if t not in ('true', 'false')] or [terms[0]]
        if len(terms) == 1:
            return terms[0], 'Bool'
        return '(' + f' {op} '.join(terms) + ')', 'Bool'

    def ifexp_opt(self, e, env, B, nt):
        """`a if x is not None else b` on an Optional local: a `match`, each branch typed with the narrowed type;
        a branch that can raise is evaluated only when it is taken"""
        x, is_none = nt
        inner = env[x][7:].strip()
        inner = inner[1:-1] if inner.startswith('(') and inner.endswith(')') else inner
        e_none, e_some = (e.body, e.orelse) if is_none else (e.orelse, e.body)
        Bs, Bn = [], []
        a, aty = self.expr(e_some, {**env, x: inner, '__narrowed__': tuple(env.get('__narrowed__', ())) + (x,)}, Bs)
        b, bty = self.expr(e_none, {**env, x: 'None'}, Bn)
        if aty != bty:
            if {aty, bty} != {'Int', 'Rat'}:
                raise Untranslatable('conditional expression')
            a, b = self.coerce(a, aty, 'Rat'), self.coerce(b, bty, 'Rat')
            aty = 'Rat'
        if not Bs and not Bn:
            return f'(match {ident(x)} with | some {ident(x)} => {a} | none => {b})', aty
        if B is None:
            raise Untranslatable('an expression that can raise inside a pure context')

        def seq(Bx, t):
            return ' '.join([(f'let {n} := {m[1]};' if isinstance(m, tuple) else f'let {n} ← {m};') for n, m in Bx] + [f'pure {t}'])
        return self.bind(B, f'match {ident(x)} with | some {ident(x)} => (do {seq(Bs, a)}) | none => (do {seq(Bn, b)})',
                         'Res ' + paren(aty))

    def e_IfExp(self, e, env, B):
        nt = self.none_test(e.test, env)
        if nt is not None:
            return self.ifexp_opt(e, env, B, nt)
        c, cty = self.expr(e.test, env, B)
        Ba, Bb = [], []
        a, aty = self.expr(e.body, env, Ba)
        b, bty = self.expr(e.orelse, env, Bb)
        if cty == 'Bool' and c in ('true', 'false') and B is not None and (Ba or Bb):
            # decided by the declared types: only the branch that runs is evaluated
            B.extend(Ba if c == 'true' else Bb)
            return (a, aty) if c == 'true' else (b, bty)
        if cty == 'Bool' and ((c == 'true' and not Ba) or (c == 'false' and not Bb)):
            return (a, aty) if c == 'true' else (b, bty)      # the other branch is never evaluated (it may raise)
        def inline(Bx, t):
            # branches that only name copies of values (`x.copy() if … else …`): the names are local to the branch
            for n_, m_ in reversed(Bx):
                t = f'(let {n_} := {m_[1]}; {t})'
            return t
        if (Ba or Bb) and cty == 'Bool' and all(isinstance(m_, tuple) and m_[0] == 'pure' for _, m_ in Ba + Bb):
            a, b, Ba, Bb = inline(Ba, a), inline(Bb, b), [], []
        if (Ba or Bb) and cty == 'Bool' and B is not None and c not in ('true', 'false'):
            # SrcMask, SrcImport: a branch that can raise is evaluated only when it is taken (`f(x) if test else g(x)`,
            # `xs[0].start if len(xs) > 0 else t`).  One reading; `spec.raising_ifexp` keeps the text SrcImport's fork wrote
            a, b, aty = self.join_branches(a, aty, b, bty)

            def seq(Bx, t):
                return ' '.join([(f'let {n_} := {m_[1]};' if isinstance(m_, tuple) else f'let {n_} ← {m_};') for n_, m_ in Bx] + [f'pure {t}'])
            t = f'if {c} then (do {seq(Ba, a)}) else (do {seq(Bb, b)})'
            return self.bind(B, t if self.spec.raising_ifexp else f'({t})', 'Res ' + paren(aty))
        if Ba or Bb or cty != 'Bool':
            raise Untranslatable('conditional expression')
        if c == 'true':          # decided by the declared types (e.g. `x if x is not None else d` on a non-optional x)
            return a, aty
        if c == 'false':
            return b, bty
        if aty != bty:
            a, b, aty = self.join_branches(a, aty, b, bty)      # SrcMask: `self if … else BoolMask(…)`
        return f'(if {c} then {a} else {b})', aty

    def join_branches(self, a, aty, b, bty):
        """the two values of a conditional expression at one type: equal types, or one side coerced to the other by a
        conversion `coerce` admits (None / T into Optional[T], a declared class into the type the spec coerces it to)"""
        if aty == bty:
            return a, b, aty
        for want in (bty, aty):
            try:
                return self.coerce(a, aty, want, 'conditional expression'), self.coerce(b, bty, want, 'conditional expression'), want
            except Untranslatable:
                continue
        raise Untranslatable('conditional expression')

    def unify_list(self, a, b):
        """two list types, one of which may still have an unresolved element type"""
        if a == b:
            return a, b
        for x, y in ((a, b), (b, a)):
            m = elem_ty(x)
            if m in self.tyvars and m not in elem_ty(y):
                self.tyvars[m] = elem_ty(y)
                return y, y
        raise Untranslatable(f'{a} + {b}')

    def posint(self, e):
        return isinstance(e, ast.Constant) and isinstance(e.value, int) and not isinstance(e.value, bool) and e.value > 0

    def e_BinOp(self, e, env, B):
        a, aty = self.expr(e.left, env, B)
        b, bty = self.expr(e.right, env, B)
        op = type(e.op).__name__
        if self.spec.none_arith and aty == 'Option Int' and bty == 'Int' and op in ('Add', 'Sub', 'Mult', 'FloorDiv', 'Mod'):
            a, aty = self.bind(B, self.spec.none_arith.format(a), 'Res Int')      # `None <op> int` raises TypeError (SrcConv)
        return self.binop_u(a, aty, b, bty, op, e, B)

    def binop_u(self, a, aty, b, bty, op, e, B):
        bty = next((k_ for k_, v_ in UNIONS.items() if v_[0] == bty), bty)      # element types of lists carry the Lean name
        if bty in UNIONS and aty not in UNIONS:
            # the method that runs depends on the class of the right operand: one alternative per class
            x = self.fresh('u')
            alts, rtys = [], []
            for mt, ctor in UNIONS[bty][1]:
                Bi = []
                r, rty = self.binop(a, aty, x, mt, op, e, Bi)
                if Bi:
                    raise Untranslatable(f'{aty} {op} {bty}: an alternative that can raise, at line {e.lineno}')
                alts.append(f'| {UNIONS[bty][0]}.{ctor} {x} => {r}')
                rtys.append(rty)
            if any(lean_ty(r) != lean_ty(rtys[0]) for r in rtys):
                raise Untranslatable(f'{aty} {op} {bty}: result types {rtys} at line {e.lineno}')
            return f'(match {b} with ' + ' '.join(alts) + ')', rtys[0]
        return self.binop(a, aty, b, bty, op, e, B)

    def binop(self, a, aty, b, bty, op, e, B):
        if self.typed_ops and (aty, op, bty) in self.spec.binops:      # a translated `__add__` / `__radd__` instance
            tmpl, rty = self.spec.binops[(aty, op, bty)]
            return self.bind(B, tmpl.format(a, b), rty)
        if aty == 'Bool' and bty == 'Int':
            a, aty = f'(Py.b2i {a})', 'Int'
        if bty == 'Bool' and aty == 'Int':
            b, bty = f'(Py.b2i {b})', 'Int'
        if aty == 'Int' and bty == 'Int':
            if op in ('Add', 'Sub', 'Mult'):
                return f'({a} {dict(Add="+", Sub="-", Mult="*")[op]} {b})', 'Int'
            if op in ('FloorDiv', 'Mod'):
                if self.posint(e.right):
                    return f'({a} {"/" if op == "FloorDiv" else "%"} {b})', 'Int'
                return self.bind(B, f'Py.{"floordiv" if op == "FloorDiv" else "mod"} {a} {b}', 'Res Int')
        if 'Rat' in (aty, bty) and {aty, bty} <= {'Rat', 'Int'} and op in ('Add', 'Sub', 'Mult'):
            a = a if aty == 'Rat' else f'(({a} : Int) : Rat)'
            b = b if bty == 'Rat' else f'(({b} : Int) : Rat)'
            return f'({a} {dict(Add="+", Sub="-", Mult="*")[op]} {b})', 'Rat'
        if aty == 'Np' and bty == 'Int' and op in ('Add', 'Sub', 'Mult'):
            v = self.fresh('v')
            return f'({a}.map (fun ({v} : Int) => {v} {dict(Add="+", Sub="-", Mult="*")[op]} {b}))', 'Np'
        if is_list(aty) and is_list(bty) and aty != 'Np' and op == 'Add':
            aty, bty = self.unify_list(aty, bty)
            return f'({a} ++ {b})', aty
        if lean_ty(aty) == 'String' and lean_ty(bty) == 'String' and op == 'Add':
            return f'({a} ++ {b})', 'Str'
        if (aty, op) in self.spec.operators and bty == aty:
            return self.call_fun(self.spec.operators[(aty, op)], [(a, aty), (b, bty)], B)
        bkey = (aty, op, bty) if (aty, op, bty) in self.spec.binops else (self.resolve(aty), op, self.resolve(bty))
        if bkey in self.spec.binops:
            # an operator the spec binds (SrcOrn: `+` on note-or-melody values; SrcDurOps: `/` on Fractions, list * int, typed
            # `__add__` instances).  It comes before the built-in reading of `/` below, so that a group that binds `/` itself
            # (SrcDurOps: `Py.ratDiv`) keeps its binding and a group that does not (SrcOrn) gets the built-in one.
            tmpl, rty = self.spec.binops[bkey]
            return self.bind(B, tmpl.format(a, b), rty)
        if op == 'Div' and 'Rat' in (aty, bty) and {aty, bty} <= {'Rat', 'Int'}:
            # Fraction / Fraction-or-int: exact, ZeroDivisionError on 0
            a = a if aty == 'Rat' else f'(({a} : Int) : Rat)'
            b = b if bty == 'Rat' else f'(({b} : Int) : Rat)'
            if self.posint(e.right):
                return f'({a} / {b})', 'Rat'
            return self.bind(B, f'Py.fracDiv {a} {b}', 'Res Rat')
        if op == 'Div' and aty == 'Int' and bty == 'Int' and self.posint(e.right):
            # int / int is a float; admitted only under `int(…)` (see e_Call), as the pair (dividend, divisor)
            return f'({a}, {b})', 'IntQuot'
        raise Untranslatable(f'{aty} {op} {bty} at line {e.lineno}')

    CMP = {'Eq': '=', 'NotEq': '≠', 'Lt': '<', 'LtE': '≤', 'Gt': '>', 'GtE': '≥'}

    def e_Compare(self, e, env, B):
        if len(e.ops) != 1:
            # `a <= b < c` = `a <= b and b < c` with `b` evaluated once; admitted when every operand is pure (so neither the
            # single evaluation nor the short-circuit can be observed).  SrcMask's handler; SrcImport's fork had the same reading
            # for chains of two order comparisons and gives the same text through this one
            terms, left = [], e.left
            for op_, right_ in zip(e.ops, e.comparators):
                one = ast.Compare(left=left, ops=[op_], comparators=[right_])
                ast.copy_location(one, e)
                t_, ty_ = self.expr(one, env, None)
                if ty_ != 'Bool':
                    raise Untranslatable('comparison chain')
                terms.append(t_)
                left = right_
            return '(' + ' && '.join(terms) + ')', 'Bool'
        op = type(e.ops[0]).__name__
        right = e.comparators[0]
        if op in ('Is', 'IsNot') and isinstance(right, ast.Constant) and right.value is None:
            a, aty = self.expr(e.left, env, B)
            if aty == 'None':
                r = 'true'
            elif aty.startswith('Option '):
                r = f'{a}.isNone'
            else:
                if not (isinstance(e.left, ast.Name) and e.left.id in env.get('__narrowed__', ())):
                    self.assumed.append(f'line {e.lineno}: `{ast.unparse(e.left)}` of type {aty} is never None')
                r = 'false'
            if op == 'IsNot':
                r = {'true': 'false', 'false': 'true'}.get(r, f'(!{r})')
            return r, 'Bool'
        a, aty = self.expr(e.left, env, B)
        if aty == 'Kind' and op in ('In', 'NotIn') and isinstance(right, (ast.List, ast.Tuple)) and \
                all(isinstance(x, ast.Constant) and isinstance(x.value, str) for x in right.elts):
            ks = [x.value for x in right.elts if x.value in self.spec.kinds]
            dropped = [x.value for x in right.elts if x.value not in self.spec.kinds]
            if dropped:
                self.assumed.append(f'line {e.lineno}: note types {dropped} do not exist in the model (17 library types)')
            r = '([' + ', '.join(f'Kind.{k}' for k in ks) + f'] : List Kind).contains {a}'
            return (f'({r})' if op == 'In' else f'(!({r}))'), 'Bool'
        if aty == 'Kind' and op in ('Eq', 'NotEq') and isinstance(right, ast.Constant) and isinstance(right.value, str):
            if right.value in self.spec.kinds:
                return f'(decide ({a} {self.CMP[op]} Kind.{right.value}))', 'Bool'
            self.assumed.append(f'line {e.lineno}: note type {right.value!r} does not exist in the model')
            return ('false' if op == 'Eq' else 'true'), 'Bool'
        b, bty = self.expr(right, env, B)
        if op in ('In', 'NotIn'):
            if bty in getattr(self, 'dictvars', ()):
                bty = self.resolve(bty)         # SrcImport: a `{}` whose dict type is known by now
            if (aty, 'In', bty) in self.spec.binops:
                tmpl, rty = self.spec.binops[(aty, 'In', bty)]
                r, rty = self.bind(B, tmpl.format(a, b), rty)
                return (r if op == 'In' else f'(!{r})'), 'Bool'
            if aty == 'Int' and bty in LIST_TYPES + ('Set Int',):
                r = f'(Py.isIn {a} {b})'
                return (r if op == 'In' else f'(!{r})'), 'Bool'
            if aty == 'Str' and bty == 'List Str':       # exactly these type names (SrcOrn: a tag in `note.tags`)
                r = f'({b}.contains {a})'
                return (r if op == 'In' else f'(!{r})'), 'Bool'
            if bty.startswith('List ') and lean_ty(elem_ty(bty)) == lean_ty(aty) and \
                    (lean_ty(aty) == 'String' or aty in getattr(self.spec, 'eq', {})):
                # other lists of strings (SrcExt: `List String`) and lists of a type whose `__eq__` the spec binds
                r = f'(PyL.containsBy {self.eq_fun(aty)} {b} {a})'
                return (r if op == 'In' else f'(!{r})'), 'Bool'
            raise Untranslatable(f'{aty} in {bty}')
        if op not in self.CMP:
            raise Untranslatable(f'comparison {op}')
        if op in ('Eq', 'NotEq') and (aty, 'Eq', bty) in self.spec.binops:
            # `==` on a pair of types the spec binds (SrcPvl: a direction that is None or a string against a string literal)
            tmpl, rty = self.spec.binops[(aty, 'Eq', bty)]
            r, rty = self.bind(B, tmpl.format(a, b), rty)
            if rty != 'Bool':
                raise Untranslatable(f'{aty} == {bty}: bound to a {rty}')
            return (r if op == 'Eq' else f'(!{r})'), 'Bool'
        if aty == 'Int' and bty == 'Int':
            la, lb = INT_LIT.match(a), INT_LIT.match(b)
            if la and lb and self.fold_literals:      # both sides are literals (e.g. the length of a list display)
                import operator
                f = dict(Eq=operator.eq, NotEq=operator.ne, Lt=operator.lt, LtE=operator.le, Gt=operator.gt, GtE=operator.ge)[op]
                return ('true' if f(int(la.group(1)), int(lb.group(1))) else 'false'), 'Bool'
            return f'(decide ({a} {self.CMP[op]} {b}))', 'Bool'
        if 'Rat' in (aty, bty) and {aty, bty} <= {'Rat', 'Int'}:
            a = a if aty == 'Rat' else f'(({a} : Int) : Rat)'
            b = b if bty == 'Rat' else f'(({b} : Int) : Rat)'
            return f'(decide ({a} {self.CMP[op]} {b}))', 'Bool'
        if 'Float' in (aty, bty) and {aty, bty} <= {'Rat', 'Int', 'Float'} and aty != bty:
            # SrcImport: Python compares an int / a Fraction with a float exactly (`Fraction._richcmp` goes through `from_float`)
            a = f'(({a} : Int) : Rat)' if aty == 'Int' else a
            b = f'(({b} : Int) : Rat)' if bty == 'Int' else b
            return f'(decide ({a} {self.CMP[op]} {b}))', 'Bool'
        if aty == 'Float' and bty == 'Float':
            # SrcText: two floats (a value the spec types `Float` against a float literal) are compared by their exact values,
            # as IEEE comparison does on finite doubles (this pair of types raised `Untranslatable` before)
            return f'(decide ({a} {self.CMP[op]} {b}))', 'Bool'
        if aty == 'Np' and bty == 'Int':
            v = self.fresh('v')
            return f'({a}.map (fun ({v} : Int) => decide ({v} {self.CMP[op]} {b})))', 'NpBool'
        if aty == bty and aty in ('Mode', 'Str', 'Bool', 'Option Mode', 'Option Acc', 'Kind', 'Rat') and op in ('Eq', 'NotEq'):
            return f'(decide ({a} {self.CMP[op]} {b}))', 'Bool'
        if aty == bty and op in ('Eq', 'NotEq') and aty in self.spec.eq:
            # SrcEq: `a == b` on a type whose `__eq__` the spec binds (`a.__eq__(b)`: {0} = self, {1} = other); `!=` is its negation
            # (none of the bound classes defines `__ne__`)
            r = self.spec.eq[aty].format(a, b)
            return (r if op == 'Eq' else f'(!{r})'), 'Bool'
        raise Untranslatable(f'{aty} {op} {bty} at line {e.lineno}')

    def e_Subscript(self, e, env, B):
        if isinstance(e.value, ast.Name) and e.value.id not in env and e.value.id in self.spec.subscripts:
            tmpl, kty, rty = self.spec.subscripts[e.value.id]
            k, ty = self.expr(e.slice, env, B)
            if lean_ty(ty) != kty:
                raise Untranslatable(f'key of {e.value.id}: {ty}, expected {kty}')
            return self.bind(B, tmpl.format(k), rty)
        v, vty = self.expr(e.value, env, B)
        if isinstance(e.slice, ast.Slice) and e.slice.lower is None and e.slice.upper is None and e.slice.step is not None \
                and ast.unparse(e.slice.step) == '-1' and (vty, '[::-1]') in self.spec.methods:
            tmpl, rty = self.spec.methods[(vty, '[::-1]')]
            t = self.fresh('rv')
            if B is None:
                raise Untranslatable('slice inside a pure context')
            B.append((t, ('pure', tmpl.format(v))))
            self.fresh_terms.add(t)          # a slice is a new list
            return t, rty
        if vty.startswith('Dict ') and not isinstance(e.slice, ast.Slice):
            kty, valty = dict_kv(self.resolve(vty))
            k_, kty_ = self.expr(e.slice, env, B)
            if kty_ != kty:
                raise Untranslatable(f'key of {vty}: {kty_}')
            return self.bind(B, f'lookupKey {k_} {v}', 'Res ' + paren(valty))      # KeyError when absent
        if isinstance(e.slice, ast.Slice):
            s = e.slice
            if s.lower is None and s.upper is None and vty.startswith('List '):
                if s.step is None:                     # `l[:]`: a (shallow) copy; lists are values in the image
                    return v, vty
                if isinstance(s.step, ast.UnaryOp) and isinstance(s.step.op, ast.USub) and \
                        isinstance(s.step.operand, ast.Constant) and s.step.operand.value == 1:
                    return f'({v}.reverse)', vty       # `l[::-1]`
            if s.step is None and vty == 'List Int' and s.lower is not None and s.upper is not None:
                # `l[a:b]` (SrcEuclid; `Py.slice` of MV.Model.PyEuclid): both bounds normalised and clamped as CPython does
                lo, loty = self.expr(s.lower, env, B)
                hi, hity = self.expr(s.upper, env, B)
                if loty != 'Int' or hity != 'Int':
                    raise Untranslatable('slice bound')
                return f'(Py.slice {v} {lo} {hi})', 'List Int'
            if s.step is not None or not (vty == 'List Int' or (vty.startswith('List ') and '⟦' not in vty)) \
                    or (s.lower is None) == (s.upper is None):
                raise Untranslatable('slice form')
            if s.lower is not None:
                i, ity = self.expr(s.lower, env, B)
                fn = 'sliceFrom'
            else:
                i, ity = self.expr(s.upper, env, B)
                fn = 'sliceTo'
            if ity != 'Int':
                raise Untranslatable('slice bound')
            return f'(Py.{fn} {v} {i})', vty          # `List Int`; SrcPvl: one-sided slices of any list (`self.chords[1:]`)
        if vty.startswith(ASSOC):                      # `d[k]`: KeyError when absent (SrcExt)
            kv = split_prod(elem_ty(self.resolve(vty)))
            k_, kty_ = self.expr(e.slice, env, B)
            if len(kv) != 2 or lean_ty(kty_) != lean_ty(kv[0]):
                raise Untranslatable(f'key of {vty}: {kty_}')
            return self.bind(B, f'PyL.dictGet {self.eq_fun(kv[0])} {v} {k_}', 'Res ' + paren(kv[1]))
        if vty in self.spec.index_methods:
            tmpl, kty, rty = self.spec.index_methods[vty]
            k_, kty_ = self.expr(e.slice, env, B)
            if lean_ty(kty_) != lean_ty(kty):
                raise Untranslatable(f'key of {vty}: {kty_}')
            return self.bind(B, tmpl.format(v, k_), rty)
        if isinstance(e.slice, ast.Constant) and (vty, e.slice.value) in self.spec.tuple_fields:
            tmpl, rty = self.spec.tuple_fields[(vty, e.slice.value)]
            return tmpl.format(v), rty
        i, ity = self.expr(e.slice, env, B)
        if is_list(vty) and (ity == 'Int' or ity in self.spec.int_types):
            et = elem_ty(vty)
            return self.bind(B, f'pyIndex {v} {i}', 'Res ' + paren(et))
        if vty == 'Np' and ity == 'NpBool':
            return f'(Py.npMask {v} {i})', 'Np'
        raise Untranslatable(f'{vty}[{ity}] at line {e.lineno}')

    def e_Attribute(self, e, env, B):
        v, vty = self.expr(e.value, env, B)
        if '⟦' in vty:
            vty = self.resolve(vty)         # SrcImport: an item of a list that was empty when it was created (`xs = []` … `xs[-1].attr`)
            if vty in self.tyvars and self.tyvars[vty] is None and vty not in getattr(self, 'dictvars', ()):
                # nothing was appended yet on this path: the only record type with this attribute (a wrong choice cannot
                # survive: the first `append` unifies the item type again)
                owners = sorted({t_ for (t_, a_) in list(self.spec.attrs) + list(self.spec.funs_by_attr) if a_ == e.attr})
                if len(owners) == 1:
                    self.tyvars[vty] = owners[0]
                    vty = owners[0]
        if vty.startswith('Option ') and not isinstance(e.value, ast.Name):
            # an attribute of a value that may be None: `None.attr` raises AttributeError
            inner = vty[7:].strip()
            inner = inner[1:-1] if inner.startswith('(') and inner.endswith(')') else inner
            if (inner, e.attr) in self.spec.attrs or (inner, e.attr) in self.spec.funs_by_attr:
                v, vty = self.bind(B, f'(match {v} with | some o => pure o | none => throw Err.attr)', f'Res {paren(inner)}')
        key = (vty, e.attr)
        if (vty, e.attr) in self.spec.funs_by_attr:        # a translated property wins over a binding to the model
            return self.call_fun(self.spec.funs_by_attr[(vty, e.attr)], [(v, vty)], B)
        if key in self.spec.attrs:
            tmpl, rty = self.spec.attrs[key]
            return self.bind(B, tmpl.format(v), rty)
        raise Untranslatable(f'attribute {vty}.{e.attr} at line {e.lineno}')

    def check_owned(self, pyname, call, arg_asts, env):
        """a callee that stores into / mutates a parameter (`owned` in its spec entry) may only be given an object no other
        name refers to (a fresh local, named once in the call), in one of two forms after which the caller cannot observe the
        mutation:
          (a) `x = f(x, …)`, the call being the whole right-hand side: a functional update, the name is rebound to the result
              (SrcOrn: `new_note = accent(new_note, …)` after `new_note = note.copy()`);
          (b) `return f(…, x, …)`, the call being the function's final expression (SrcExt: `return self._chord_notes_calc(…)`);
          (c) `a, x = f(…, x, …)` (a tuple assignment), `x` a local name with no second reference that is re-bound before it is
              next read (SrcConv: `new_chord, last_pitch = chord.to_absolute_note(last_pitch=last_pitch, …)`): `check_owned_call`."""
        f = self.spec.funs[pyname]
        names = [p[0] for p in f['params']]
        for p_, attr_ in f.get('item_stores', ()):
            # SrcImport: the callee stores into attribute `attr_` of the items of the list it is given: the caller must not read that
            # attribute anywhere (then it cannot tell the difference); what its own callers see is printed as an assumption
            for st_ in getattr(self, 'fun_body', []):
                for nd in ast.walk(st_):
                    if isinstance(nd, ast.Attribute) and nd.attr == attr_:
                        raise Untranslatable(f'{pyname} stores into `.{attr_}` of the items of `{p_}`; the caller reads `.{attr_}` at line {nd.lineno}')
            note = (f'`{pyname}` stores into `.{attr_}` of the items it is given (`{p_}`): this function never reads `.{attr_}`; the items '
                    f'are distinct objects and callers do not rely on their `.{attr_}` afterwards')
            if note not in self.assumed:
                self.assumed.append(note)
        if id(call) in getattr(self, '_owned_ok', ()):
            return            # form (c), approved by `check_owned_call` at the statement
        for p in f.get('owned', ()):
            a = arg_asts[names.index(p)] if names.index(p) < len(arg_asts) else None
            ok = isinstance(a, ast.Name) and ident(a.id) in self.fresh_vars(env) and \
                sum(1 for nd in ast.walk(call) if isinstance(nd, ast.Name) and nd.id == a.id) == 1
            if not (ok and ((self.cur_target == a.id and self.cur_value is call) or self.ret_expr is call)):
                raise Untranslatable(f'{pyname} stores into its argument `{p}`: at line {call.lineno} it must be a fresh local '
                                     f'passed once, in `x = {pyname}(x, …)` or in `return {pyname}(…)`')

    def call_fun(self, pyname, args, B):
        f = self.spec.funs[pyname]
        if f.get('fuel') and not self.has_fuel:
            raise Untranslatable(f'{pyname} recurses; the caller needs the entry key `fuel`')
        if len(args) < len(f['params']) and all(pn in f.get('defaults', {}) for pn, _ in f['params'][len(args):]):
            args = list(args) + [f['defaults'][pn] for pn, _ in f['params'][len(args):]]     # the defaults of the `def`
        if len(args) != len(f['params']):
            raise Untranslatable(f'arity of {pyname}')
        args = [(self.coerce(t, ty, pty, f'argument {pn} of {pyname}'), pty) for (t, ty), (pn, pty) in zip(args, f['params'])]
        fuel = ''
        if f.get('fuel'):
            # the caller passes its own bound on; its name follows the first function it reaches (`rec_fuel` for the local
            # recursions of SrcDurOps, `fuel` for the `recursive` entries of SrcConv) unless its own entry already fixed it
            if self.fuel_name is None:
                self.fuel_name = f['fuel'] if isinstance(f['fuel'], str) else 'rec_fuel'
            fuel = self.fuel_name + ' '
        term = f'{f["lean"]} ' + fuel + ' '.join(a[0] if a[0].startswith('(') or a[0].isidentifier() else f'({a[0]})' for a in args)
        if f['pure']:
            return f'({term})', f['ret']
        return self.bind(B, term, 'Res ' + f['ret'])

    def sorted_by_key(self, e, env, B):
        """`sorted(l, key=lambda x: k)` with `k` an int or an Optional[int]: the keys are computed first, in list order (an
        exception aborts); two or more elements with a `None` key make the comparison raise TypeError; stable otherwise"""
        lam = e.keywords[0].value
        if not isinstance(lam, ast.Lambda) or len(lam.args.args) != 1 or lam.args.defaults or lam.args.vararg \
                or lam.args.kwarg or lam.args.kwonlyargs or lam.args.posonlyargs:
            raise Untranslatable('sort key that is not a one-argument lambda')
        l, lty = self.expr(e.args[0], env, B)
        if not lty.startswith('List '):
            raise Untranslatable(f'sorted({lty}, key=…)')
        et = elem_ty(lty)
        x = lam.args.args[0].arg
        Bk = []
        k, kty = self.expr(lam.body, {**env, x: et}, Bk)
        if any(isinstance(m, tuple) for _, m in Bk):
            raise Untranslatable('copy inside a sort key')
        if kty == 'Int':
            k = f'(some {k})'
        elif kty != 'Option Int':
            raise Untranslatable(f'sort key of type {kty}')
        body = ' '.join(f'let {n} ← {m};' for n, m in Bk) + f' pure {k}'
        return self.bind(B, f'PyL.sortedByOptKey (fun ({ident(x)} : {lean_ty(et)}) => do {body}) {l}', 'Res ' + paren(lty))

    def owned_callee(self, call, env):
        """the translated function a call node refers to, if it owns (mutates and returns) one of its parameters"""
        fn = call.func
        f = None
        if isinstance(fn, ast.Name) and fn.id in self.spec.funs:
            f = self.spec.funs[fn.id]
        elif isinstance(fn, ast.Attribute) and any(attr_ == fn.attr and self.spec.funs[name_].get('owned')
                                                   for (ty_, attr_), name_ in self.spec.funs_by_attr.items()):
            saved_n, saved_fresh = self.n, set(self.fresh_terms)
            try:
                _, vty = self.expr(fn.value, env, [])          # only the receiver's type is needed
            except Untranslatable:
                vty = None
            self.n, self.fresh_terms = saved_n, saved_fresh
            if (vty, fn.attr) in self.spec.funs_by_attr:
                f = self.spec.funs[self.spec.funs_by_attr[(vty, fn.attr)]]
        return f if f is not None and f.get('owned') else None

    def check_owned_call(self, stmt, rest, env):
        """A callee that stores into a dict it was given (and returns it) is translated with value semantics; that is
        only faithful when the caller never looks at its own reference again: the argument must be a local name that
        is re-bound before it is next read (inside a loop: re-bound in the same iteration)."""
        for call in [x for x in ast.walk(stmt) if isinstance(x, ast.Call)]:
            f = self.owned_callee(call, env)
            if f is None:
                continue
            names = [p[0] for p in f['params']]
            off = 1 if isinstance(call.func, ast.Attribute) else 0
            given = {names[off + i]: a for i, a in enumerate(call.args) if off + i < len(names)}
            given.update({k.arg: k.value for k in call.keywords if k.arg})
            for pn in f['owned']:
                a = given.get(pn)
                if a is None:
                    continue                       # default value: a new object
                if not isinstance(a, ast.Name):
                    raise Untranslatable(f'argument {pn} (mutated by the callee) is not a local name at line {stmt.lineno}')
                tnames = [x.id for t_ in getattr(stmt, 'targets', []) for x in ast.walk(t_) if isinstance(x, ast.Name) and isinstance(x.ctx, ast.Store)]
                if ident(a.id) in self.fresh_vars(env) and (a.id in tnames or "'" in a.id) \
                        and sum(1 for nd in ast.walk(stmt) if isinstance(nd, ast.Name) and nd.id == a.id and isinstance(nd.ctx, ast.Load)) == 1:
                    # SrcImport, form (d): `…, x = f(…, x, …)` with `x` an object no other name refers to (fresh at the call, e.g. just
                    # popped from a dict) that this very statement re-binds, or a hidden temporary that is never read again: after
                    # the statement nothing can reach the object the callee changed except through the callee's result
                    continue
                # no second reference to the object: the name is never used as a bare value (assigned to another name,
                # stored, returned, passed on) anywhere in the function, only read through (`x.get(k)`, `x[k]`) or given to the callee
                for node in [n_ for st_ in getattr(self, 'fun_body', []) for n_ in ast.walk(st_)]:
                    for ch in ast.iter_child_nodes(node):
                        if isinstance(ch, ast.Name) and ch.id == a.id and isinstance(ch.ctx, ast.Load) and ch is not a:
                            through = (isinstance(node, ast.Attribute) or (isinstance(node, ast.Subscript) and node.value is ch))
                            if not through:
                                raise Untranslatable(f'`{a.id}` (mutated by a callee) may have a second reference, line {ch.lineno}')
                rebound = False
                for st_ in rest:
                    reads = any(isinstance(x, ast.Name) and x.id == a.id and isinstance(x.ctx, ast.Load) for x in ast.walk(st_))
                    if isinstance(st_, ast.Assign) and len(st_.targets) == 1 and isinstance(st_.targets[0], ast.Name) \
                            and st_.targets[0].id == a.id and not reads:
                        rebound = True
                        break
                    if reads or any(isinstance(x, ast.Name) and x.id == a.id for x in ast.walk(st_)):
                        raise Untranslatable(f'`{a.id}` is used after the callee mutated it, at line {st_.lineno}')
                if not rebound:
                    raise Untranslatable(f'`{a.id}` (mutated by the callee) is not re-bound after the call at line {stmt.lineno}')
            self._owned_ok = getattr(self, '_owned_ok', set()) | {id(call)}

    def kw_args(self, f, pn, kw, env, B, what):
        """keyword arguments for the remaining parameters `pn` of a translated function, in the order written
        (Python evaluates them in call order); parameters left out take their declared default"""
        dflt = f.get('defaults', {})
        for k_ in [k_ for k_ in kw if k_ in f.get('fixed', {})]:
            # the callee was translated for this value of the parameter only
            t_, _ = self.expr(kw[k_], env, None)
            if t_ != f['fixed'][k_]:
                raise Untranslatable(f'{what} is translated for {k_}={f["fixed"][k_]} only')
            kw = {a_: b_ for a_, b_ in kw.items() if a_ != k_}
        if not (set(kw) <= set(pn) and all(p in kw or p in dflt for p in pn)):
            raise Untranslatable(f'keyword arguments of {what}')
        vals = {k: self.expr(v, env, B) for k, v in kw.items()}
        return [vals[p] if p in vals else dflt[p] for p in pn]

    def object_call(self, vty, sig):
        """what the spec binds for `obj(args, **d)` on an object of type `vty` -> (template over {0}=object,{1}.., result type,
        keyword names that are dropped).  The three forks spelt the binding in three ways, all read here:
        `spec.callables[(type, (positional types…, '**T'))]` (SrcDurOps), `spec.kwcalls[(type, T)]` for `f(**d)` (SrcBetween),
        `spec.call_objects[type] = (template, T, result type, dropped)` for `obj(**d, dropped=…)` (SrcConv)"""
        if (vty, sig) in self.spec.callables:
            return self.spec.callables[(vty, sig)]
        if len(sig) == 1 and sig[0].startswith('**'):
            if (vty, sig[0][2:]) in self.spec.kwcalls:
                return self.spec.kwcalls[(vty, sig[0][2:])] + ((),)
            if vty in self.spec.call_objects and self.spec.call_objects[vty][1] == sig[0][2:]:
                tmpl, _, rty, dropped = self.spec.call_objects[vty]
                return tmpl, rty, dropped
        return None

    def kwrecord_call(self, e, env, B):
        """SrcMask: a call that passes a `**kwargs` record on, `callee(args, k1=v1, …, **kwargs)`, where `kwargs` is a local of a
        record type the spec declares (`spec.kwrecords[T] = dict(fields={keyword: (Lean field, 'Option X')}, distinct=template)`).
        Python evaluates the callee, the positional arguments, then the keyword values in the order written; a keyword given
        explicitly that is also a key of the dict is a TypeError (`distinct`, checked on the record's fields: a key that is
        present with the value None cannot be told from an absent one).  Keywords that are not fields of the record are
        parameters of the callee and belong to the binding's signature (`name=Type`).  The callee is
          * a method bound in `spec.kwmethods[(type, method, positional types…, 'name=Type'…, '**T')]`,
          * or an object — a local name, an attribute bound in `spec.attrs`, a constant subscript — whose call the spec binds in
            `spec.callables[(type, (positional types…, 'name=Type'…, '**T'))]`.
        Arguments are coerced to the declared types (an exact match of the argument types wins).  None when the call has no
        such `**` argument."""
        stars = [kw for kw in e.keywords if kw.arg is None]
        if len(stars) != 1 or not isinstance(stars[0].value, ast.Name) or env.get(stars[0].value.id) not in self.spec.kwrecords:
            return None
        rty = env[stars[0].value.id]
        R = self.spec.kwrecords[rty]
        fn = e.func
        if B is None:
            raise Untranslatable(f'call with **{stars[0].value.id} inside a pure context')
        method = None
        if isinstance(fn, ast.Attribute):
            v, vty = self.expr(fn.value, env, B)
            if any(k_[0] == vty and k_[1] == fn.attr for k_ in self.spec.kwmethods):
                method = fn.attr
            elif (vty, fn.attr) in self.spec.attrs:
                tmpl, aty = self.spec.attrs[(vty, fn.attr)]
                v, vty = self.bind(B, tmpl.format(v), aty)          # a callable attribute: `self.other(…)`
            else:
                raise Untranslatable(f'method {vty}.{fn.attr} with **{stars[0].value.id} at line {e.lineno}')
        else:
            v, vty = self.expr(fn, env, B)
        args = [self.expr(a, env, B) for a in e.args]
        extra, updates, d = [], [], None
        for kw in e.keywords:
            t, ty = self.expr(kw.value, env, B)
            if kw.arg is None:
                d = t
            elif kw.arg in R['fields']:
                updates.append((kw.arg, t, ty))
            else:
                extra.append((kw.arg, t, ty))
        if updates:
            B.append((self.fresh(), R['distinct'].format(', '.join(f'{d}.{R["fields"][k_][0]}.isSome' for k_, _, _ in updates))))
            d = '{ ' + d + ' with ' + ', '.join(f'{R["fields"][k_][0]} := {self.coerce(t_, ty_, R["fields"][k_][1], "keyword " + k_)}'
                                                for k_, t_, ty_ in updates) + ' }'
        given = list(args) + [(t_, ty_) for _, t_, ty_ in extra]
        names = [None] * len(args) + [k_ for k_, _, _ in extra]
        if method is not None:
            cands = [(k_[2:], b_) for k_, b_ in self.spec.kwmethods.items() if k_[0] == vty and k_[1] == method]
        else:
            cands = [(k_[1], b_[:2]) for k_, b_ in self.spec.callables.items() if k_[0] == vty]
        cands = [(sig, b_) for sig, b_ in cands if len(sig) == len(given) + 1 and sig[-1] == '**' + rty
                 and all((n_ is None and '=' not in s_) or (n_ is not None and s_.startswith(n_ + '=')) for n_, s_ in zip(names, sig))]
        want = lambda s_: s_.split('=', 1)[1] if '=' in s_ else s_
        cands.sort(key=lambda c_: [want(s_) != ty_ for s_, (_, ty_) in zip(c_[0], given)])       # exact matches first (stable)
        for sig, (tmpl, res) in cands:
            try:
                ts = [self.coerce(t_, ty_, want(s_), f'argument of {ast.unparse(fn)}') for s_, (t_, ty_) in zip(sig, given)]
            except Untranslatable:
                continue
            return self.bind(B, tmpl.format(v, *[paren(t_) for t_ in ts], paren(d) if d.startswith('{') else d), res)
        raise Untranslatable(f'call of {ast.unparse(fn)} ({vty}) on {[ty_ for _, ty_ in given]} with **{rty} at line {e.lineno}')

    def e_Call(self, e, env, B):
        fn = e.func
        if self.spec.kwrecords:
            r = self.kwrecord_call(e, env, B)
            if r is not None:
                return r
        if isinstance(fn, ast.Attribute) and fn.attr == '__class__' and isinstance(fn.value, ast.Name) \
                and env.get(fn.value.id) in self.spec.class_ctor:
            # SrcMask: `self.__class__(…)` builds an instance of the declared class of `self`
            self.assumed.append(f'line {e.lineno}: `{fn.value.id}.__class__` is the declared class {env[fn.value.id]} (not a subclass)')
            return self.ctor(self.spec.class_ctor[env[fn.value.id]], e, env, B)
        pre = None
        if isinstance(fn, ast.Call) and self.spec.call_objects and not e.args and len(e.keywords) == 1 and e.keywords[0].arg is None:
            # SrcImport: `f(…)(**d)`: the callee is evaluated first; it must be an object whose `__call__` the spec binds
            pre = self.expr(fn, env, B)
            if pre[1] not in self.spec.call_objects:
                raise Untranslatable('call form')
        if pre is not None or (isinstance(fn, ast.Name) and fn.id in env and (env[fn.id] in self.spec.call_objects or any(
                k_[0] == env[fn.id] for k_ in list(self.spec.callables) + list(self.spec.kwcalls)))):
            # `obj(args, **d, kw=…)` on an object whose `__call__` the spec binds
            v, vty = pre if pre is not None else self.expr(fn, env, B)
            args = [self.expr(a, env, B) for a in e.args]
            stars = [kw for kw in e.keywords if kw.arg is None]
            if len(stars) > 1:
                raise Untranslatable('several ** arguments')
            sig = tuple(a[1] for a in args)
            if stars:
                d, dty = self.expr(stars[0].value, env, B)
                if vty in self.spec.call_objects and not args:
                    dty = self.as_dict_type(dty, want=self.spec.call_objects[vty][1]) or dty     # a `{}` nothing was stored into yet
                if (vty, sig + ('**' + dty,)) not in self.spec.callables:
                    dty = self.resolve(dty)
                args.append((d, dty))
                sig += ('**' + dty,)
            bound = self.object_call(vty, sig)
            if bound is None:
                raise Untranslatable(f'call of a {vty} on {sig} at line {e.lineno}')
            tmpl, rty, dropped = bound
            for kw in e.keywords:
                if kw.arg is not None and kw.arg not in dropped:
                    raise Untranslatable(f'call of a {vty}: keyword {kw.arg}')
            return self.bind(B, tmpl.format(v, *[a[0] for a in args]), rty)
        if isinstance(fn, ast.Name) and fn.id == 'sorted' and 'sorted' not in env and len(e.args) == 1 \
                and len(e.keywords) == 1 and e.keywords[0].arg == 'key':
            return self.sorted_by_key(e, env, B)
        if e.keywords and not (isinstance(fn, ast.Name) and (fn.id in self.spec.ctors or fn.id in self.spec.funs)) \
                and not isinstance(fn, ast.Attribute):
            raise Untranslatable('keyword arguments')
        if isinstance(fn, ast.Name):
            n = fn.id
            if n in self.spec.builtins and n not in env and not e.keywords:
                # a built-in the group's spec binds per argument types (SrcBetween: `int`, `dict`); it wins over the readings below
                args = [self.expr(a, env, B) for a in e.args]
                sig = tuple(self.resolve(a[1]) if a[1] in getattr(self, 'dictvars', ()) else a[1] for a in args)
                if sig not in self.spec.builtins[n]:
                    raise Untranslatable(f'{n}{sig} at line {e.lineno}')
                tmpl, rty = self.spec.builtins[n][sig]
                return self.bind(B, tmpl.format(*[a[0] for a in args]), rty)
            if n in ('list',) and len(e.args) == 1:
                t, ty = self.expr(e.args[0], env, B)
                if not is_list(ty):
                    raise Untranslatable(f'list({ty})')
                return t, ('List Int' if ty == 'Np' else ty)
            if n == 'sorted' and len(e.args) == 1:
                a = e.args[0]
                if isinstance(a, ast.Call) and isinstance(a.func, ast.Name) and a.func.id == 'set' and len(a.args) == 1:
                    t, ty = self.expr(a.args[0], env, B)
                    if ty not in LIST_TYPES:
                        raise Untranslatable('set of non-int-list')
                    return f'(sortedDedup {t})', 'List Int'
                t, ty = self.expr(a, env, B)
                if lean_ty(ty) == 'List String':
                    return f'(sortStrs {t})', 'List String'      # code-point order, as Python compares str
                if ty not in LIST_TYPES:
                    raise Untranslatable(f'sorted({ty})')
                return f'(sortInts {t})', 'List Int'
            if n in ('frozenset', 'set') and len(e.args) == 1:
                t, ty = self.expr(e.args[0], env, B)
                if ty not in LIST_TYPES + ('Set Int',):
                    raise Untranslatable(f'{n}({ty})')
                return t, 'Set Int'
            if n == 'len' and len(e.args) == 1:
                t, ty = self.expr(e.args[0], env, B)
                if not is_list(ty):
                    raise Untranslatable(f'len({ty})')
                if self.fold_literals and display_len(t) is not None:
                    return ilit(display_len(t)), 'Int'
                return f'(Py.len {t})', 'Int'
            if n == 'sum' and len(e.args) == 2 and isinstance(e.args[1], ast.Constant) and e.args[1].value is None:
                # `sum(xs, None)`: `None + x0` (the reflected `x0.__radd__(None)`), then `acc + x` from the left;
                # the result is None for an empty list
                t, ty = self.expr(e.args[0], env, B)
                if not is_list(ty) or ty == 'Np':
                    raise Untranslatable(f'sum({ty}, None)')
                ety = elem_ty(ty)
                x0, x, acc, xs = self.fresh('x'), self.fresh('x'), self.fresh('acc'), self.fresh('xs')
                B0, B1 = [], []
                r0, aty = self.binop_u('()', 'None', x0, ety, 'Add', e, B0)
                r1, aty1 = self.binop_u(acc, aty, x, ety, 'Add', e, B1)
                if B0 or B1 or lean_ty(aty1).replace('Melody', 'List Note') != lean_ty(aty).replace('Melody', 'List Note'):
                    raise Untranslatable(f'sum({ty}, None): accumulator {aty} / {aty1} at line {e.lineno}')
                return (f'(match {t} with | [] => none | {x0} :: {xs} => some ({xs}.foldl '
                        f'(fun ({acc} : {lean_ty(aty)}) ({x} : {lean_ty(ety)}) => {r1}) {r0}))'), f'Option {aty}'
            if n == 'sum' and len(e.args) == 2 and isinstance(e.args[1], ast.List) and not e.args[1].elts and 'sum' not in env:
                # `sum(xss, [])` on a list of lists (SrcMidiUtil): `[] + xs0 + xs1 + …`, the concatenation
                t, ty = self.expr(e.args[0], env, B)
                if not (ty.startswith('List ') and elem_ty(ty).startswith('List ')):
                    raise Untranslatable(f'sum({ty}, [])')
                return f'({t}.flatten)', elem_ty(ty)
            if n in ('sum', 'max') and len(e.args) == 1:
                t, ty = self.expr(e.args[0], env, B)
                if not is_list(ty) or elem_ty(ty) not in ('Rat', 'Int'):
                    raise Untranslatable(f'{n}({ty})')
                et = elem_ty(ty)
                if n == 'sum':
                    # Python's sum starts from the int 0; as a Fraction that is the same number
                    return (f'(sumRat {t})' if et == 'Rat' else f'(Py.sum {t})'), et
                return self.bind(B, (f'Py.maxRat {t}' if et == 'Rat' else f'Py.maxInt {t}'), f'Res {et}')
            if n in ('all', 'any') and n not in env and len(e.args) == 1 and not e.keywords:
                # SrcMask: `all(xs)` / `any(xs)` on a list of bools, a list comprehension (evaluated completely first) or a
                # generator expression (lazy: admitted only when its elements cannot raise, then the short-circuit is unobservable)
                a = e.args[0]
                lazy = isinstance(a, ast.GeneratorExp)
                if lazy:
                    a = ast.ListComp(elt=a.elt, generators=a.generators)
                    ast.copy_location(a, e.args[0])
                Bl = []
                t, ty = self.expr(a, env, Bl)
                if lazy and any(not isinstance(m_, tuple) and ('.mapM (' in m_ or '.filterM (' in m_) for _, m_ in Bl):
                    raise Untranslatable(f'{n}(generator) whose elements can raise, at line {e.lineno}')
                if Bl and B is None:
                    raise Untranslatable(f'{n}(…) that can raise inside a pure context')
                if Bl:
                    B.extend(Bl)
                if lean_ty(ty) != 'List Bool':
                    raise Untranslatable(f'{n}({ty})')
                return f'({t}.{n} (fun b => b))', 'Bool'
            if n == 'abs' and len(e.args) == 1:
                t, ty = self.expr(e.args[0], env, B)
                if ty != 'Int':
                    raise Untranslatable('abs of non-int')
                return f'(Py.abs {t})', 'Int'
            if n == 'range' and len(e.args) == 3:
                xs = [self.expr(a, env, B) for a in e.args]
                if any(x[1] != 'Int' for x in xs):
                    raise Untranslatable('range of non-int')
                return self.bind(B, f'Py.rangeStep {xs[0][0]} {xs[1][0]} {xs[2][0]}', 'Res (List Int)')   # ValueError on step 0
            if n == 'range' and len(e.args) in (1, 2):
                xs = [self.expr(a, env, B) for a in e.args]
                if any(x[1] != 'Int' for x in xs):
                    raise Untranslatable('range of non-int')
                lo, hi = (ilit(0), xs[0][0]) if len(xs) == 1 else (xs[0][0], xs[1][0])
                return f'(Py.range {lo} {hi})', 'List Int'
            if n == 'isinstance' and len(e.args) == 2:
                t, ty = self.expr(e.args[0], env, B)
                cls = ast.unparse(e.args[1])
                if ty in self.spec.sums and cls in self.spec.sums[ty] and self.spec.sums[ty][cls][0].count('{0}') == 1:
                    # SrcMask: as a value, `isinstance(x, C)` on a declared sum type is a `match` on the constructor of C
                    return f'(match {t} with | {self.spec.sums[ty][cls][0].format("_")} => true | _ => false)', 'Bool'
                if (ty, cls) in self.spec.not_in_sum:
                    # SrcMask: a class the spec declares disjoint from every alternative of the sum (`isinstance(element, list)`)
                    self.assumed.append(f'line {e.lineno}: isinstance({ast.unparse(e.args[0])}, {cls}) is False on the declared sum type {ty}')
                    return 'false', 'Bool'
                if ty in self.spec.sums:
                    # decided at run time; admitted only as the test of an `if` (see `block`), where it becomes a `match`
                    raise Untranslatable(f'isinstance on the sum type {ty} outside the test of an if, at line {e.lineno}')
                self.assumed.append(f'line {e.lineno}: isinstance({ast.unparse(e.args[0])}, {cls}) with declared type {ty}')
                if ty in UNIONS:
                    raise Untranslatable(f'isinstance on a value of type {ty} at line {e.lineno}')
                if cls in PYCLASSES:
                    return ('true' if ty in PYCLASSES[cls] else 'false'), 'Bool'
                return ('true' if ty == cls else 'false'), 'Bool'
            if n in self.spec.fraction_ctors and len(e.args) in (1, 2) and not e.keywords:
                # Fraction(a) / Fraction(a, b) on ints and fractions: a / b, ZeroDivisionError on b = 0
                lits = [a.value if isinstance(a, ast.Constant) and isinstance(a.value, int) and not isinstance(a.value, bool)
                        else None for a in e.args]
                if len(lits) == 2 and None not in lits and lits[1] != 0:
                    return f'(({lits[0]} : Rat) / ({lits[1]} : Rat))', 'Rat'
                xs = [self.expr(a, env, B) for a in e.args]
                if any(x[1] not in ('Int', 'Rat') for x in xs):
                    raise Untranslatable(f'{n}({", ".join(x[1] for x in xs)})')
                xs = [x[0] if x[1] == 'Rat' else f'(({x[0]} : Int) : Rat)' for x in xs]
                if len(xs) == 1:
                    return xs[0], 'Rat'
                return self.bind(B, f'Py.fracDiv {xs[0]} {xs[1]}', 'Res Rat')
            if n == 'int' and len(e.args) == 1 and not e.keywords:
                t, ty = self.expr(e.args[0], env, B)
                if ty == 'Int':
                    return t, 'Int'
                if ty == 'Rat':
                    return f'(Py.intOfFrac {t})', 'Int'          # truncation towards zero
                if ty == 'IntQuot':
                    self.assumed.append(f'line {e.lineno}: int(a / b) on ints is read as the truncated exact quotient '
                                        f'(the float quotient is exact enough for |a| < 2**40)')
                    return f'(Py.intOfQuot {t})', 'Int'
                raise Untranslatable(f'int({ty})')
            if n == 'min' and len(e.args) == 2 and not e.keywords:
                (a, aty), (b, bty) = [self.expr(x, env, B) for x in e.args]
                if not {aty, bty} <= {'Int', 'Rat'}:
                    raise Untranslatable(f'min({aty}, {bty})')
                rty = 'Int' if aty == bty == 'Int' else 'Rat'
                if rty == 'Rat':
                    a = a if aty == 'Rat' else f'(({a} : Int) : Rat)'
                    b = b if bty == 'Rat' else f'(({b} : Int) : Rat)'
                return f'(if {b} < {a} then {b} else {a})', rty     # the first argument unless the second is smaller
            if n in self.spec.ctors:
                return self.ctor(n, e, env, B)
            if n in self.spec.funs:
                self.check_owned(n, e, list(e.args), env)
                clo = list(self.spec.funs[n].get('closure_params', ()))      # a lifted local function: the variables it closes over first
                if any(env.get(c_) != t_ for c_, t_ in clo):
                    raise Untranslatable(f'call of {n}: closure variables {[c_ for c_, _ in clo]}')
                args = [(ident(c_), t_) for c_, t_ in clo] + [self.expr(a, env, B) for a in e.args]
                if e.keywords:
                    pn = [p[0] for p in self.spec.funs[n]['params']][len(args):]
                    kw = {k.arg: k.value for k in e.keywords}
                    args += self.kw_args(self.spec.funs[n], pn, kw, env, B, n)
                return self.call_fun(n, args, B)
            if n not in env and not e.keywords and any(k[0] == n for k in self.spec.calls):
                args = [self.expr(a, env, B) for a in e.args]
                key = (n, tuple(a[1] for a in args))
                if key not in self.spec.calls:
                    raise Untranslatable(f'call of {n} on {key[1]} at line {e.lineno}')
                tmpl, rty = self.spec.calls[key]
                return self.bind(B, tmpl.format(*[a[0] for a in args]), rty)
            raise Untranslatable(f'call of {n}')
        if isinstance(fn, ast.Attribute):
            if isinstance(fn.value, ast.Name) and fn.value.id == 'np' and 'np' not in env and ('np.' + fn.attr) in self.spec.builtins \
                    and not e.keywords:
                # a numpy function the group's spec binds per argument types (SrcPvl: `np.asarray` of a list of rows)
                args = [self.expr(a, env, B) for a in e.args]
                sig = tuple(a[1] for a in args)
                if sig not in self.spec.builtins['np.' + fn.attr]:
                    raise Untranslatable(f'np.{fn.attr}{sig} at line {e.lineno}')
                tmpl, rty = self.spec.builtins['np.' + fn.attr][sig]
                return self.bind(B, tmpl.format(*[a[0] for a in args]), rty)
            if isinstance(fn.value, ast.Name) and fn.value.id == 'np' and fn.attr in ('asarray', 'array') and len(e.args) == 1:
                t, ty = self.expr(e.args[0], env, B)
                if ty not in LIST_TYPES:
                    raise Untranslatable('np.asarray of non-int-list')
                return t, 'Np'
            v, vty = self.expr(fn.value, env, B)
            if '⟦' in vty and not vty.startswith('List ') and vty not in getattr(self, 'dictvars', ()):
                vty = self.resolve(vty)          # SrcImport: an item of a list that was empty when it was created, as in `e_Attribute`
                if vty in self.tyvars and self.tyvars[vty] is None:
                    owners = sorted({t_ for (t_, a_) in list(self.spec.methods) + list(self.spec.funs_by_attr) if a_ == fn.attr})
                    if len(owners) == 1:
                        self.tyvars[vty] = owners[0]
                        vty = owners[0]
            if vty.startswith('Option ') and self.spec.option_unwrap and (vty, fn.attr) not in self.spec.methods \
                    and (vty, fn.attr) not in self.spec.funs_by_attr:
                v, vty = self.bind(B, self.spec.option_unwrap.format(v), 'Res ' + vty[7:].strip())   # None.attr raises
            if vty.startswith('Dict ') and fn.attr == 'keys' and not e.args and not e.keywords:
                return f'({v}.map (fun p => p.1))', f'List {dict_kv(vty)[0]}'
            if fn.attr == 'copy' and vty in self.spec.value_types and not e.args:
                if B is None:
                    raise Untranslatable('copy inside a pure context')
                t = self.fresh('cp')
                self.fresh_terms.add(t)
                B.append((t, ('pure', (self.copy_template.get(vty) or self.spec.copy_template.get(vty, '{0}')).format(v))))
                return t, vty
            if fn.attr == 'index' and vty in LIST_TYPES and len(e.args) == 1:
                x, xty = self.expr(e.args[0], env, B)
                if xty != 'Int':
                    raise Untranslatable('list.index of non-int')
                return self.bind(B, f'Py.index {v} {x}', 'Res Int')
            if fn.attr == 'index' and is_list(vty) and elem_ty(vty) in self.spec.eq_index and len(e.args) == 1 and not e.keywords:
                x, xty = self.expr(e.args[0], env, B)
                if xty != elem_ty(vty):
                    raise Untranslatable(f'list.index of {xty} in {vty}')
                return self.bind(B, self.spec.eq_index[elem_ty(vty)].format(v, x), 'Res Int')
            if fn.attr == 'index' and vty.startswith('List ') and vty not in LIST_TYPES and len(e.args) == 1 \
                    and not e.keywords and (vty, 'index') not in self.spec.methods:
                x, xty = self.expr(e.args[0], env, B)
                if lean_ty(xty) != lean_ty(elem_ty(vty)):
                    raise Untranslatable(f'{vty}.index({xty})')
                return self.bind(B, f'PyL.indexBy {self.eq_fun(xty)} {v} {x}', 'Res Int')
            if fn.attr == 'keys' and vty.startswith(ASSOC) and not e.args and not e.keywords:
                kv = split_prod(elem_ty(self.resolve(vty)))
                if len(kv) != 2:
                    raise Untranslatable(f'keys of {vty}')
                return f'({v}.map (fun p => p.1))', f'List {paren(kv[0])}'
            args = [self.expr(a, env, B) for a in e.args]
            if vty in getattr(self, 'dictvars', ()) and self.tyvars.get(vty) is None and args:
                # SrcImport: a method of a `{}` nothing was stored into yet (`d.get(k, 0)`): the declared dict type that binds
                # this method for these key / default types, if there is exactly one
                cands = [d for d, D in self.spec.dict_types.items() if (d, fn.attr) in self.spec.methods
                         and lean_ty(D['key']) == lean_ty(args[0][1]) and (len(args) < 2 or lean_ty(D['val']) == lean_ty(args[1][1]))]
                if len(cands) == 1:
                    self.tyvars[vty] = cands[0]
            vty = self.resolve(vty) if vty in getattr(self, 'dictvars', ()) else vty
            key = (vty, fn.attr)
            if e.keywords and any(k_[:2] == key for k_ in self.spec.kw_methods) and all(k_.arg for k_ in e.keywords):
                # a bound method called with keyword arguments that are literals (SrcPvl: `np.diff(pitches, axis=1)`)
                kws = tuple((k_.arg, self.expr(k_.value, env, None)[0]) for k_ in e.keywords)
                if (vty, fn.attr, kws) not in self.spec.kw_methods:
                    raise Untranslatable(f'method {vty}.{fn.attr} with keywords {kws} at line {e.lineno}')
                tmpl, rty = self.spec.kw_methods[(vty, fn.attr, kws)]
                return self.bind(B, tmpl.format(v, *[a[0] for a in args]), rty)
            if key in self.spec.funs_by_attr and e.keywords:
                f = self.spec.funs[self.spec.funs_by_attr[key]]
                pn = [p[0] for p in f['params']][1 + len(args):]
                kw = {k.arg: k.value for k in e.keywords}
                args += self.kw_args(f, pn, kw, env, B, fn.attr)
            if e.keywords and key not in self.spec.funs_by_attr:
                raise Untranslatable('keyword arguments')
            if key in self.spec.methods:
                tmpl, rty = self.spec.methods[key]
                r = self.bind(B, tmpl.format(v, *[a[0] for a in args]), rty)
            elif key in self.spec.funs_by_attr:
                self.check_owned(self.spec.funs_by_attr[key], e, [fn.value] + list(e.args), env)
                r = self.call_fun(self.spec.funs_by_attr[key], [(v, vty)] + args, B)
            else:
                raise Untranslatable(f'method {vty}.{fn.attr} at line {e.lineno}')
            if key in self.spec.fresh_methods:
                self.fresh_terms.add(r[0])        # declared: the method returns a new object
            return r
        raise Untranslatable('call form')

    def ctor(self, n, e, env, B):
        c = self.spec.ctors[n]
        given = {}
        names = [f[0] for f in c['fields']] + list(c.get('drop', []))
        order = c.get('order', names)
        for i, a in enumerate(e.args):
            given[order[i]] = a
        for kw in e.keywords:
            given[kw.arg] = kw.value
        parts = []
        for py, lean, ty, default in c['fields']:
            if py in given:
                t, tty = self.expr(given[py], env, B)
                if ty == 'Kind' and tty == 'Str':
                    t, tty = self.bind(B, f'Py.kindOfStr {t}', 'Res Kind')
                t = self.coerce(t, tty, ty, f'{n}({py}=…)')
            elif default is not None:
                t = default
            else:
                raise Untranslatable(f'{n}: missing {py}')
            parts.append(f'{lean} := {t}')
        for k in given:
            if k not in names:
                raise Untranslatable(f'{n}: unknown argument {k}')
        if 'wrap' in c:     # the constructor is bound to a model function of its fields
            vals = {p.split(' := ', 1)[0]: paren(p.split(' := ', 1)[1]) for p in parts}
            if c['ty'].startswith('Res '):
                r = c['ty'][4:]
                return self.bind(B, c['wrap'].format(**vals), 'Res ' + {'Rhythm.Metric': 'Metric'}.get(r, r))
            return c['wrap'].format(**vals), c['ty']
        return '({ ' + ', '.join(parts) + ' } : ' + c['ty'] + ')', c['ty']

    def e_ListComp(self, e, env, B):
        gens = e.generators
        env2 = dict(env)
        iters = []
        for g in gens:
            if isinstance(g.target, ast.Tuple) and not g.is_async and len(gens) == 1 and len(g.target.elts) >= 2 \
                    and all(isinstance(x_, ast.Name) for x_ in g.target.elts) \
                    and len({x_.id for x_ in g.target.elts}) == len(g.target.elts):
                # SrcEq: `[e for a, b in pairs]` over a list of tuples: one bound variable, the names are its components (SrcPvl's
                # `for idxc, new_val in enumerate(row)` and SrcImport's `[f(a, b, …) for a, b, … in rows]` take this path too;
                # SrcPvl's own reading, below, serves several generators)
                it, ity = self.expr(g.iter, env2, B)
                comps = split_prod(elem_ty(ity)) if is_list(ity) else []
                if len(comps) != len(g.target.elts):
                    raise Untranslatable(f'comprehension target over {ity}')
                pv = self.fresh(self.spec.tuple_binder)      # 'kv'; SrcPvl's fork wrote 'p', SrcImport's 'row'
                sub = dict(env2.get('__subst__', {}))
                for i_, (x_, cty_) in enumerate(zip(g.target.elts, comps)):
                    env2[x_.id] = {'String': 'Str'}.get(cty_, cty_)
                    sub[x_.id] = f'{pv}{tuple_proj(len(comps), i_)}'
                env2['__subst__'] = sub
                conds = []
                for c in g.ifs:
                    ct, cty = self.expr(c, env2, None)
                    if cty != 'Bool':
                        raise Untranslatable('comprehension filter')
                    conds.append(ct)
                pty = ' × '.join(paren(lean_ty(c_)) if ' × ' in lean_ty(c_) else lean_ty(c_) for c_ in comps)
                iters.append((pv + ' : ' + pty, it, conds, pv))
                continue
            pair = isinstance(g.target, ast.Tuple) and len(g.target.elts) == 2 and all(isinstance(x_, ast.Name) for x_ in g.target.elts) \
                and g.target.elts[0].id != g.target.elts[1].id
            if not (isinstance(g.target, ast.Name) or pair) or g.is_async:
                raise Untranslatable('comprehension target')
            if not pair and g.target.id in env2.get('__subst__', {}):
                raise Untranslatable(f'comprehension target `{g.target.id}` shadows a component of an enclosing tuple target')
            # the first iterable is evaluated in the enclosing scope and may raise; the others are per element
            it, ity = self.expr(g.iter, env2, B if g is gens[0] else None)
            if not is_list(ity) and self.resolve(ity) in self.spec.iters:
                it, ity = self.spec.iters[self.resolve(ity)][0].format(it), self.spec.iters[self.resolve(ity)][1]      # SrcImport
            if not is_list(ity):
                raise Untranslatable(f'iteration over {ity}')
            if pair:
                # `for a, b in pairs` (SrcPvl: `for idxc, new_val in enumerate(row)`, `enumerate` bound in `spec.builtins`): one
                # binder for the pair, the two names read its components
                comps = split_prod(elem_ty(ity))
                if len(comps) != 2 or g.ifs:
                    raise Untranslatable(f'comprehension target: a pair over {ity}')
                pv = self.fresh('p')
                for x_, c_, proj in zip(g.target.elts, comps, ('.1', '.2')):
                    env2[x_.id] = {'String': 'Str'}.get(c_, c_)
                    env2['__subst__'] = {**env2.get('__subst__', {}), x_.id: f'{pv}{proj}'}
                iters.append((pv + ' : ' + lean_ty(elem_ty(ity)), it, [], pv))
                continue
            env2[g.target.id] = elem_ty(ity)
            conds = []
            for c in g.ifs:
                try:
                    ct, cty = self.expr(c, env2, None)
                except Untranslatable:
                    if len(gens) != 1 or len(g.ifs) != 1 or B is None:
                        raise
                    Bc = []          # the filter can raise: evaluated per element in the monad, in list order
                    ct, cty = self.expr(c, env2, Bc)
                    if cty != 'Bool' or any(isinstance(m, tuple) for _, m in Bc):
                        raise
                    xv = ident(g.target.id) + ' : ' + lean_ty(elem_ty(ity))
                    body = ' '.join(f'let {n} ← {m};' for n, m in Bc) + f' pure {ct}'
                    it, _ = self.bind(B, f'{it}.filterM (fun ({xv}) => do {body})', f'Res ({lean_ty(ity)})')
                    continue
                if cty != 'Bool':
                    raise Untranslatable('comprehension filter')
                conds.append(ct)
            iters.append((ident(g.target.id) + ' : ' + lean_ty(elem_ty(ity)), it, conds, ident(g.target.id)))
        Be = []
        elt, ety = self.expr(e.elt, env2, Be)
        ety = lean_ty(ety)
        if Be and all(isinstance(m, tuple) for _, m in Be):
            if len(iters) != 1 or not self.copy_template:
                raise Untranslatable('copy inside a comprehension')
            x, it, conds, xn = iters[0]       # `[f(x.copy()) for x in xs]`: the copies are pure on the model's values
            src = it
            for c in conds:
                src = f'({src}.filter (fun ({x}) => {c}))'
            body = ' '.join(f'let {n} := {m[1]};' for n, m in Be) + f' {elt}'
            return f'({src}.map (fun ({x}) => {body}))', f'List {paren(ety)}'
        if Be:
            if len(iters) != 1:
                raise Untranslatable('raising element in a nested comprehension')
            x, it, conds, xn = iters[0]
            src = it
            for c in conds:
                src = f'({src}.filter (fun ({x}) => {c}))'
            body = ' '.join((f'let {n} := {m[1]};' if isinstance(m, tuple) else f'let {n} ← {m};') for n, m in Be) + f' pure {elt}'
            return self.bind(B, f'{src}.mapM (fun ({x}) => do {body})', f'Res (List {paren(ety)})')
        term = None
        for x, it, conds, xn in reversed(iters):
            src = it
            for c in conds:
                src = f'({src}.filter (fun ({x}) => {c}))'
            if term is None:
                term = src if elt == xn else f'({src}.map (fun ({x}) => {elt}))'
            else:
                term = f'({src}.flatMap (fun ({x}) => {term}))'
        return term, f'List {paren(ety)}'

    def e_DictComp(self, e, env, B):
        """the forms that keep the keys of what they run over:
          * `{k: v for k in keys}` over a list of strings (SrcBetween, needs `spec.dict_ops['set']`): keys are inserted one after the
            other (a repeated key keeps its first position); a `None` value makes the entries Optional, of the type stored first;
          * `{k: f(v) for k, v in d.items()}` on a dict type the spec declares (SrcConv, `spec.dict_types`): same keys in the same
            order, new values, the result is of the declared type;
          * `{k: f(v) for k, v in pairs}` over any other association list with unique keys (SrcDurOps): a list of pairs"""
        if len(e.generators) != 1:
            raise Untranslatable('dict comprehension with several generators')
        g = e.generators[0]
        if isinstance(g.target, ast.Name) and self.spec.dict_key_iters and not g.ifs and not g.is_async \
                and isinstance(e.key, ast.Name) and e.key.id == g.target.id:
            # SrcMask: `{k: f(k) for k in d}` over a dict the spec declares (`spec.dict_key_iters`): iterating a dict gives its keys,
            # each once, so the result is the association list of the same keys in the same order; the values are computed
            # key after key and may raise
            it, ity = self.expr(g.iter, env, B)
            if ity not in self.spec.dict_key_iters:
                raise Untranslatable(f'dict comprehension over {ity}')
            tmpl, kty = self.spec.dict_key_iters[ity]
            x = ident(g.target.id)
            Be = []
            val, vty = self.expr(e.value, {**env, g.target.id: kty}, Be)
            if any(isinstance(m, tuple) for _, m in Be):
                raise Untranslatable('copy inside a dict comprehension')
            rty = f'Dict {kty} {paren(vty)}'
            if Be:
                if B is None:
                    raise Untranslatable('a dict comprehension that can raise inside a pure context')
                body = ' '.join(f'let {n} ← {m};' for n, m in Be) + f' pure ({x}, {val})'
                return self.bind(B, f'({tmpl.format(it)}).mapM (fun ({x} : {lean_ty(kty)}) => do {body})', 'Res ' + paren(rty))
            return f'(({tmpl.format(it)}).map (fun ({x} : {lean_ty(kty)}) => ({x}, {val})))', rty
        if isinstance(g.target, ast.Name):
            if g.ifs or g.is_async or not (isinstance(e.key, ast.Name) and e.key.id == g.target.id) or 'set' not in self.spec.dict_ops:
                raise Untranslatable('dict comprehension form')
            it, ity = self.expr(g.iter, env, B)
            if not is_list(ity) or elem_ty(ity) != 'Str':
                raise Untranslatable(f'dict comprehension over {ity}')
            x = ident(g.target.id)
            v, vty = self.expr(e.value, {**env, g.target.id: 'Str'}, None)
            if vty == 'None':       # filled later by `d[k] = value`: Optional of the type stored first
                m = f'⟦T{len(self.tyvars) + 1}⟧'
                self.tyvars[m] = None
                vty = f'Option {m}'
            d = self.fresh('d')
            return f'(({it}).foldl (fun {d} ({x} : String) => {self.spec.dict_ops["set"].format(d, x, v)}) [])', f'Dict Str {paren(vty)}'
        if g.is_async or not (isinstance(g.target, ast.Tuple) and len(g.target.elts) == 2
                              and all(isinstance(x, ast.Name) for x in g.target.elts)):
            raise Untranslatable('dict comprehension target')
        kn, vn = g.target.elts[0].id, g.target.elts[1].id
        if not (isinstance(e.key, ast.Name) and e.key.id == kn):
            raise Untranslatable('dict comprehension that changes the keys')
        it, ity = self.expr(g.iter, env, B)
        dty = None
        if isinstance(g.iter, ast.Call) and isinstance(g.iter.func, ast.Attribute) and g.iter.func.attr == 'items' and not g.iter.args:
            dty = next((d for d, D in self.spec.dict_types.items() if D.get('items') == ity), None)
        if dty is not None:
            if g.ifs:
                raise Untranslatable('dict comprehension form')
            D = self.spec.dict_types[dty]
            p_ = self.fresh('kv')
            env2 = {**env, kn: D['key'], vn: D['val']}
            Be = []
            val, vty = self.expr(e.value, {**env2, '__subst__': {kn: f'{p_}.1', vn: f'{p_}.2'}}, Be)
            val = self.coerce(val, vty, D['val'], 'dict comprehension value')
            if any(isinstance(m, tuple) for _, m in Be):
                raise Untranslatable('copy inside a comprehension')
            pty = f'{lean_ty(D["key"])} × {lean_ty(D["val"])}'
            if Be:
                body = ' '.join(f'let {n} ← {m};' for n, m in Be) + f' pure ({p_}.1, {val})'
                return self.bind(B, f'({it}).mapM (fun ({p_} : {pty}) => do {body})', f'Res {dty}')
            return f'(({it}).map (fun ({p_} : {pty}) => ({p_}.1, {val})))', dty
        comps = split_prod(elem_ty(ity)) if is_list(ity) else []
        if len(comps) != 2:
            raise Untranslatable(f'dict comprehension over {ity}')
        env2 = {**env, kn: comps[0], vn: comps[1]}
        kv = self.fresh('kv')
        if len(g.ifs) == 1 and comps[1].startswith('Option ') and self.none_test(g.ifs[0], env2) == (vn, False) \
                and isinstance(e.value, ast.Name) and e.value.id == vn:
            # SrcMask: `{k: v for k, v in pairs if v is not None}`: the entries whose value is not None, in order, un-wrapped
            inner = comps[1][7:].strip()
            inner = inner[1:-1] if inner.startswith('(') and inner.endswith(')') else inner
            return (f'(({it}).filterMap (fun ({kv} : {lean_ty(comps[0])} × {lean_ty(comps[1])}) => '
                    f'match {kv}.2 with | some v => some ({kv}.1, v) | none => none))'), f'Dict {comps[0]} {paren(inner)}'
        for c in g.ifs:
            ct, cty = self.expr(c, env2, None)
            if ct != 'true':
                raise Untranslatable('dict comprehension filter')
        Be = []
        val, vty = self.expr(e.value, env2, Be)
        if any(isinstance(m, tuple) for _, m in Be):
            raise Untranslatable('copy inside a dict comprehension')
        head = f'let {ident(kn)} : {lean_ty(comps[0])} := {kv}.1; let {ident(vn)} : {lean_ty(comps[1])} := {kv}.2;'
        rty = f'List ({lean_ty(comps[0])} × {lean_ty(vty)})'
        if Be:
            body = head + ' ' + ' '.join(f'let {n} ← {m};' for n, m in Be) + f' pure ({ident(kn)}, {val})'
            return self.bind(B, f'({it}).mapM (fun ({kv} : {lean_ty(comps[0])} × {lean_ty(comps[1])}) => do {body})', f'Res ({rty})')
        return f'(({it}).map (fun ({kv} : {lean_ty(comps[0])} × {lean_ty(comps[1])}) => {head} ({ident(kn)}, {val})))', rty

    def e_SetComp(self, e, env, B):
        l = ast.ListComp(elt=e.elt, generators=e.generators)
        ast.copy_location(l, e)
        t, ty = self.e_ListComp(l, env, B)
        return t, 'Set Int'       # only ever used for membership tests

    # ---------------------------------------------------------------- statements
    def coerce(self, t, ty, want, what='value'):
        """the value `t : ty` where a `want` is expected (only conversions Python performs implicitly or that are
        representation changes of the model: None/T into Optional[T], int into Fraction, tuples componentwise)"""
        ty, want = self.resolve(ty), self.resolve(want)
        if 'Float' in (ty, want) and ty != want:
            raise Untranslatable(f'{what}: a float where {want} is expected')      # floats never convert silently
        if ty in getattr(self, 'dictvars', ()) and want in self.spec.dict_types and self.as_dict_type(ty, want=want) == want:
            return t
        if lean_ty(ty).replace('Melody', 'List Note') == lean_ty(want).replace('Melody', 'List Note'):
            return t
        if is_list(ty) and is_list(want) and ('⟦' in ty or '⟦' in want):
            self.unify_list(ty, want)
            return t
        if want.startswith('Option ') and (ty, want) in self.spec.coercions:
            return self.spec.coercions[(ty, want)].format(t)          # SrcMask: an Optional mapped into another Optional
        if want.startswith('Option '):
            if ty == 'None':
                return 'none'
            inner = want[7:].strip()
            inner = inner[1:-1] if inner.startswith('(') and inner.endswith(')') else inner
            return f'(some {self.coerce(t, ty, inner, what)})'
        if want == 'Rat' and ty == 'Int':
            return f'(({t} : Int) : Rat)'
        if want in UNIONS:
            for mt, ctor in UNIONS[want][1]:
                if lean_ty(mt).replace('Melody', 'List Note') == lean_ty(ty).replace('Melody', 'List Note'):
                    return f'({UNIONS[want][0]}.{ctor} {t})'
        if want == 'Bool' and ty == 'Int':
            return f'(decide ({t} ≠ (0 : Int)))'
        if (ty, want) in self.spec.coercions:
            return self.spec.coercions[(ty, want)].format(t)
        if ' × ' in want and ' × ' in ty and t.startswith('(') and self.last_tuple and self.last_tuple[0] == t:
            ws = split_prod(want)
            parts = self.last_tuple[1]
            if len(ws) == len(parts):
                return '(' + ', '.join(self.coerce(pt, pty, w, what) for (pt, pty), w in zip(parts, ws)) + ')'
        raise Untranslatable(f'{what} of type {ty}, expected {want}')

    def resolve(self, ty):
        if ty in getattr(self, 'dictvars', ()) and self.tyvars.get(ty) is not None:
            return self.tyvars[ty]            # an empty `{}` whose dict type is known by now
        for m, v in self.tyvars.items():
            if v is not None and m in ty:
                ty = ty.replace(m, paren(lean_ty(v)))
        return ty

    def coerce_ret(self, t, ty):
        return self.coerce(t, ty, self.ret, 'return')

    def is_fresh_value(self, v):
        """constructor calls and results of translated functions denote new objects"""
        if isinstance(v, ast.Call):
            f = v.func
            if isinstance(f, ast.Name) and (f.id in self.spec.ctors or f.id in self.spec.funs):
                return True
            if isinstance(f, ast.Attribute) and f.attr == 'copy':
                return True
        if isinstance(v, ast.Dict) and not v.keys:
            return True
        if isinstance(v, ast.Subscript) and isinstance(v.slice, ast.Slice) and v.slice.lower is None and v.slice.upper is None \
                and v.slice.step is None:
            return True          # `l[:]` is a new list
        return False

    def in_loop_assigned(self, name):
        return False

    def store_target(self, tgt, env):
        """`m.notes[i]` with `m` a local whose attribute `notes` is the list itself -> the local's name (SrcDurOps).
        A store through a plain local name, `xs[i] = v` / `d[k] = v`, is translated by the SrcExt form in `block`."""
        v = tgt.value
        if isinstance(tgt.slice, ast.Slice):
            return None
        if isinstance(v, ast.Attribute) and isinstance(v.value, ast.Name) and v.value.id in env \
                and self.spec.attrs.get((env[v.value.id], v.attr), (None,))[0] == '{0}' and is_list(env[v.value.id]):
            return v.value.id
        return None

    def nested_store(self, s, rest, env, k):
        """`x.a.b = v` (SrcPvl: `final_chord.tonality.octave = 0`): a store into the sub-object `x.a`.  Admitted only where that
        sub-object cannot be reached through another name: `x` was bound by `x = y.copy()` in a statement of the function's own
        body, the spec declares that a copy of this type holds an `a` object of its own (`spec.owned_attrs`), and between the
        copy and this statement (both at the top level of the function, outside loops) `x` is only mentioned as the receiver of
        stores `x.c = e` to other attributes."""
        tgt = s.targets[0]
        x, a, b = tgt.value.value.id, tgt.value.attr, tgt.attr
        xty = env[x]
        if (xty, a) not in self.spec.owned_attrs or (xty, a) not in self.spec.fields or xty not in self.spec.value_types:
            raise Untranslatable(f'store to {xty}.{a}.{b} at line {s.lineno}')
        fa, aty = self.spec.fields[(xty, a)]
        if (aty, b) not in self.spec.fields:
            raise Untranslatable(f'store to {xty}.{a}.{b} at line {s.lineno}')
        fb, bty = self.spec.fields[(aty, b)]
        body = getattr(self, 'fun_body', [])
        here = [i_ for i_, st_ in enumerate(body) if st_ is s]
        if self.in_loop or not here or ident(x) not in self.fresh_vars(env):
            raise Untranslatable(f'store through `{x}.{a}`, which may alias an operand, at line {s.lineno}')
        binds = [j_ for j_ in range(here[0]) if isinstance(body[j_], ast.Assign) and len(body[j_].targets) == 1
                 and isinstance(body[j_].targets[0], ast.Name) and body[j_].targets[0].id == x]
        v0 = body[binds[-1]].value if binds else None
        if not (isinstance(v0, ast.Call) and isinstance(v0.func, ast.Attribute) and v0.func.attr == 'copy' and not v0.args
                and not v0.keywords and not any(isinstance(n_, ast.Name) and n_.id == x for n_ in ast.walk(v0))):
            raise Untranslatable(f'`{x}` is not bound by a `.copy()` before the store to `{x}.{a}.{b}` at line {s.lineno}')
        for st_ in body[binds[-1] + 1:here[0]]:
            mentions = [n_ for n_ in ast.walk(st_) if isinstance(n_, ast.Name) and n_.id == x]
            if mentions and not (isinstance(st_, ast.Assign) and len(st_.targets) == 1 and isinstance(st_.targets[0], ast.Attribute)
                                 and st_.targets[0].value is mentions[0] and len(mentions) == 1 and st_.targets[0].attr != a):
                raise Untranslatable(f'`{x}` is used between its copy and the store to `{x}.{a}.{b}` at line {s.lineno}')
        B = []
        t, ty = self.expr(s.value, env, B)
        t = self.coerce(t, ty, bty, f'store to {xty}.{a}.{b}')
        upd = '{ ' + ident(x) + f' with {fa} := {{ {ident(x)}.{fa} with {fb} := {t} }} }}'
        return self.wrap(B, ('let', ident(x), lean_ty(xty), upd, self.block(rest, env, k)))

    def local_function(self, s):
        """a `def` inside the function, possibly recursive.  Emitted as a Lean definition by structural recursion on `rec_fuel`;
        running out of fuel is Python's RecursionError.  Without the keys below it is closed (only its own parameters and spec
        globals).  SrcEuclid: `captures=[(name, type)]` are variables of the enclosing function it reads, `mutates=[(name, type)]`
        lists of the enclosing function it appends to (and only appends to; it returns nothing): both become leading parameters,
        the mutated lists are the result; such a function is called as a statement (`FunTr.closure_call`).  SrcPvl:
        `closure=[(name, type)]` are parameters of the enclosing function it reads (leading parameters; it may return a value and
        is called inside expressions; recorded as `closure_params` in `spec.funs`).  SrcImport: `plain=True`, a closed function
        that does not call itself, emitted without a depth bound."""
        nd = self.nested[s.name]
        caps, muts = list(nd.get('captures', ())), list(nd.get('mutates', ()))
        all_params = caps + muts + list(nd['params'])
        if [a.arg for a in s.args.args] != [p[0] for p in nd['params']] or s.args.vararg or s.args.kwarg or s.args.defaults:
            raise Untranslatable(f'local function {s.name}: parameters')
        if nd.get('plain'):
            # SrcImport: a local function that does not call itself (it is registered only after its body is translated, so a
            # recursive call is an unknown function) and closes over nothing: an ordinary definition, no depth bound
            if caps or muts or nd.get('closure'):
                raise Untranslatable(f'local function {s.name}: `plain` with captured variables')
            sub = FunTr(self.spec, nd['lean'], nd['params'], nd['ret'])
            sub.copy_template, sub.fold_literals = self.copy_template, self.fold_literals
            sub.typed_ops, sub.join_ifs = self.typed_ops, self.join_ifs
            sub.fun_body = list(s.body)
            tree = sub.block(list(s.body), {p_: t_ for p_, t_ in nd['params']})
            sig = ' '.join(f'({ident(p_)} : {lean_ty(t_)})' for p_, t_ in nd['params'])
            rt = lean_ty(nd['ret'])
            pure_ = is_pure(tree)
            head = f'def {nd["lean"]} {sig} : ' + (rt if pure_ else f'Res {paren(rt)}') + ' :=' + ('' if pure_ else ' do')
            lines = [f'/-- local function `{s.name}` of `{self.name}` (no closure, no recursion) -/', head] + render(tree, 2, not pure_)
            self.spec.funs[s.name] = dict(lean=nd['lean'], params=nd['params'], ret=nd['ret'], pure=pure_, local=True)
            self.nested_defs.append(('\n'.join(lines), sub))
            self.assumed += sub.assumed
            return
        if any(p[0] == 'rec_fuel' for p in all_params):
            raise Untranslatable('a parameter named rec_fuel')
        ret = nd['ret']
        if caps or muts:
            if len({p[0] for p in all_params}) != len(all_params) or nd['ret'] != 'None':
                raise Untranslatable(f'local function {s.name}: captured names / result')
            shared = {p[0] for p in caps + muts}
            for node in ast.walk(s):
                # a closure may read the captured variables and `append` to the mutated ones; re-binding one would make it a
                # local of the inner function in Python, and a `return` would end the call early
                tg = (node.targets if isinstance(node, ast.Assign) else [node.target] if isinstance(node, (ast.AugAssign, ast.For, ast.NamedExpr))
                      else [])
                if any(isinstance(x_, ast.Name) and x_.id in shared for t_ in tg for x_ in ast.walk(t_)) \
                        or isinstance(node, (ast.Return, ast.Global, ast.Nonlocal, ast.Lambda)) \
                        or (isinstance(node, ast.FunctionDef) and node is not s):
                    raise Untranslatable(f'local function {s.name}: statement at line {node.lineno}')
            if muts:
                ret = ' × '.join(paren(lean_ty(t_)) if ' × ' in lean_ty(t_) else lean_ty(t_) for _, t_ in muts)
        # entry key `closure` (SrcPvl): parameters of the enclosing function the local function reads (`self`).  They become
        # leading parameters of the lifted definition and every call passes the enclosing function's value, which is what the
        # closure sees as long as neither function ever re-binds the name (checked)
        closure = [tuple(c_) for c_ in nd.get('closure', ())]
        for c_, t_ in closure:
            if (c_, t_) not in [tuple(p_) for p_ in self.params] or c_ in [p_[0] for p_ in nd['params']] or c_ == 'rec_fuel' \
                    or c_ in self.assigned_names(getattr(self, 'fun_body', [s])) or c_ in self.consts \
                    or any(isinstance(n_, ast.Name) and n_.id == c_ and not isinstance(n_.ctx, ast.Load)
                           for st_ in getattr(self, 'fun_body', [s]) for n_ in ast.walk(st_)):
                raise Untranslatable(f'local function {s.name}: closure variable {c_}')
        if closure and (caps or muts):
            raise Untranslatable(f'local function {s.name}: both `closure` and `captures` / `mutates`')
        all_params = closure + all_params
        sub = FunTr(self.spec, nd['lean'], all_params, ret)
        if self.fuel_name not in (None, 'rec_fuel'):
            raise Untranslatable(f'local function {s.name} inside a function whose depth bound is called {self.fuel_name}')
        sub.copy_template, sub.fold_literals, sub.has_fuel = self.copy_template, self.fold_literals, True
        sub.fuel_name = self.fuel_name = 'rec_fuel'
        sub.typed_ops, sub.join_ifs = self.typed_ops, self.join_ifs
        sub.is_local = True
        self.has_fuel = True
        self.spec.funs[s.name] = dict(lean=nd['lean'], params=all_params, ret=ret, pure=False, fuel=True, local=True,
                                      **({'closure': (caps, muts)} if caps or muts else {}),
                                      **({'closure_params': closure} if closure else {}))
        sub.fun_body = list(s.body)
        env0 = {p_: t_ for p_, t_ in all_params}
        k0 = None
        if muts:
            env0['__fresh__'] = frozenset(ident(p_) for p_, _ in muts)      # the caller hands them over (checked at the call)
            k0 = lambda env_: ('ret', '(' + ', '.join(ident(p_) for p_, _ in muts) + ')' if len(muts) != 1 else ident(muts[0][0]))
        tree = sub.block(list(s.body), env0, k0)
        sig = ' '.join(f'({ident(p_)} : {lean_ty(t_)})' for p_, t_ in all_params)
        rt = lean_ty(ret)
        lines = [f'/-- local function `{s.name}` of `{self.name}`; `rec_fuel` bounds the recursion depth (RecursionError) -/',
                 f'def {nd["lean"]} (rec_fuel : Nat) {sig} : Res {paren(rt)} :=',
                 '  match rec_fuel with', '  | 0 => throw Err.other', '  | rec_fuel + 1 => do'] + render(tree, 4, True)
        self.nested_defs.append(('\n'.join(lines), sub))
        self.assumed += sub.assumed

    def closure_call(self, s, rest, env, k):
        """`f(args)` as a statement, `f` a local function that reads / appends to variables of the enclosing function (SrcEuclid, see
        `local_function`): the variables are passed as they are at the call (a closure sees their current value), the lists it
        appends to come back as the result and are re-bound; they must be lists no other name refers to"""
        name = s.value.func.id
        caps, muts = self.spec.funs[name]['closure']
        for n, _ in caps + muts:
            if n not in env or n in self.consts or n in env.get('__subst__', {}):
                raise Untranslatable(f'{name} at line {s.lineno}: its variable `{n}` is not a plain local here')
        for n, _ in muts:
            if ident(n) not in self.fresh_vars(env):
                raise Untranslatable(f'{name} appends to `{n}`, which may alias an operand, at line {s.lineno}')
        B = []
        args = [(ident(n), env[n]) for n, _ in caps + muts] + [self.expr(a, env, B) for a in s.value.args]
        r, _ = self.call_fun(name, args, B)
        env2 = self.drop_const(env, [n for n, _ in muts])
        for n, t in muts:
            env2[n] = t
        node = self.block(rest, env2, k)
        for i in reversed(range(len(muts))):
            node = ('let', ident(muts[i][0]), lean_ty(muts[i][1]), f'{r}{tuple_proj(len(muts), i)}', node)
        return self.wrap(B, node)

    def while_loop(self, s, rest, env, k):
        """`while TEST: BODY` (SrcEuclid): a separate definition `<f>_loop<n>` by structural recursion on the bound `rec_fuel`, one
        unit per iteration; running out raises Err.other where Python would go on looping (the tie theorem states a bound that
        suffices).  Its arguments are the variables the loop reads and does not assign, then the ones it assigns (the state); it
        returns the state at the exit (`break`, or TEST false).  `continue` and the end of BODY are the recursive call."""
        if self.fuel_name not in (None, 'rec_fuel') or getattr(self, 'is_local', False):
            raise Untranslatable(f'while loop at line {s.lineno}: inside a local function / a function with the depth bound {self.fuel_name}')
        self.has_fuel, self.fuel_name = True, 'rec_fuel'
        svars = [n for n in self.assigned_names(s.body) if n in env]
        if not svars:
            raise Untranslatable(f'while loop without loop-carried variables at line {s.lineno}')
        reads = []
        for nd in sorted([x for x in ast.walk(s) if isinstance(x, ast.Name)], key=lambda x: (x.lineno, x.col_offset)):
            if isinstance(nd.ctx, ast.Load) and nd.id in env and nd.id not in svars and nd.id not in reads:
                reads.append(nd.id)
        if any(n in self.consts or n in env.get('__subst__', {}) for n in reads + svars):
            raise Untranslatable(f'while loop at line {s.lineno} over a fixed parameter')
        self.loop_count = getattr(self, 'loop_count', 0) + 1
        lname = f'{self.name}_loop{self.loop_count}'
        env0 = self.drop_const(env, svars)
        stys = [env0[n] for n in svars]
        exits = []

        def arg(t):
            return t if t.startswith('(') or t.isidentifier() else f'({t})'

        def tup(parts):
            return '(' + ', '.join(parts) + ')' if len(parts) != 1 else parts[0]

        def k_iter(env_):
            parts = []
            for n, t0 in zip(svars, stys):
                t1 = env_[n]
                if is_list(t0) and is_list(t1):
                    self.unify_list(t0, t1)
                    parts.append(ident(n))
                else:
                    parts.append(self.coerce(ident(n), t1, t0, f'loop variable {n}'))
            exits.append(env_)
            if env_.get('__break__'):
                return ('ret', tup(parts))
            r = self.fresh()
            return ('bind', r, ' '.join([lname, 'rec_fuel'] + [ident(n) for n in reads] + [arg(p_) for p_ in parts]), ('ret', r))
        self.in_loop += 1
        try:
            B = []
            c, cty = self.truth(*self.expr(s.test, env0, B))
            if cty != 'Bool' or c == 'false':
                raise Untranslatable(f'while test of type {cty} at line {s.lineno}')
            body = self.block(list(s.body), env0, k_iter)
            if c != 'true':
                exits.append(env0)
                body = ('if', c, body, ('ret', tup([ident(n) for n in svars])))
            tree = self.wrap(B, body)
        finally:
            self.in_loop -= 1
        for n in svars:
            if ident(n) in self.fresh_vars(env0) and any(ident(n) not in self.fresh_vars(e_) for e_ in exits):
                raise Untranslatable(f'the while loop at line {s.lineno} may leave `{n}` aliased')
        sig = ' '.join([f'({ident(n)} : {lean_ty(env0[n])})' for n in reads] + [f'({ident(n)} : {lean_ty(t_)})' for n, t_ in zip(svars, stys)])
        sty = ' × '.join(paren(lean_ty(t_)) if ' × ' in lean_ty(t_) else lean_ty(t_) for t_ in stys)
        lines = [f'/-- `while` loop {self.loop_count} of `{self.name}`; `rec_fuel` bounds the number of iterations (exhausted: Err.other) -/',
                 f'def {lname} (rec_fuel : Nat) {sig} : Res {paren(sty)} :=',
                 '  match rec_fuel with', '  | 0 => throw Err.other', '  | rec_fuel + 1 => do'] + render(tree, 4, True)
        self.nested_defs.append(('\n'.join(lines), self))
        st = self.fresh('st')
        env2 = dict(env0)
        for n, t_ in zip(svars, stys):
            env2[n] = self.resolve(t_)
        node = self.block(rest, env2, k)
        for i in reversed(range(len(svars))):
            node = ('let', ident(svars[i]), lean_ty(stys[i]), f'{st}{tuple_proj(len(svars), i)}', node)
        return ('bind', st, ' '.join([lname, 'rec_fuel'] + [ident(n) for n in reads + svars]), node)

    @staticmethod
    def drop_const(env, names):
        c = {k_: v_ for k_, v_ in env.get('__const__', {}).items() if k_ not in names}
        return {**env, '__const__': c}

    def fresh_vars(self, env):
        return env.get('__fresh__', frozenset())

    def wrap(self, B, node):
        for n, m in reversed(B):
            if isinstance(m, tuple) and m[0] == 'pure':
                node = ('let', n, None, m[1], node)
            else:
                node = ('bind', n, m, node)
        return node

    def assigned_names(self, stmts):
        """names (re)bound or mutated anywhere in a statement list"""
        out = []

        def add(n):
            if n not in out:
                out.append(n)
        for st in stmts:
            for node in ast.walk(st):
                if isinstance(node, ast.Assign):
                    for t in node.targets:
                        for x in ([t] if not isinstance(t, ast.Tuple) else t.elts):
                            if isinstance(x, ast.Name):
                                add(x.id)
                            elif isinstance(x, (ast.Attribute, ast.Subscript)) and isinstance(x.value, ast.Name):
                                add(x.value.id)
                            elif isinstance(x, ast.Subscript) and isinstance(x.value, ast.Attribute) \
                                    and isinstance(x.value.value, ast.Name):
                                add(x.value.value.id)          # `m.notes[i] = v` / `x.attr[k] = e` changes `m` / `x`
                elif isinstance(node, ast.AugAssign):
                    x = node.target
                    if isinstance(x, ast.Name):
                        add(x.id)
                    elif isinstance(x, (ast.Attribute, ast.Subscript)) and isinstance(x.value, ast.Name):
                        add(x.value.id)                        # `x.attr op= e`, `d[k] op= e`
                elif isinstance(node, ast.Call) and isinstance(node.func, ast.Attribute) \
                        and node.func.attr in ('append', 'insert', 'pop') and isinstance(node.func.value, ast.Name):
                    add(node.func.value.id)
                elif isinstance(node, ast.Call) and isinstance(node.func, ast.Name) \
                        and self.spec.funs.get(node.func.id, {}).get('closure'):
                    for n_, _ in self.spec.funs[node.func.id]['closure'][1]:
                        add(n_)                                # a local function that appends to lists of this function (SrcEuclid)
        return out

    def rebound_names(self, stmts):
        """names bound as a whole (`x = e`, `x op= e`, tuple targets) anywhere in a statement list — unlike `assigned_names`, a store
        through the name (`x.attr = e`, `x[i] = e`, `x.append(e)`) does not count"""
        out = []
        for st in stmts:
            for node in ast.walk(st):
                tgts = node.targets if isinstance(node, ast.Assign) else ([node.target] if isinstance(node, (ast.AugAssign, ast.For)) else [])
                for t in tgts:
                    for x in ast.walk(t):
                        if isinstance(x, ast.Name) and isinstance(x.ctx, ast.Store) and x.id not in out:
                            out.append(x.id)
        return out

    def elem_loop(self, s):
        """`for i, x in enumerate(p)` over a parameter `p` declared `owned_items` (the function may store into the items of the
        list through the loop variable) -> (x, p)"""
        it = s.iter
        if isinstance(it, ast.Call) and isinstance(it.func, ast.Name) and it.func.id == 'enumerate' and len(it.args) == 1 \
                and not it.keywords and isinstance(it.args[0], ast.Name) and it.args[0].id in getattr(self, 'owned_items', ()) \
                and isinstance(s.target, ast.Tuple) and len(s.target.elts) == 2 and isinstance(s.target.elts[1], ast.Name):
            return s.target.elts[1].id, it.args[0].id
        return None

    def check_elem_store(self, x, p, attr, stmt):
        """`x.attr = e` where `x` is the loop variable running over the items of the parameter `p` (entry key `owned_items`).
        The image rebinds `x` to an updated record for the rest of the iteration; the list itself is not rebuilt.  That is what
        Python does for every observation the function can make, provided that
          * `attr` is read nowhere in the function except as `x.attr` (so a mutated item is never looked at through the list,
            through another name, or in a later iteration that did not store first: an item reached again would have to be read
            as `x.attr`, and the items are distinct objects — assumption printed in the generated file),
          * `p` itself is only iterated (`enumerate(p)`), measured (`len(p)`) and indexed, an item taken by index is only read
            through its attributes (`p[i].a`, or `y = p[i]` with `y` used as `y.a` only), so no item escapes into the result."""
        body = getattr(self, 'fun_body', [])
        parents = {}
        for st_ in body:
            for node in ast.walk(st_):
                for ch in ast.iter_child_nodes(node):
                    parents[id(ch)] = node
        for st_ in body:
            for node in ast.walk(st_):
                if isinstance(node, ast.Attribute) and node.attr == attr and not (isinstance(node.value, ast.Name) and node.value.id == x):
                    raise Untranslatable(f'`.{attr}` (stored through `{x}`) is also read through `{ast.unparse(node.value)}`, line {node.lineno}')
                if isinstance(node, ast.Name) and node.id == p:
                    par = parents.get(id(node))
                    if isinstance(par, ast.Call) and isinstance(par.func, ast.Name) and par.func.id in ('enumerate', 'len') and par.args == [node]:
                        continue
                    if isinstance(par, ast.Subscript) and par.value is node and not isinstance(par.slice, ast.Slice):
                        gp = parents.get(id(par))
                        if isinstance(gp, ast.Attribute) and isinstance(gp.ctx, ast.Load):
                            continue
                        if isinstance(gp, ast.Assign) and len(gp.targets) == 1 and isinstance(gp.targets[0], ast.Name) and gp.value is par:
                            y = gp.targets[0].id
                            uses = [n_ for s2 in body for n_ in ast.walk(s2) if isinstance(n_, ast.Name) and n_.id == y and n_ is not gp.targets[0]]
                            if all(isinstance(parents.get(id(u)), ast.Attribute) and isinstance(parents[id(u)].ctx, ast.Load) for u in uses) \
                                    and sum(1 for s2 in body for n_ in ast.walk(s2) if isinstance(n_, ast.Name) and n_.id == y
                                            and isinstance(n_.ctx, ast.Store)) == 1:
                                continue
                    raise Untranslatable(f'`{p}` (its items are stored into) is used other than by enumerate / len / item attribute, line {node.lineno}')
        self.item_stores = getattr(self, 'item_stores', set()) | {(p, attr)}
        note = (f'the items of `{p}` are distinct objects, and the caller does not read their `{attr}` after the call (the function '
                f'stores into it): translated call sites are checked, other callers are assumed to comply')
        if note not in self.assumed:
            self.assumed.append(note)

    def item_attr_target(self, s, env):
        """`xs[i].attr` as the target of `=` / `op=`, `xs` a local list of records with a storable field `attr` -> (target, xs)"""
        tgt = s.targets[0] if isinstance(s, ast.Assign) and len(s.targets) == 1 else getattr(s, 'target', None)
        if isinstance(tgt, ast.Attribute) and isinstance(tgt.value, ast.Subscript) and isinstance(tgt.value.value, ast.Name) \
                and not isinstance(tgt.value.slice, ast.Slice) and tgt.value.value.id in env:
            xty = self.resolve(env[tgt.value.value.id])
            if (xty.startswith('List ') or xty == 'Melody') and (elem_ty(xty), tgt.attr) in self.spec.fields:
                return tgt, tgt.value.value.id
        return None

    def check_item_store(self, xs, stmt, env):
        """A store through `xs[i]` changes an object that may also be known under the name it was appended with (`xs.append(y)`);
        the image changes the list item only.  Both agree as long as no such `y` is read between the store and its next
        re-binding.  Checked syntactically, for every name `y` appended to `xs` anywhere in the function:
          * `y` is a parameter declared `owned` (the caller gives the object up) or every binding of `y` is a new object;
          * every read of `y` is safe: going backwards from the read, through the enclosing blocks, a binding of `y` is met
            before any statement that contains a store through `xs[…]`, or the beginning of the function is reached (`y` a
            parameter, not yet touched); leaving a loop body whose body contains such a store is not safe (a later iteration);
          * up to the last top-level statement that can store, `xs` itself is only appended to, popped, measured, iterated in a
            comprehension, indexed for an attribute, or passed to a constructor the spec binds (no second name for the list or
            for an item)."""
        key = (xs,)
        if key in getattr(self, '_item_store_ok', set()):
            return
        body = getattr(self, 'fun_body', [])

        def has_store(st):
            for n_ in ast.walk(st):
                if isinstance(n_, (ast.Assign, ast.AugAssign)):
                    t_ = n_.targets[0] if isinstance(n_, ast.Assign) and len(n_.targets) == 1 else getattr(n_, 'target', None)
                    if isinstance(t_, ast.Attribute) and isinstance(t_.value, ast.Subscript) and isinstance(t_.value.value, ast.Name) \
                            and t_.value.value.id == xs:
                        return True
            return False

        def binds(st, y):
            return isinstance(st, ast.Assign) and len(st.targets) == 1 and isinstance(st.targets[0], ast.Name) and st.targets[0].id == y

        appended = []
        parents = {}
        for st_ in body:
            for node in ast.walk(st_):
                for ch in ast.iter_child_nodes(node):
                    parents[id(ch)] = node
        last = max([i_ for i_, st_ in enumerate(body) if has_store(st_)], default=-1)
        for st_ in body[:last + 1]:           # after the last statement that can store, a second name is harmless
            for node in ast.walk(st_):
                if isinstance(node, ast.Name) and node.id == xs and isinstance(node.ctx, ast.Load):
                    par = parents.get(id(node))
                    gp = parents.get(id(par))
                    if isinstance(par, ast.Attribute) and par.attr in ('append', 'pop') and isinstance(gp, ast.Call) and gp.func is par:
                        if par.attr == 'append' and len(gp.args) == 1:
                            a = gp.args[0]
                            if isinstance(a, ast.Name):
                                appended.append(a.id)
                            elif not self.is_fresh_value(a):
                                raise Untranslatable(f'`{xs}.append({ast.unparse(a)})`: the item may be known elsewhere, line {node.lineno}')
                        continue
                    if isinstance(par, ast.Subscript) and par.value is node and isinstance(gp, ast.Attribute):
                        continue                       # `xs[i].attr` (read or store target)
                    if isinstance(par, ast.comprehension) and par.iter is node:
                        continue                       # `[m for m in xs …]`: a new list
                    if isinstance(par, ast.Call) and isinstance(par.func, ast.Name) and (par.func.id == 'len' or par.func.id in self.spec.ctors) \
                            and node in par.args:
                        continue
                    raise Untranslatable(f'`{xs}` (its items are stored into) is used in a way that may give the list or an item a second '
                                         f'name, line {node.lineno}')
        for y in dict.fromkeys(appended):
            for st_ in body:
                for node in ast.walk(st_):
                    if binds(node, y) and not (self.is_fresh_value(node.value)):
                        raise Untranslatable(f'`{y}` (appended to `{xs}`, whose items are stored into) is bound to an object that may be '
                                             f'known elsewhere, line {node.lineno}')
            if y in dict(self.params) and y not in getattr(self, 'owned', ()):
                raise Untranslatable(f'parameter `{y}` is appended to `{xs}`, whose items are stored into: declare it `owned`')
            reads = [n_ for st_ in body for n_ in ast.walk(st_) if isinstance(n_, ast.Name) and n_.id == y and isinstance(n_.ctx, ast.Load)]
            for r_ in reads:
                node = r_
                safe = None
                while safe is None:
                    # climb to the statement containing `node` and the block (statement list) it sits in
                    st_ = node
                    while id(st_) in parents and not isinstance(st_, ast.stmt):
                        st_ = parents[id(st_)]
                    par = parents.get(id(st_))
                    blocks = [body] if par is None else [getattr(par, f_, None) for f_ in ('body', 'orelse', 'finalbody')]
                    blk = next((b_ for b_ in blocks if isinstance(b_, list) and any(x_ is st_ for x_ in b_)), None)
                    if blk is None:
                        safe = False
                        break
                    j = next(i_ for i_, x_ in enumerate(blk) if x_ is st_)
                    for prev in reversed(blk[:j]):
                        if binds(prev, y):
                            safe = True
                            break
                        if has_store(prev):
                            safe = False
                            break
                    if safe is not None:
                        break
                    if par is None:
                        safe = True                    # the beginning of the function
                    elif isinstance(par, (ast.For, ast.While)) and has_store(par):
                        safe = False
                    elif isinstance(par, ast.FunctionDef):
                        safe = False
                    else:
                        node = par
                if not safe:
                    raise Untranslatable(f'`{y}` (appended to `{xs}`) may be read at line {r_.lineno} after a store through `{xs}[…]`')
        self._item_store_ok = getattr(self, '_item_store_ok', set()) | {key}

    def pop_call(self, v, env):
        """`d.pop(k)` / `d.pop(k, None)` on a local of a declared dict type whose spec entry has a `pop` template"""
        if isinstance(v, ast.Call) and isinstance(v.func, ast.Attribute) and v.func.attr == 'pop' and isinstance(v.func.value, ast.Name) \
                and not v.keywords and len(v.args) in (1, 2) and v.func.value.id in env:
            dty = self.resolve(env[v.func.value.id])
            if dty in getattr(self, 'dictvars', ()) and self.tyvars.get(dty) is None:
                cands = [d_ for d_, D_ in self.spec.dict_types.items() if 'pop' in D_]       # a `{}` nothing was stored into yet
                if len(cands) == 1:
                    self.tyvars[dty] = dty = cands[0]
            if dty in self.spec.dict_types and 'pop' in self.spec.dict_types[dty]:
                return len(v.args) == 1 or (isinstance(v.args[1], ast.Constant) and v.args[1].value is None)
        return False

    def hoist_pop(self, s, env):
        """`targets = f(a1, …, d.pop(k), …)`: the pop is an argument of the call that is the whole right-hand side, every argument
        before it is an atom (a name other than `d`, a constant, `[]`) and so is `k`: evaluating the pop first changes nothing.
        -> [`h' = d.pop(k)`, `targets = f(a1, …, h', …)`] with a hidden name `h'`, else None"""
        v = s.value
        if not (isinstance(v, ast.Call) and isinstance(v.func, ast.Name)):
            return None
        for i, a in enumerate(v.args):
            if self.pop_call(a, env):
                d = a.func.value.id

                def atom(x):
                    return isinstance(x, ast.Constant) or (isinstance(x, ast.Name) and x.id != d) or (isinstance(x, ast.List) and not x.elts)
                if not all(atom(x) for x in v.args[:i]) or not atom(a.args[0]):
                    raise Untranslatable(f'`{d}.pop(…)` as an argument after a computed argument, line {s.lineno}')
                if any(self.pop_call(x, env) for x in list(v.args[i + 1:]) + [kw.value for kw in v.keywords]):
                    raise Untranslatable(f'several pops in one call, line {s.lineno}')
                h = self.fresh('popped') + "'"
                first = ast.Assign(targets=[ast.Name(id=h, ctx=ast.Store())], value=a)
                call = ast.Call(func=v.func, args=list(v.args[:i]) + [ast.Name(id=h, ctx=ast.Load())] + list(v.args[i + 1:]),
                                keywords=list(v.keywords))
                second = ast.Assign(targets=s.targets, value=call)
                for n_ in (first, call, second):
                    ast.copy_location(n_, s)
                    ast.fix_missing_locations(n_)
                return [first, second]
        return None

    def none_test(self, test, env):
        """`x is None` / `x is not None` on a local of Optional type -> (name, True if the test is `is None`)"""
        if isinstance(test, ast.Compare) and len(test.ops) == 1 and isinstance(test.ops[0], (ast.Is, ast.IsNot)) \
                and isinstance(test.left, ast.Name) and isinstance(test.comparators[0], ast.Constant) \
                and test.comparators[0].value is None and env.get(test.left.id, '').startswith('Option '):
            return test.left.id, isinstance(test.ops[0], ast.Is)
        return None

    def enumerate_target(self, s, rest, env):
        """the target names, flattened, of `for i, T in enumerate(v)` where the older reading (T a name, the index never read: the
        index is dropped) does not apply: the index is read, or T is itself a tuple of names.  None for any other loop."""
        t = s.target
        if not (isinstance(t, ast.Tuple) and len(t.elts) == 2 and isinstance(t.elts[0], ast.Name) and isinstance(s.iter, ast.Call)
                and isinstance(s.iter.func, ast.Name) and s.iter.func.id == 'enumerate' and 'enumerate' not in env
                and 'enumerate' not in self.spec.builtins       # a group that binds `enumerate` itself (SrcImport) reads the loop over its binding
                and len(s.iter.args) == 1 and not s.iter.keywords):
            return None
        second = t.elts[1]
        if isinstance(second, ast.Name):
            inner = [second]
        elif isinstance(second, ast.Tuple) and all(isinstance(x_, ast.Name) for x_ in second.elts):
            inner = list(second.elts)
        else:
            return None
        idx = t.elts[0].id
        used = any(isinstance(x_, ast.Name) and x_.id == idx for st_ in list(s.body) + rest for x_ in ast.walk(st_))
        if not used and isinstance(second, ast.Name):
            return None
        return [t.elts[0]] + inner

    def sum_test(self, test, env):
        """`isinstance(x, C)` / `not isinstance(x, C)` on a local of a declared sum type -> (name, class, True if positive)"""
        positive = True
        if isinstance(test, ast.UnaryOp) and isinstance(test.op, ast.Not):
            test, positive = test.operand, False
        if isinstance(test, ast.Call) and isinstance(test.func, ast.Name) and test.func.id == 'isinstance' \
                and len(test.args) == 2 and not test.keywords and isinstance(test.args[0], ast.Name):
            x, cls = test.args[0].id, ast.unparse(test.args[1])
            if x not in self.consts and env.get(x) in self.spec.sums and cls in self.spec.sums[env[x]]:
                return x, cls, positive
        return None

    def try_join(self, s, rest, env, k):
        """an `if` whose branches fall through (no return / raise / break / continue / assert): translate it as an
        expression giving the variables it assigns, and translate the rest once.  None when the branches leave a
        variable with types that no implicit conversion joins, or introduce new names (then the rest is duplicated)."""
        inner = list(s.body) + list(s.orelse)
        if any(isinstance(x, (ast.Return, ast.Raise, ast.Break, ast.Continue, ast.Assert)) for st_ in inner for x in ast.walk(st_)):
            return None
        names = self.assigned_names(inner)
        local = [n for n in names if n not in env]       # names that only exist inside a branch …
        if any(isinstance(x, ast.Name) and x.id in local for st_ in rest for x in ast.walk(st_)):
            return None                                  # … must not be read after the `if`
        names = [n for n in names if n in env]
        if not names:
            return None
        saved = (self.n, len(self.assumed), dict(self.tyvars), self.no_join if hasattr(self, 'no_join') else None)

        def run(types):
            outs = []

            def kj(env_):
                outs.append(env_)
                if types is None:
                    return ('ret', '()')
                parts = [self.coerce(ident(n), env_[n], types[n], f'variable {n} after the if at line {s.lineno}') for n in names]
                return ('ret', '(' + ', '.join(parts) + ')' if len(parts) != 1 else parts[0])
            self.no_join = s
            try:
                node = self.block([s], env, kj)
            finally:
                self.no_join = saved[3]
            return node, outs
        _, outs = run(None)
        self.n = saved[0]
        del self.assumed[saved[1]:]
        self.tyvars = saved[2]
        types = {}
        for n in names:
            cands = []
            for o in outs:
                if o[n] not in cands:
                    cands.append(o[n])
            pick = None
            for c in cands:
                try:
                    for t in cands:
                        self.coerce('x', t, c)
                    pick = c
                    break
                except Untranslatable:
                    continue
            if pick is None or '⟦' in pick:
                return None
            types[n] = pick
        node, outs = run(types)
        fr = set(self.fresh_vars(env)) - {ident(n) for n in names}
        fr |= {ident(n) for n in names if all(ident(n) in self.fresh_vars(o) for o in outs)}
        env2 = {**self.drop_const(env, names), **types, '__fresh__': frozenset(fr)}
        st = self.fresh('st') if len(names) != 1 else ident(names[0])
        return ('join', st, [(ident(n), types[n]) for n in names], node, self.block(rest, env2, k))

    def pure_message(self, msg, env):
        """the message of an `assert` is built only when the test fails, and an exception while building it would replace the
        AssertionError.  When every value it formats is a pure expression of the image (constants, names, attributes bound to
        total model functions; SrcBetween: `f"… {new_voice.duration} for {part}"`), building it cannot raise in the image and
        nothing has to be assumed; otherwise (SrcOrn: `{new_note.duration}` can raise) the assumption is printed."""
        pieces = [v.value for v in msg.values if isinstance(v, ast.FormattedValue)] if isinstance(msg, ast.JoinedStr) else [msg]
        if isinstance(msg, ast.JoinedStr) and any(isinstance(v, ast.FormattedValue) and v.format_spec is not None for v in msg.values):
            return False
        saved = (self.n, len(self.assumed), set(self.fresh_terms), dict(self.tyvars), self.last_tuple)
        try:
            for p_ in pieces:
                if not isinstance(p_, ast.Constant):
                    self.expr(p_, env, None)
            return True
        except Untranslatable:
            return False
        finally:
            self.n, self.fresh_terms, self.tyvars, self.last_tuple = saved[0], saved[2], saved[3], saved[4]
            del self.assumed[saved[1]:]

    def block(self, body, env, k=None):
        """statement list -> tree; `k(env)` is the node for falling off the end (default: `return None`)"""
        if k is None:
            k = lambda env_: ('ret', self.coerce_ret('none', 'None'))
        if not body:
            return k(env)
        s, rest = body[0], body[1:]
        if isinstance(s, (ast.Pass, ast.Import, ast.ImportFrom)) or \
                (isinstance(s, ast.Expr) and isinstance(s.value, ast.Constant) and isinstance(s.value.value, str)):
            return self.block(rest, env, k)
        if isinstance(s, ast.Continue) and self.in_loop:
            return k(env)
        if isinstance(s, ast.Break) and self.in_loop:
            return k({**env, '__break__': True})
        if isinstance(s, ast.Assert):
            B = []
            c, cty = self.truth(*self.expr(s.test, env, B))
            if cty != 'Bool':
                raise Untranslatable(f'assertion of type {cty} at line {s.lineno}')
            if c == 'true':           # decided by the declared types
                return self.wrap(B, self.block(rest, env, k))
            if s.msg is not None and not self.pure_message(s.msg, env):
                self.assumed.append(f'line {s.lineno}: building the message of the failing assertion does not raise')
            return self.wrap(B, ('if', c, self.block(rest, env, k), ('raise', 'assertion')))
        if isinstance(s, ast.FunctionDef) and s.name in self.nested and not self.in_loop:
            self.local_function(s)
            return self.block(rest, env, k)
        if isinstance(s, ast.Expr) and isinstance(s.value, ast.Call) and isinstance(s.value.func, ast.Attribute) \
                and isinstance(s.value.func.value, ast.Name) and s.value.func.value.id in env and not s.value.keywords \
                and (env[s.value.func.value.id], s.value.func.attr) in self.spec.funs_by_attr \
                and self.spec.funs[self.spec.funs_by_attr[(env[s.value.func.value.id], s.value.func.attr)]].get('state'):
            # SrcRoman: `x.m(args)` as a statement, `m` a translated method with the entry key `state` on its receiver and no result
            # of its own: Python evaluates the arguments, then the call mutates `x`; the image rebinds `x` to the object returned.
            # `x` must be an object this function owns (a fresh local or an `owned` parameter), so no other name sees the change.
            x = s.value.func.value.id
            f = self.spec.funs[self.spec.funs_by_attr[(env[x], s.value.func.attr)]]
            if f['state'] != f['params'][0][0] or lean_ty(f['ret']) != lean_ty(env[x]):
                raise Untranslatable(f'statement call of {s.value.func.attr}: result {f["ret"]} at line {s.lineno}')
            if ident(x) not in self.fresh_vars(env):
                raise Untranslatable(f'{s.value.func.attr} mutates `{x}`, which may alias an operand, at line {s.lineno}')
            B = []
            args = [self.expr(a, env, B) for a in s.value.args]
            r, _ = self.call_fun(self.spec.funs_by_attr[(env[x], s.value.func.attr)], [(ident(x), env[x])] + args, B)
            return self.wrap(B, ('let', ident(x), lean_ty(env[x]), r, self.block(rest, env, k)))
        if isinstance(s, ast.Assign) and len(s.targets) == 1 and isinstance(s.targets[0], ast.Subscript) \
                and self.store_target(s.targets[0], env) is not None:
            # `m.notes[i] = v` on a list no other name refers to: the value first, then the index, then the store (IndexError)
            x = self.store_target(s.targets[0], env)
            if ident(x) not in self.fresh_vars(env):
                raise Untranslatable(f'item store through `{x}`, which may alias an operand, at line {s.lineno}')
            B = []
            t, ty = self.expr(s.value, env, B)
            i, ity = self.expr(s.targets[0].slice, env, B)
            if ity != 'Int':
                raise Untranslatable(f'item store with index {ity} at line {s.lineno}')
            t = self.coerce(t, ty, elem_ty(env[x]), f'item store into {env[x]}')
            return self.wrap(B, ('bind', ident(x), f'Py.setItem {ident(x)} {i} {paren(t)}', self.block(rest, env, k)))
        if isinstance(s, ast.Assign) and len(s.targets) == 1 and self.hoist_pop(s, env) is not None:
            return self.block(self.hoist_pop(s, env) + rest, env, k)
        if isinstance(s, ast.Assign) and len(s.targets) == 1 and isinstance(s.targets[0], ast.Name) and self.pop_call(s.value, env):
            # SrcImport: `x = d.pop(k)` (KeyError when absent) / `x = d.pop(k, None)` on a dict type the spec declares with a `pop`
            # template: the value (Optional with a default) and the dict without the key.  The popped value counts as an object
            # no other name refers to: the dict held the only reference (assumption printed in the generated file).
            x, d = s.targets[0].id, s.value.func.value.id
            dty = self.resolve(env[d])
            D = self.spec.dict_types[dty]
            if ident(d) not in self.fresh_vars(env) and d not in getattr(self, 'owned', ()):
                raise Untranslatable(f'pop on `{d}`, which may alias an operand, at line {s.lineno}')
            B = []
            kt, kty = self.expr(s.value.args[0], env, B)
            if lean_ty(kty) != lean_ty(D['key']):
                raise Untranslatable(f'key of {dty}: {kty}')
            pr = self.fresh('pr')
            B.append((pr, ('pure', D['pop'].format(ident(d), kt))))
            vty = f'Option {paren(D["val"])}'
            val = f'{pr}.1'
            if len(s.value.args) == 1:
                val, vty = self.bind(B, f'(match {pr}.1 with | some v => pure v | none => throw Err.key)', 'Res ' + paren(D['val']))
            note = f'the values of the dict `{d}` are referenced by the dict only (a popped value is a fresh object)'
            if note not in self.assumed:
                self.assumed.append(note)
            fr = frozenset(set(self.fresh_vars(env)) | {ident(x)})
            env2 = {**self.drop_const(env, [x]), x: vty, '__fresh__': fr}
            return self.wrap(B, ('let', ident(x), lean_ty(vty), val,
                                 ('let', ident(d), lean_ty(dty), f'{pr}.2', self.block(rest, env2, k))))
        if isinstance(s, ast.AugAssign) and isinstance(s.target, ast.Subscript) and isinstance(s.target.value, ast.Name) \
                and s.target.value.id in env and self.dict_reading(env[s.target.value.id]) == 'declared' \
                and 'get' in self.spec.dict_types.get(self.resolve(env[s.target.value.id]), {}):
            # SrcImport: `d[k] op= v` on a declared dict type: `d[k]` is read first (KeyError), then `v`, then the store
            x = s.target.value.id
            dty = self.resolve(env[x])
            D = self.spec.dict_types[dty]
            if ident(x) not in self.fresh_vars(env) and x not in getattr(self, 'owned', ()):
                raise Untranslatable(f'store through `{x}`, which may alias an operand, at line {s.lineno}')
            B = []
            kt, kty = self.expr(s.target.slice, env, B)
            if lean_ty(kty) != lean_ty(D['key']) or not isinstance(s.target.slice, (ast.Name, ast.Constant)):
                raise Untranslatable(f'key of {dty} at line {s.lineno}')
            cur, _ = self.bind(B, D['get'].format(ident(x), kt), 'Res ' + paren(D['val']))
            h = self.fresh('cur') + "'"
            B.append((h, ('pure', cur)))
            v = ast.BinOp(left=ast.Name(id=h, ctx=ast.Load()), op=s.op, right=s.value)
            ast.copy_location(v, s)
            ast.fix_missing_locations(v)
            t, ty = self.expr(v, {**env, h: D['val']}, B)
            t = self.coerce(t, ty, D['val'], f'store to {dty}[…]')
            return self.wrap(B, ('let', ident(x), lean_ty(dty), D['set'].format(ident(x), kt, t), self.block(rest, env, k)))
        if isinstance(s, ast.Assign) and len(s.targets) == 1 and isinstance(s.targets[0], ast.Name):
            B = []
            self.cur_target, self.cur_value = s.targets[0].id, s.value
            try:
                t, ty = self.expr(s.value, env, B)
            finally:
                self.cur_target = self.cur_value = None
            name = s.targets[0].id
            if ty in UNIONS:
                # the class of the value is known at run time only: the rest of the block is typed once per class
                alts = []
                fr = frozenset(set(self.fresh_vars(env)) - {ident(name)})     # may be one of the operands
                for mt, ctor in UNIONS[ty][1]:
                    alts.append((ctor, self.block(rest, {**self.drop_const(env, [name]), name: mt, '__fresh__': fr}, k)))
                return self.wrap(B, ('matchunion', t, UNIONS[ty][0], ident(name), alts))
            if ty == 'None':
                t = '()'
            fr = set(self.fresh_vars(env)) - {ident(name)}
            if t in self.fresh_terms or self.is_fresh_value(s.value) or isinstance(s.value, (ast.List, ast.ListComp, ast.Dict, ast.DictComp)) \
                    or (isinstance(s.value, ast.Call) and isinstance(s.value.func, ast.Name) and s.value.func.id == 'dict'
                        and 'dict' in self.spec.builtins and 'dict' not in env):
                fr.add(ident(name))
            cst = {k_: v_ for k_, v_ in env.get('__const__', {}).items() if k_ != name}
            if t in ('true', 'false') and not self.in_loop_assigned(name):
                cst[name] = t
            reb = {'__rebound__': tuple(env.get('__rebound__', ())) + (name,)} if name in self.consts else {}   # a fixed parameter re-assigned
            return self.wrap(B, ('let', ident(name), lean_ty(ty), t,
                                 self.block(rest, {**env, name: ty, '__fresh__': frozenset(fr), '__const__': cst, **reb}, k)))
        if isinstance(s, ast.Assign) and len(s.targets) == 1 and isinstance(s.targets[0], ast.Tuple) \
                and all(isinstance(x, ast.Name) for x in s.targets[0].elts):
            B = []
            self.check_owned_call(s, rest, env)
            t, ty = self.expr(s.value, env, B)
            if isinstance(s.value, ast.Tuple) and self.last_tuple and self.last_tuple[0] == t \
                    and any(pty_ == 'None' for _, pty_ in self.last_tuple[1]):
                # SrcRoman: `a, b = x, None`: the component of type None is Lean's `()` (as in `b = None`; it was `none : Unit` before)
                t = '(' + ', '.join('()' if pty_ == 'None' else pt_ for pt_, pty_ in self.last_tuple[1]) + ')'
            comps = split_prod(ty)
            names = [x.id for x in s.targets[0].elts]
            if len(comps) == 1 and len(names) > 1 and strip_outer(ty) != ty:
                comps = [strip_outer(c_) for c_ in split_prod(strip_outer(ty))]      # SrcImport: `chord, bar = cb`, `cb : (Chord × (Rat × Rat))`
            if len(comps) != len(names):
                raise Untranslatable(f'unpacking {ty} into {len(names)} names at line {s.lineno}')
            pr = self.fresh('pr')
            env2 = self.drop_const(env, names)
            fr = set(self.fresh_vars(env))
            for nme, cty in zip(names, comps):
                env2[nme] = {'String': 'Str'}.get(cty, cty) if getattr(s, '_py2lean_alias', False) else cty
                if getattr(s, '_py2lean_alias', False):
                    fr.discard(ident(nme))
                    continue
                fr.add(ident(nme))       # components of a freshly built tuple
            env2['__fresh__'] = frozenset(fr)
            if getattr(s, '_py2lean_elem', None):
                env2['__elems__'] = {**env.get('__elems__', {}), s._py2lean_elem[0]: s._py2lean_elem[1]}
            node = self.block(rest, env2, k)
            for idx in reversed(range(len(names))):
                node = ('let', ident(names[idx]), lean_ty(comps[idx]), f'{pr}{tuple_proj(len(names), idx)}', node)
            return self.wrap(B, ('let', pr, None, t, node))
        if isinstance(s, ast.Assign) and len(s.targets) == 1 and isinstance(s.targets[0], ast.Tuple) \
                and isinstance(s.value, ast.Tuple) and len(s.value.elts) == len(s.targets[0].elts) \
                and all(isinstance(x, ast.Attribute) and isinstance(x.value, ast.Name) and x.value.id in env
                        for x in s.targets[0].elts):
            # `x.a, y.b = e1, e2`: Python evaluates e1, e2, then stores left to right; the values are named first
            B = []
            tmps, stores = [], []
            for x, v in zip(s.targets[0].elts, s.value.elts):
                t, ty = self.expr(v, env, B)
                tmp = self.fresh('rhs') + "'"          # hidden name (not a Python identifier)
                B.append((tmp, ('pure', t)))
                tmps.append((tmp, ty))
            for x, (tmp, ty) in zip(s.targets[0].elts, tmps):
                st_ = ast.Assign(targets=[x], value=ast.Name(id=tmp, ctx=ast.Load()))
                ast.copy_location(st_, s)
                ast.fix_missing_locations(st_)
                stores.append(st_)
            env2 = dict(env)
            for tmp, ty in tmps:
                env2[tmp] = ty
            return self.wrap(B, self.block(stores + rest, env2, k))
        if isinstance(s, ast.Assign) and len(s.targets) == 1 and isinstance(s.targets[0], ast.Tuple) \
                and not isinstance(s.value, ast.Tuple) \
                and all(isinstance(x, (ast.Name, ast.Subscript, ast.Attribute)) for x in s.targets[0].elts) \
                and not all(isinstance(x, ast.Name) for x in s.targets[0].elts):
            # `a, d[k] = e`: e is evaluated once, then its components are stored from left to right
            B = []
            self.check_owned_call(s, rest, env)
            t, ty = self.expr(s.value, env, B)
            comps = split_prod(ty)
            elts = s.targets[0].elts
            if len(comps) != len(elts):
                raise Untranslatable(f'unpacking {ty} into {len(elts)} targets at line {s.lineno}')
            pr = self.fresh('pr')
            env2 = dict(env)
            stores = []
            for i, (x, cty) in enumerate(zip(elts, comps)):
                h = f"{pr}_{i}'"                      # hidden names (not Python identifiers)
                env2[h] = cty
                st_ = ast.Assign(targets=[x], value=ast.Name(id=h, ctx=ast.Load()))
                ast.copy_location(st_, s)
                ast.fix_missing_locations(st_)
                stores.append(st_)
            node = self.block(stores + rest, env2, k)
            for i in reversed(range(len(elts))):
                node = ('let', f"{pr}_{i}'", lean_ty(comps[i]), f'{pr}{tuple_proj(len(elts), i)}', node)
            return self.wrap(B, ('let', pr, None, t, node))
        if isinstance(s, ast.Assign) and len(s.targets) == 1 and isinstance(s.targets[0], ast.Subscript) \
                and isinstance(s.targets[0].value, ast.Name) and s.targets[0].value.id in env \
                and not isinstance(s.targets[0].slice, ast.Slice) and self.dict_reading(env[s.targets[0].value.id]) in (None, 'assoc'):
            # `x[i] = v` on a list (IndexError out of range) / `d[k] = v` on a dict; Python evaluates v, then x, then the index
            # (SrcExt; the dicts of SrcConv / SrcBetween are stored into further down)
            x = s.targets[0].value.id
            xty = self.resolve(env[x])
            if ident(x) not in self.fresh_vars(env):
                raise Untranslatable(f'store into `{x}`, which may alias an operand, at line {s.lineno}')
            B = []
            t, ty = self.expr(s.value, env, B)
            i, ity = self.expr(s.targets[0].slice, env, B)
            if xty.startswith(ASSOC):
                want = f'{ASSOC}{paren(lean_ty(ity) + " × " + lean_ty(ty))}'
                nty, _ = self.unify_list(xty, want)
                kv = split_prod(elem_ty(nty))
                return self.wrap(B, ('let', ident(x), lean_ty(nty), f'(PyL.dictSet {self.eq_fun(kv[0])} {ident(x)} {i} {t})',
                                     self.block(rest, {**env, x: nty}, k)))
            if xty.startswith('List ') and ity == 'Int':
                t = self.coerce(t, ty, elem_ty(xty), f'store into {x}')
                r = self.fresh()
                B.append((r, f'PyL.setItem {ident(x)} {i} {t}'))
                return self.wrap(B, ('let', ident(x), lean_ty(xty), r, self.block(rest, env, k)))
            raise Untranslatable(f'store {xty}[{ity}] at line {s.lineno}')
        if isinstance(s, ast.Expr) and isinstance(s.value, ast.Call) and isinstance(s.value.func, ast.Attribute) \
                and s.value.func.attr in ('insert', 'pop') and isinstance(s.value.func.value, ast.Name) \
                and s.value.func.value.id in env and self.resolve(env[s.value.func.value.id]).startswith('List ') \
                and not s.value.keywords and (len(s.value.args) == (2 if s.value.func.attr == 'insert' else 1)
                                              or (s.value.func.attr == 'pop' and not s.value.args)):
            # `x.insert(i, v)` (the index is clamped) / `x.pop(i)` as a statement (IndexError out of range)
            x = s.value.func.value.id
            xty = self.resolve(env[x])
            if ident(x) not in self.fresh_vars(env):
                raise Untranslatable(f'{s.value.func.attr} on `{x}`, which may alias an operand, at line {s.lineno}')
            B = []
            i, ity = self.expr(s.value.args[0], env, B) if s.value.args else (ilit(-1), 'Int')      # `x.pop()` = `x.pop(-1)` (SrcImport)
            if ity != 'Int':
                raise Untranslatable(f'{s.value.func.attr} at an index of type {ity}')
            if s.value.func.attr == 'insert':
                t, ty = self.expr(s.value.args[1], env, B)
                t = self.coerce(t, ty, elem_ty(xty), f'insert into {x}')
                return self.wrap(B, ('let', ident(x), lean_ty(xty), f'(PyL.insert {ident(x)} {i} {t})', self.block(rest, env, k)))
            r = self.fresh()
            B.append((r, f'PyL.popAt {ident(x)} {i}'))
            return self.wrap(B, ('let', ident(x), lean_ty(xty), r, self.block(rest, env, k)))
        if isinstance(s, ast.Assign) and len(s.targets) == 1 and isinstance(s.targets[0], ast.Attribute) \
                and isinstance(s.targets[0].value, ast.Attribute) and isinstance(s.targets[0].value.value, ast.Name) \
                and s.targets[0].value.value.id in env and self.spec.owned_attrs:
            return self.nested_store(s, rest, env, k)
        if isinstance(s, (ast.Assign, ast.AugAssign)) and self.item_attr_target(s, env) is not None:
            # SrcImport: `xs[i].attr = e` / `xs[i].attr op= e` on a list no other name refers to.  Python evaluates `xs[i]` (IndexError),
            # for `op=` reads the attribute, evaluates `e`, then stores into the object; the image writes the updated record back at
            # the same index.  The items of the list may be known under other names (`xs.append(y)`): see `check_item_store`.
            tgt, x = self.item_attr_target(s, env)
            xty = self.resolve(env[x])
            if ident(x) not in self.fresh_vars(env):
                raise Untranslatable(f'store through `{x}[…]`, which may alias an operand, at line {s.lineno}')
            self.check_item_store(x, s, env)
            field, fty = self.spec.fields[(elem_ty(xty), tgt.attr)]
            B = []
            if isinstance(s, ast.Assign):
                t, ty = self.expr(s.value, env, B)            # `=`: the value first, then the target's object
            i, ity = self.expr(tgt.value.slice, env, B)
            if ity != 'Int':
                raise Untranslatable(f'item store with index {ity} at line {s.lineno}')
            o, _ = self.bind(B, f'pyIndex {ident(x)} {i}', 'Res ' + paren(lean_ty(elem_ty(xty))))
            if isinstance(s, ast.AugAssign):
                cur = self.fresh('cur') + "'"               # hidden name (not a Python identifier): the attribute as read
                B.append((cur, ('pure', f'{o}.{field}')))
                v = ast.BinOp(left=ast.Name(id=cur, ctx=ast.Load()), op=s.op, right=s.value)
                ast.copy_location(v, s)
                ast.fix_missing_locations(v)
                t, ty = self.expr(v, {**env, cur: fty}, B)
            t = self.coerce(t, ty, fty, f'store to {x}[…].{tgt.attr}')
            r = self.fresh()
            B.append((r, f'PyL.setItem {ident(x)} {i} {{ {o} with {field} := {t} }}'))
            return self.wrap(B, ('let', ident(x), lean_ty(xty), r, self.block(rest, env, k)))
        if isinstance(s, (ast.Assign, ast.AugAssign)):
            tgt = s.targets[0] if isinstance(s, ast.Assign) and len(s.targets) == 1 else getattr(s, 'target', None)
            if isinstance(tgt, ast.Attribute) and isinstance(tgt.value, ast.Name) and tgt.value.id in env:
                x = tgt.value.id
                xty = env[x]
                if (xty, tgt.attr) not in self.spec.fields and (xty, tgt.attr) not in self.spec.store_templates:
                    raise Untranslatable(f'store to {xty}.{tgt.attr} at line {s.lineno}')
                if x in env.get('__elems__', {}) and ident(x) not in self.fresh_vars(env):
                    self.check_elem_store(x, env['__elems__'][x], tgt.attr, s)      # SrcImport: `note.end = …` on an item of an owned list
                elif ident(x) not in self.fresh_vars(env):
                    raise Untranslatable(f'store through `{x}`, which may alias an operand, at line {s.lineno}')
                if (xty, tgt.attr) in self.spec.store_templates and isinstance(s, ast.Assign):
                    tmpl, vty, rty = self.spec.store_templates[(xty, tgt.attr)]
                    B = []
                    t, ty = self.expr(s.value, env, B)
                    t = self.coerce(t, ty, vty, f'store to {xty}.{tgt.attr}')
                    r, rty = self.bind(B, tmpl.format(ident(x), t), rty)
                    if rty != xty:
                        raise Untranslatable(f'store template of {xty}.{tgt.attr} gives {rty}')
                    return self.wrap(B, ('let', ident(x), lean_ty(xty), r, self.block(rest, env, k)))
                if (xty, tgt.attr) not in self.spec.fields:
                    raise Untranslatable(f'store to {xty}.{tgt.attr} at line {s.lineno}')
                field, fty = self.spec.fields[(xty, tgt.attr)]
                B = []
                if isinstance(s, ast.AugAssign):
                    v = ast.BinOp(left=ast.Attribute(value=ast.Name(id=x, ctx=ast.Load()), attr=tgt.attr, ctx=ast.Load()),
                                  op=s.op, right=s.value)
                    ast.copy_location(v, s)
                    ast.fix_missing_locations(v)
                else:
                    v = s.value
                t, ty = self.expr(v, env, B)
                if fty == 'Kind' and ty == 'Str':
                    t, ty = self.bind(B, f'Py.kindOfStr {t}', 'Res Kind')      # as in constructors
                t = self.coerce(t, ty, fty, f'store to {xty}.{tgt.attr}')
                return self.wrap(B, ('let', ident(x), lean_ty(xty), '{ ' + ident(x) + f' with {field} := {t} }}', self.block(rest, env, k)))
        if isinstance(s, ast.Assign) and len(s.targets) == 1 and isinstance(s.targets[0], ast.Subscript) \
                and isinstance(s.targets[0].value, ast.Attribute) and isinstance(s.targets[0].value.value, ast.Name) \
                and s.targets[0].value.value.id in env:
            tgt = s.targets[0]
            x, attr = tgt.value.value.id, tgt.value.attr
            xty = env[x]
            if (xty, attr) not in self.spec.fields or self.spec.fields[(xty, attr)][1] not in self.spec.dict_types:
                raise Untranslatable(f'store to {xty}.{attr}[…] at line {s.lineno}')
            if ident(x) not in self.fresh_vars(env):
                raise Untranslatable(f'store through `{x}`, which may alias an operand, at line {s.lineno}')
            field, fty = self.spec.fields[(xty, attr)]
            D = self.spec.dict_types[fty]
            for live in env.get('__items_loops__', ()):
                if live[0] == (x, attr) and not (isinstance(tgt.slice, ast.Name) and tgt.slice.id == live[1]):
                    # inside `for k, v in x.attr.items()` only the value of the key being visited may be replaced:
                    # then the snapshot the fold runs over and Python's live view agree (and the key set does not change)
                    raise Untranslatable(f'store to {x}.{attr}[…] under a key other than the one being visited, at line {s.lineno}')
            B = []
            kt, kty = self.expr(tgt.slice, env, B)
            if lean_ty(kty) != lean_ty(D['key']):
                raise Untranslatable(f'key of {fty}: {kty}')
            t, ty = self.expr(s.value, env, B)
            t = self.coerce(t, ty, D['val'], f'store to {xty}.{attr}[…]')
            upd = D['set'].format(f'{ident(x)}.{field}', kt, t)
            return self.wrap(B, ('let', ident(x), lean_ty(xty), '{ ' + ident(x) + f' with {field} := {upd} }}', self.block(rest, env, k)))
        if isinstance(s, ast.Assign) and len(s.targets) == 1 and isinstance(s.targets[0], ast.Subscript) \
                and isinstance(s.targets[0].value, ast.Name) and s.targets[0].value.id in env \
                and self.dict_reading(env[s.targets[0].value.id]) == 'declared':
            # `d[k] = v` on a dict type the spec declares (SrcConv)
            tgt = s.targets[0]
            x = tgt.value.id
            B = []
            kt, kty = self.expr(tgt.slice, env, B)
            t, ty = self.expr(s.value, env, B)
            dty = self.as_dict_type(env[x], key=kty, val=ty)
            if dty is None:
                raise Untranslatable(f'store to {env[x]}[…] at line {s.lineno}')
            if ident(x) not in self.fresh_vars(env) and x not in getattr(self, 'owned', ()):
                raise Untranslatable(f'store through `{x}`, which may alias an operand, at line {s.lineno}')
            D = self.spec.dict_types[dty]
            if lean_ty(kty) != lean_ty(D['key']):
                raise Untranslatable(f'key of {dty}: {kty}')
            t = self.coerce(t, ty, D['val'], f'store to {dty}[…]')
            return self.wrap(B, ('let', ident(x), lean_ty(dty), D['set'].format(ident(x), kt, t), self.block(rest, {**env, x: dty}, k)))
        if isinstance(s, (ast.Assign, ast.AugAssign)):
            tgt = s.targets[0] if isinstance(s, ast.Assign) and len(s.targets) == 1 else getattr(s, 'target', None)
            if isinstance(tgt, ast.Subscript) and isinstance(tgt.value, ast.Name) and env.get(tgt.value.id, '').startswith('Dict ') \
                    and 'set' in self.spec.dict_ops:
                x = tgt.value.id
                if ident(x) not in self.fresh_vars(env):
                    raise Untranslatable(f'store into `{x}`, which may alias an operand, at line {s.lineno}')
                kty, vty = dict_kv(self.resolve(env[x]))
                B = []
                key, keyty = self.expr(tgt.slice, env, B)       # Python: value first for `=`, but both are pure names here
                if keyty != kty or not isinstance(tgt.slice, (ast.Name, ast.Constant)):
                    raise Untranslatable(f'key of {env[x]} at line {s.lineno}')
                if isinstance(s, ast.AugAssign):
                    inner0 = vty[7:].strip() if vty.startswith('Option ') else vty
                    if inner0 in self.tyvars and self.tyvars[inner0] is None:
                        saved_n = self.n
                        _, rty0 = self.expr(s.value, env, [])            # typed only; translated again below
                        self.n = saved_n
                        if (f'Option {paren(rty0)}', type(s.op).__name__, rty0) not in self.spec.binops:
                            raise Untranslatable(f'`None {type(s.op).__name__} {rty0}` at line {s.lineno}')
                        self.tyvars[inner0] = self.spec.binops[(f'Option {paren(rty0)}', type(s.op).__name__, rty0)][1]
                        kty, vty = dict_kv(self.resolve(env[x]))
                    v = ast.BinOp(left=ast.Subscript(value=ast.Name(id=x, ctx=ast.Load()), slice=tgt.slice, ctx=ast.Load()),
                                  op=s.op, right=s.value)
                    ast.copy_location(v, s)
                    ast.fix_missing_locations(v)
                else:
                    v = s.value
                t, ty = self.expr(v, env, B)
                inner = vty[7:].strip() if vty.startswith('Option ') else vty
                if inner in self.tyvars and self.tyvars[inner] is None and ty != 'None':
                    self.tyvars[inner] = ty                      # the dict was built with `None` values
                    kty, vty = dict_kv(self.resolve(env[x]))
                t = self.coerce(t, ty, vty, f'store into {env[x]}')
                xty = f'Dict {kty} {paren(vty)}'
                return self.wrap(B, ('let', ident(x), lean_ty(xty), self.spec.dict_ops['set'].format(ident(x), key, t),
                                     self.block(rest, {**env, x: xty}, k)))
        if isinstance(s, ast.Expr) and isinstance(s.value, ast.Call) and isinstance(s.value.func, ast.Attribute) \
                and s.value.func.attr == 'update' and isinstance(s.value.func.value, ast.Name) and len(s.value.args) == 1 \
                and not s.value.keywords and env.get(s.value.func.value.id, '').startswith('Dict ') and 'update' in self.spec.dict_ops:
            x = s.value.func.value.id
            if ident(x) not in self.fresh_vars(env):
                raise Untranslatable(f'update of `{x}`, which may alias an operand, at line {s.lineno}')
            B = []
            t, ty = self.expr(s.value.args[0], env, B)
            if lean_ty(self.resolve(ty)) != lean_ty(self.resolve(env[x])):
                raise Untranslatable(f'{env[x]}.update({ty}) at line {s.lineno}')
            return self.wrap(B, ('let', ident(x), lean_ty(self.resolve(env[x])), self.spec.dict_ops['update'].format(ident(x), t),
                                 self.block(rest, env, k)))
        if isinstance(s, ast.AugAssign) and isinstance(s.target, ast.Name):
            B = []
            e = ast.BinOp(left=ast.Name(id=s.target.id, ctx=ast.Load()), op=s.op, right=s.value)
            ast.copy_location(e, s)
            ast.fix_missing_locations(e)
            t, ty = self.expr(e, env, B)
            if is_list(ty) and ident(s.target.id) not in self.fresh_vars(env):
                raise Untranslatable(f'`{s.target.id} += …` on a list that may alias an operand, at line {s.lineno}')
            return self.wrap(B, ('let', ident(s.target.id), lean_ty(ty), t,
                                 self.block(rest, {**self.drop_const(env, [s.target.id]), s.target.id: ty}, k)))
        if isinstance(s, ast.Expr) and isinstance(s.value, ast.Call) and isinstance(s.value.func, ast.Attribute) \
                and s.value.func.attr == 'append' and isinstance(s.value.func.value, ast.Name) and len(s.value.args) == 1:
            x = s.value.func.value.id
            if x not in env or not is_list(env[x]) or env[x] == 'Np':
                raise Untranslatable(f'append to {env.get(x)} at line {s.lineno}')
            if ident(x) not in self.fresh_vars(env):
                raise Untranslatable(f'append to `{x}`, which may alias an operand, at line {s.lineno}')
            B = []
            t, ty = self.expr(s.value.args[0], env, B)
            lty, _ = self.unify_list(env[x], f'List {paren(lean_ty(ty))}')
            return self.wrap(B, ('let', ident(x), lean_ty(lty), f'({ident(x)} ++ [{t}])', self.block(rest, {**env, x: lty}, k)))
        if isinstance(s, ast.If) and isinstance(s.test, ast.BoolOp) and isinstance(s.test.op, ast.Or) \
                and self.none_test(s.test.values[0], env) is not None:
            # `if x is None or B: S else: T`  =  `if x is None: S elif B: S else: T`  (same short-circuit order; the
            # None test then narrows `x` for B)
            others = s.test.values[1:]
            second = others[0] if len(others) == 1 else ast.BoolOp(op=ast.Or(), values=list(others))
            inner = ast.If(test=second, body=s.body, orelse=s.orelse)
            outer = ast.If(test=s.test.values[0], body=s.body, orelse=[inner])
            for node in (second, inner, outer):
                ast.copy_location(node, s)
            return self.block([outer] + rest, env, k)
        if isinstance(s, ast.If) and self.sum_test(s.test, env) is not None:
            x, cls, positive = self.sum_test(s.test, env)
            pat, pty = self.spec.sums[env[x]][cls]
            b_yes, b_no = (s.body, s.orelse) if positive else (s.orelse, s.body)
            return ('matchsum', ident(x), pat.format(ident(x)),
                    self.block(list(b_yes) + rest, {**env, x: pty}, k),
                    self.block(list(b_no) + rest, env, k))
        if isinstance(s, ast.If) and self.join_ifs and getattr(self, 'no_join', None) is not s:
            node = self.try_join(s, rest, env, k)
            if node is not None:
                return node
        if isinstance(s, ast.If):
            nt = self.none_test(s.test, env)
            if nt is not None:
                x, is_none = nt
                inner = env[x][7:].strip()
                inner = inner[1:-1] if inner.startswith('(') and inner.endswith(')') else inner
                b_none, b_some = (s.body, s.orelse) if is_none else (s.orelse, s.body)
                return ('matchopt', ident(x),
                        self.block(list(b_some) + rest, {**env, x: inner, '__narrowed__': tuple(env.get('__narrowed__', ())) + (x,)}, k),
                        self.block(list(b_none) + rest, {**env, x: 'None'}, k))
            B = []
            c, cty = self.truth(*self.expr(s.test, env, B))
            if cty != 'Bool':
                raise Untranslatable(f'condition of type {cty} at line {s.lineno}')
            if c == 'true':
                return self.wrap(B, self.block(list(s.body) + rest, env, k))
            if c == 'false':
                return self.wrap(B, self.block(list(s.orelse) + rest, env, k))
            return self.wrap(B, ('if', c, self.block(list(s.body) + rest, env, k), self.block(list(s.orelse) + rest, env, k)))
        if isinstance(s, ast.For) and not s.orelse and self.enumerate_target(s, rest, env) is not None:
            # `for i, x in enumerate(v)` with the index read, `for i, (a, b) in enumerate(pairs)` (SrcEuclid): a loop over the list
            # of pairs (index, element), `Py.enumerate` of MV.Model.PyEuclid; the nested target `i, (a, b)` is the right-nested
            # Lean triple, so the names are unpacked from one tuple
            names = self.enumerate_target(s, rest, env)
            B = []
            it, ity = self.expr(s.iter.args[0], env, B)
            if not is_list(ity):
                raise Untranslatable(f'enumerate over {ity} at line {s.lineno}')
            en = self.fresh('en') + "'"          # hidden name (not a Python identifier)
            s2 = ast.For(target=ast.Tuple(elts=names, ctx=ast.Store()), iter=ast.Name(id=en, ctx=ast.Load()), body=s.body, orelse=[])
            ast.copy_location(s2, s)
            ast.fix_missing_locations(s2)
            node = self.block([s2] + rest, {**env, en: f'List (Int × {lean_ty(elem_ty(ity))})'}, k)
            return self.wrap(B, ('let', en, None, f'(Py.enumerate {it})', node))
        if isinstance(s, ast.For) and not s.orelse and isinstance(s.target, ast.Tuple) and len(s.target.elts) == 2 \
                and all(isinstance(x_, ast.Name) for x_ in s.target.elts) and isinstance(s.iter, ast.Call) \
                and isinstance(s.iter.func, ast.Name) and s.iter.func.id == 'enumerate' and 'enumerate' not in env \
                and 'enumerate' not in self.spec.builtins \
                and len(s.iter.args) == 1 and not s.iter.keywords:
            idx = s.target.elts[0].id
            if any(isinstance(x_, ast.Name) and x_.id == idx for st_ in list(s.body) + rest for x_ in ast.walk(st_)):
                raise Untranslatable(f'enumerate index `{idx}` is used, at line {s.lineno}')
            s2 = ast.For(target=s.target.elts[1], iter=s.iter.args[0], body=s.body, orelse=[])     # the index is never read
            ast.copy_location(s2, s)
            return self.block([s2] + rest, env, k)
        if isinstance(s, ast.For) and not s.orelse and isinstance(s.target, ast.Tuple) \
                and any(isinstance(x, ast.Tuple) for x in s.target.elts) \
                and all(isinstance(x, ast.Name) or (isinstance(x, ast.Tuple) and all(isinstance(y, ast.Name) for y in x.elts))
                        for x in s.target.elts):
            # SrcImport: `for i, (a, b) in e:` = `for i, ab' in e: a, b = ab'` (hidden names cannot clash)
            elts, unpacks = [], []
            for x in s.target.elts:
                if isinstance(x, ast.Name):
                    elts.append(x)
                    continue
                h = self.fresh('nt') + "'"
                elts.append(ast.Name(id=h, ctx=ast.Store()))
                u = ast.Assign(targets=[x], value=ast.Name(id=h, ctx=ast.Load()))
                u._py2lean_alias = True
                unpacks.append(u)
            s2 = ast.For(target=ast.Tuple(elts=elts, ctx=ast.Store()), iter=s.iter, body=unpacks + list(s.body), orelse=[])
            for n_ in unpacks + [s2]:
                ast.copy_location(n_, s)
                ast.fix_missing_locations(n_)
            return self.block([s2] + rest, env, k)
        if isinstance(s, ast.For) and not s.orelse and isinstance(s.target, ast.Tuple) \
                and all(isinstance(x, ast.Name) for x in s.target.elts):
            # `for a, b in pairs:` = `for it' in pairs: a, b = it'` (the hidden name cannot clash: `'` is not allowed in a Python identifier)
            it_name = self.fresh('it') + "'"
            unpack = ast.Assign(targets=[s.target], value=ast.Name(id=it_name, ctx=ast.Load()))
            unpack._py2lean_alias = True        # the components are the container's own elements, not new objects
            loop = ast.For(target=ast.Name(id=it_name, ctx=ast.Store()), iter=s.iter, body=[unpack] + list(s.body), orelse=[])
            for n_ in (unpack, loop):
                ast.copy_location(n_, s)
                ast.fix_missing_locations(n_)
            items = None
            if isinstance(s.iter, ast.Call) and isinstance(s.iter.func, ast.Attribute) and s.iter.func.attr == 'items' \
                    and not s.iter.args and isinstance(s.iter.func.value, ast.Attribute) \
                    and isinstance(s.iter.func.value.value, ast.Name):
                items = ((s.iter.func.value.value.id, s.iter.func.value.attr), s.target.elts[0].id)
            elem = self.elem_loop(s)           # SrcImport: (element variable, `owned_items` parameter) or None
            if any(x.id in (self.rebound_names(s.body) if elem and x.id == elem[0] else self.assigned_names(s.body))
                   for x in s.target.elts):
                raise Untranslatable(f'loop target re-assigned in the body at line {s.lineno}')
            if elem:
                unpack._py2lean_elem = elem
            loop._py2lean_items = items
            return self.block([loop] + rest, env, k)
        if isinstance(s, ast.For) and not s.orelse and isinstance(s.target, ast.Name):
            B = []
            it, ity = self.expr(s.iter, env, B)
            if ity in self.spec.iters:
                it, ity = self.spec.iters[ity][0].format(it), self.spec.iters[ity][1]
            if not is_list(ity):
                raise Untranslatable(f'loop over {ity} at line {s.lineno}')
            svars = [n for n in self.assigned_names(s.body) if n in env and n != s.target.id]
            items_of = getattr(s, '_py2lean_items', None)
            for nd in ast.walk(s.iter):
                if isinstance(nd, ast.Name) and items_of and nd.id == items_of[0][0]:
                    # `for k, v in x.attr.items()` (SrcConv): the body may replace the value under the key being visited and nothing
                    # else in that dict (checked at the store, `__items_loops__`), so the snapshot the fold runs over and Python's
                    # live view agree
                    continue
                if isinstance(nd, ast.Name) and nd.id in svars and not env[nd.id] in ('Int', 'Rat', 'Bool'):
                    if isinstance(s.iter, ast.ListComp) and self.resolve(env[nd.id]) in self.spec.dict_types:
                        continue      # SrcImport: `for k in [v for v in d if …]`: the comprehension is a new list, built before the loop
                    raise Untranslatable(f'the loop at line {s.lineno} changes `{nd.id}`, which it iterates over')
            has_break = any(isinstance(x, ast.Break) for st_ in s.body for x in ast.walk(st_))
            env0 = self.drop_const(env, svars + [s.target.id])
            pre = []          # promotions int -> Fraction of loop-carried variables (Python does them on the fly)
            for attempt in range(3):
                stys = [env0[n] for n in svars]
                promote = []
                promote_opt = {}      # a variable that is None before the loop and a value after the first turn

                def k_state(env_):
                    parts = []
                    for n, t0 in zip(svars, stys):
                        t1 = env_[n]
                        if is_list(t0) and is_list(t1):
                            self.unify_list(t0, t1)
                            parts.append(ident(n))
                        elif t0 == 'Int' and t1 == 'Rat':
                            promote.append(n)
                            parts.append(ident(n))
                        elif t0 == 'None' and t1 != 'None' and not t1.startswith('Option '):
                            promote_opt[n] = 'Option ' + paren(t1)
                            parts.append('none')
                        else:
                            parts.append(self.coerce(ident(n), t1, t0, f'loop variable {n}'))
                    if has_break:
                        parts = [('true' if env_.get('__break__') else 'false')] + parts
                    return ('ret', '(' + ', '.join(parts) + ')' if len(parts) != 1 else parts[0])
                self.in_loop += 1
                fr = frozenset(set(self.fresh_vars(env0)) - {ident(s.target.id)})
                saved_n = self.n
                loops = tuple(env0.get('__items_loops__', ())) + ((s._py2lean_items,) if getattr(s, '_py2lean_items', None) else ())
                try:
                    body = self.block(list(s.body), {**env0, s.target.id: elem_ty(ity), '__fresh__': fr,
                                                     **({'__items_loops__': loops} if loops else {})}, k_state)
                finally:
                    self.in_loop -= 1
                if not promote and not promote_opt:
                    break
                self.n = saved_n
                for n in sorted(set(promote)):      # sorted: the order of a set of strings changes with the hash seed of the run
                    env0[n] = 'Rat'
                    pre.append(n)
                for n, t_ in promote_opt.items():
                    env0[n] = t_
                    pre.append((n, t_))
            else:
                raise Untranslatable('loop variable types do not stabilise')
            st = self.fresh('st')
            sv = [(ident(n), t_) for n, t_ in zip(svars, stys)]
            node = ('for', st, it, lean_ty(elem_ty(ity)), ident(s.target.id), sv, body, self.block(rest, env0, k), has_break)
            for n in reversed([n for n in pre if not isinstance(n, tuple)]):
                node = ('let', ident(n), 'Rat', f'(({ident(n)} : Int) : Rat)', node)
            for n in reversed([n for n in pre if isinstance(n, tuple)]):      # the `none`s first, then the promotions (as SrcBetween wrote them)
                node = ('let', ident(n[0]), lean_ty(n[1]), 'none', node)
            return self.wrap(B, node)
        if isinstance(s, ast.While) and not s.orelse and not self.in_loop:
            return self.while_loop(s, rest, env, k)
        if isinstance(s, ast.Expr) and isinstance(s.value, ast.Call) and isinstance(s.value.func, ast.Name) \
                and s.value.func.id not in env and self.spec.funs.get(s.value.func.id, {}).get('closure') and not s.value.keywords:
            return self.closure_call(s, rest, env, k)
        if isinstance(s, ast.Try) and len(s.handlers) == 1 and not s.orelse and not s.finalbody and not self.in_loop \
                and (s.handlers[0].type is None or (isinstance(s.handlers[0].type, ast.Name) and s.handlers[0].type.id == 'Exception')) \
                and s.handlers[0].name is None:
            # `try: BODY except: HANDLER` where every path of BODY returns: an exception raised anywhere in BODY (the model's
            # `Err` values are all `Exception`s) runs HANDLER, then the rest of the block.  HANDLER must not read a name
            # that BODY (re)binds: its value at the point of the exception is not tracked.
            def no_fall(env_):
                raise Untranslatable(f'try body that can fall through at line {s.lineno}')
            body = self.block(list(s.body), env, no_fall)
            bound = set(self.assigned_names(list(s.body)))
            after = list(s.handlers[0].body) + rest
            used = {x.id for st_ in after for x in ast.walk(st_) if isinstance(x, ast.Name) and isinstance(x.ctx, ast.Load)}
            if bound & used:
                raise Untranslatable(f'except handler reads {sorted(bound & used)}, bound in the try body, at line {s.lineno}')
            return ('try', body, self.block(after, env, k))
        if isinstance(s, ast.Return):
            if self.in_loop:
                raise Untranslatable(f'return inside a loop at line {s.lineno}')
            if self.state_param is not None:
                # SrcRoman (entry key `state`): the object the method mutates is part of the result: a bare `return` gives it back,
                # `return e` gives the pair (e, object)
                st_ = self.state_param
                if s.value is None:
                    return ('ret', self.coerce_ret(ident(st_), env[st_]))
                comps = split_prod(self.ret)
                if len(comps) != 2 or lean_ty(comps[1]) != lean_ty(env[st_]):
                    raise Untranslatable(f'return of a value from a method with state {st_}: result type {self.ret}')
                B = []
                t, ty = self.expr(s.value, env, B)
                return self.wrap(B, ('ret', f'({self.coerce(t, ty, comps[0], "return")}, {ident(st_)})'))
            if s.value is None:
                return ('ret', self.coerce_ret('none', 'None'))
            B = []
            self.ret_expr = s.value
            t, ty = self.expr(s.value, env, B)
            self.ret_expr = None
            return self.wrap(B, ('ret', self.coerce_ret(t, ty)))
        if isinstance(s, ast.Raise):
            cls = 'Exception'
            if s.exc is not None:
                f = s.exc.func if isinstance(s.exc, ast.Call) else s.exc
                cls = f.id if isinstance(f, ast.Name) else 'Exception'
            return ('raise', ERRS.get(cls, 'other'))
        raise Untranslatable(f'statement {type(s).__name__} at line {s.lineno}')


def is_pure(node):
    k = node[0]
    if k in ('bind', 'raise'):
        return False
    if k == 'let':
        return is_pure(node[4])
    if k in ('if', 'matchopt'):
        return is_pure(node[2]) and is_pure(node[3])
    if k == 'matchsum':
        return is_pure(node[3]) and is_pure(node[4])
    if k == 'join':
        return is_pure(node[3]) and is_pure(node[4])
    if k == 'matchunion':
        return all(is_pure(sub) for _, sub in node[4])
    if k == 'try':
        return False
    if k == 'for':
        return is_pure(node[6]) and is_pure(node[7])
    return True


def render(node, ind, monadic):
    k = node[0]
    sp = ' ' * ind
    if k == 'let':
        ann = f' : {node[2]}' if node[2] else ''
        return [f'{sp}let {node[1]}{ann} := {node[3]}'] + render(node[4], ind, monadic)
    if k == 'bind':
        return [f'{sp}let {node[1]} ← {node[2]}'] + render(node[3], ind, monadic)
    if k == 'if':
        return [f'{sp}if {node[1]} then'] + render(node[2], ind + 2, monadic) + [f'{sp}else'] + render(node[3], ind + 2, monadic)
    if k == 'matchopt':
        return [f'{sp}match {node[1]} with', f'{sp}| some {node[1]} =>'] + render(node[2], ind + 4, monadic) + \
               [f'{sp}| none =>'] + render(node[3], ind + 4, monadic)
    if k == 'matchsum':       # SrcOrn: `if isinstance(x, C)` on a local of a declared sum type (`spec.sums`)
        return [f'{sp}match {node[1]} with', f'{sp}| {node[2]} =>'] + render(node[3], ind + 4, monadic) + \
               [f'{sp}| _ =>'] + render(node[4], ind + 4, monadic)
    if k == 'join':
        _, st, vs, inner, rest = node
        n = len(vs)
        sty = ' × '.join(paren(lean_ty(t)) if ' × ' in lean_ty(t) else lean_ty(t) for _, t in vs)
        if is_pure(inner):
            out = [f'{sp}let {st} : {sty} := ('] + render(inner, ind + 4, False) + [f'{sp}  )']
        else:
            out = [f'{sp}let {st} : {sty} ← (do'] + render(inner, ind + 4, True) + [f'{sp}  )']
        if n != 1:
            out += [f'{sp}let {v} : {lean_ty(t)} := {st}{tuple_proj(n, i)}' for i, (v, t) in enumerate(vs)]
        return out + render(rest, ind, monadic)
    if k == 'matchunion':     # SrcDurOps: a value of a `UNIONS` type is assigned; the rest of the block once per class
        out = [f'{sp}match {node[1]} with']
        for ctor, sub in node[4]:
            out += [f'{sp}| {node[2]}.{ctor} {node[3]} =>'] + render(sub, ind + 4, monadic)
        return out
    if k == 'for':
        _, st, it, xty, x, svars, body, rest = node[:8]
        has_break = len(node) > 8 and node[8]
        allv = ([('«brk»', 'Bool')] if has_break else []) + list(svars)
        n = len(allv)
        sty = ' × '.join(paren(lean_ty(t)) if ' × ' in lean_ty(t) else lean_ty(t) for _, t in allv) or 'Unit'
        inits = (['false'] if has_break else []) + [v for v, _ in svars]
        init = '(' + ', '.join(inits) + ')' if n != 1 else inits[0]
        if n == 0:
            init = '()'
        body_pure = is_pure(body)
        out = []
        extra = 2 if has_break else 0
        unpack = [f'{sp}    {" " * extra}let {v} : {lean_ty(t)} := {st}{tuple_proj(n, i)}' for i, (v, t) in enumerate(allv)
                  if v != '«brk»']
        if body_pure:
            out.append(f'{sp}let {st} : {sty} := ({it}).foldl (fun ({st} : {sty}) ({x} : {xty}) =>')
        else:
            out.append(f'{sp}let {st} : {sty} ← ({it}).foldlM (fun ({st} : {sty}) ({x} : {xty}) => do')
        if has_break:       # once `break` has run, the remaining iterations do nothing
            out.append(f'{sp}    if {st}{tuple_proj(n, 0)} then')
            out.append(f'{sp}      ' + ('' if body_pure else 'pure ') + st)
            out.append(f'{sp}    else')
        out += unpack + render(body, ind + 4 + extra, not body_pure)
        out.append(f'{sp}  ) {init}')
        out += [f'{sp}let {v} : {lean_ty(t)} := {st}{tuple_proj(n, i)}' for i, (v, t) in enumerate(allv) if v != '«brk»']
        return out + render(rest, ind, monadic)
    if k == 'try':
        return [f'{sp}tryCatch (do'] + render(node[1], ind + 4, True) + [f'{sp}  ) (fun _ => do'] + render(node[2], ind + 4, True) + [f'{sp}  )']
    if k == 'ret':
        return [f'{sp}pure {node[1]}' if monadic else f'{sp}{node[1]}']
    if k == 'raise':
        return [f'{sp}throw Err.{node[1]}']
    raise AssertionError(k)


def get_source_ast(qual):
    """'pkg.mod:func' or 'pkg.mod:Class.method' (properties are unwrapped) -> (FunctionDef, source text)"""
    modname, path = qual.split(':')
    obj = importlib.import_module(modname)
    owner = None
    for p in path.split('.'):
        owner = obj
        obj = inspect.getattr_static(obj, p) if inspect.isclass(obj) else getattr(obj, p)
    for attr in ('fget', 'func', '__func__'):
        if hasattr(obj, attr) and not inspect.isfunction(obj):
            obj = getattr(obj, attr)
    src = textwrap.dedent(inspect.getsource(obj))
    tree = ast.parse(src)
    fd = tree.body[0]
    if not isinstance(fd, ast.FunctionDef):
        raise Untranslatable(f'{qual}: not a function')
    return fd, src


def translate_function(spec, entry):
    """entry: dict(py=qualified name, name=python-level name used by callers, lean=Lean name,
    params=[(name, type)], ret=type, attr=(type, attr) optional, operator=(type, op) optional).
    Entry options (all optional; where two forks used one key for different things the reading is chosen as described):
      fixed={param: (term, type)}       parameters with a default that the tie does not vary (callers may only pass that value)
      defaults={param: (term, type)}    SrcConv: defaults of the `def` callers may leave out, checked against the source; constant
                                        defaults (None / bool / int) are read from the `def` itself (SrcBetween)
      copy={type: template}             `x.copy()` on the model's values, for this function only
      owned=[param]                     parameters the function stores into / mutates (see `_translate_function`, `FunTr.check_owned`)
      local_spec={Spec field: update}   SrcConv: bindings merged into the spec while this function is translated, then removed
      nested={name: dict(lean, params, ret)}   SrcDurOps: local (recursive) functions, emitted with a depth bound `rec_fuel`
                                        (further keys: `captures` / `mutates` SrcEuclid, `closure` SrcPvl, `plain` SrcImport: `FunTr.local_function`)
      recursive=True                    SrcConv: the function calls itself; the definition recurses on a depth bound `fuel`
      owned_items=[param]               SrcImport: list parameters whose items the function stores into through a loop variable
      list_rows=True                    SrcImport: a list display with items of several types is a row (a tuple)
      fuel=True                         the function reaches one of the two kinds of recursion: it takes the bound as first argument and
                                        passes it on (named as the first such callee names it: `rec_fuel` or `fuel`)
      state=param                       SrcRoman: an owned parameter the method mutates; the definition returns it (a method without a
                                        result: the object; `return e`: the pair (e, object)); `x.m(…)` as a statement rebinds `x`
      join_ifs, fold, typed_ops, binop, rbinop    see `FunTr`"""
    fd, src = get_source_ast(entry['py'])
    argnames = [a.arg for a in fd.args.args]
    params = entry['params']
    if entry.get('kwargs'):
        # SrcMask: the `**kwargs` parameter is a record (entry key `kwargs` = its type in `spec.kwrecords`) and the last Lean
        # parameter; named parameters of the `def` that the entry does not list are keywords read from it (`_translate_function`)
        if fd.args.kwarg is None or entry['kwargs'] not in spec.kwrecords:
            raise Untranslatable(f'{entry["py"]}: no **kwargs parameter / no record type {entry["kwargs"]}')
        listed = [p[0] for p in params]
        argnames = [a for a in argnames if a in listed or a not in spec.kwrecords[entry['kwargs']]['fields']] + [fd.args.kwarg.arg]
    if argnames != [p[0] for p in params]:
        # defaults are allowed only when the spec fixes them
        fixed = entry.get('fixed', {})
        if [a for a in argnames if a not in fixed] != [p[0] for p in params]:
            raise Untranslatable(f'{entry["py"]}: parameters {argnames}, spec {[p[0] for p in params]}')
    tr = FunTr(spec, entry['lean'], params, entry['ret'])
    tr.join_ifs = bool(entry.get('join_ifs'))
    tr.copy_template = dict(entry.get('copy', {}))
    tr.fold_literals = bool(entry.get('fold'))
    tr.list_rows = bool(entry.get('list_rows'))
    tr.typed_ops = bool(entry.get('typed_ops'))
    tr.nested = dict(entry.get('nested', {}))
    tr.has_fuel = bool(entry.get('fuel') or entry.get('recursive'))
    tr.fuel_name = 'fuel' if entry.get('recursive') else None
    if entry.get('state') is not None:
        # SrcRoman: a method that mutates its (owned) parameter `state` and returns nothing / something else: the Lean definition
        # returns the object as it is at the `return` (alone when the method returns nothing, as the second component otherwise)
        if entry['state'] not in entry.get('owned', []):
            raise Untranslatable(f'{entry["py"]}: the state parameter {entry["state"]} must be owned')
        tr.state_param = entry['state']
    if tr.has_fuel or tr.nested:
        if any(p in ('rec_fuel', 'fuel') for p in argnames):
            raise Untranslatable('a parameter named rec_fuel / fuel')
    try:
        return _translate_function(spec, entry, tr, fd, params)
    finally:
        for k_ in [k_ for k_, v_ in spec.funs.items() if v_.get('local')]:
            del spec.funs[k_]


def _translate_function(spec, entry, tr, fd, params):
    env = {p: t for p, t in params}
    argnames = [a.arg for a in fd.args.args]
    # entry key `owned`: parameters the function stores into (SrcOrn: `new_note.amp = …`) or mutates in place (SrcExt: a list it
    # appends to; SrcConv: a dict it stores into and returns).  Inside, they count as fresh; translated call sites are checked
    # (FunTr.check_owned).  For list parameters the assumption about the other callers is printed in the generated file (SrcExt);
    # SrcOrn's `accent` and SrcConv's `Chord.to_absolute_note` state it in their group files.
    owned = list(entry.get('owned', []))
    if owned:
        if any(p not in env for p in owned):
            raise Untranslatable(f'{entry["py"]}: owned parameters {owned}')
        env['__fresh__'] = frozenset(ident(p) for p in owned)
        lists = [p for p in owned if env[p].startswith('List ')]
        if lists:
            tr.assumed.append(f'the caller does not use the list `{", ".join(lists)}` after the call (the function mutates it in '
                              f'place): translated call sites are checked, other callers are assumed to pass a list of their own')
    tr.owned = set(owned)
    tr.owned_items = set(entry.get('owned_items', []))       # SrcImport: list parameters whose items the function stores into
    if any(p not in env or not env[p].startswith('List ') for p in tr.owned_items):
        raise Untranslatable(f'{entry["py"]}: owned_items {sorted(tr.owned_items)}')
    tr.fun_body = list(fd.body)
    for k, (term, ty) in entry.get('fixed', {}).items():
        env[k] = ty
        tr.consts[k] = term
    # defaults of the `def` that callers may leave out: constants are read from the source (SrcBetween), other defaults must be
    # declared in the entry and are checked against the source (SrcConv: `last_pitch=None` as an `Option Int`)
    defaults = {}
    src_defaults = dict(zip(argnames[len(argnames) - len(fd.args.defaults):], fd.args.defaults))
    for k, d in src_defaults.items():
        if isinstance(d, ast.Constant) and (d.value is None or isinstance(d.value, (bool, int))):
            defaults[k] = tr.e_Constant(d, {}, None)
    for k, (term, ty) in entry.get('defaults', {}).items():
        if k not in src_defaults:
            raise Untranslatable(f'{entry["py"]}: no default for {k} in the source')
        t_, ty_ = tr.expr(src_defaults[k], {}, None)
        pty = dict(params)[k]
        if tr.coerce(t_, ty_, pty, f'default of {k}') != term:
            raise Untranslatable(f'{entry["py"]}: default of {k} is {ast.unparse(src_defaults[k])}, spec {term}')
        defaults[k] = (term, pty)
    kwlets = []
    if entry.get('kwargs'):
        # `def f(self, x, beat=0, **kwargs)` called as `f(x, **kw)`: `beat` is `kw['beat']` when the key is there, else the default.
        # On the record the key is a field of type `Option T`: a default `None` reads the field as it is, another constant
        # default `d` reads `field.getD d` (a key that is present with the value None is not told from an absent one).
        R = spec.kwrecords[entry['kwargs']]
        kwname = fd.args.kwarg.arg
        for a_ in [a_ for a_ in argnames if a_ not in env and a_ in R['fields']]:
            d_ = src_defaults.get(a_)
            if not isinstance(d_, ast.Constant):
                raise Untranslatable(f'{entry["py"]}: keyword parameter {a_} without a constant default')
            lf, fty = R['fields'][a_]
            if d_.value is None:
                env[a_], term = fty, f'{ident(kwname)}.{lf}'
            else:
                inner = fty[7:].strip()
                inner = inner[1:-1] if inner.startswith('(') and inner.endswith(')') else inner
                dt, dty = tr.e_Constant(d_, {}, None)
                env[a_], term = inner, f'({ident(kwname)}.{lf}.getD {tr.coerce(dt, dty, inner, "default of " + a_)})'
                tr.assumed.append(f'keyword `{a_}`: absent -> the default {ast.unparse(d_)}; it is never passed as None')
            kwlets.append((a_, env[a_], term))
        if kwlets and any(isinstance(x_, ast.Name) and x_.id == kwname for st_ in fd.body for x_ in ast.walk(st_)):
            # the dict the body sees no longer holds the keywords bound to named parameters; the record still does
            raise Untranslatable(f'{entry["py"]}: uses **{kwname} and reads named keywords from it')
    if entry.get('recursive'):
        # the function calls itself: the Lean definition recurses on a fuel argument (Python: the recursion limit)
        spec.funs[entry['name']] = {'lean': entry['lean'], 'params': params, 'ret': entry['ret'], 'pure': False,
                                    'defaults': defaults, 'fuel': 'fuel'}
    # bindings that hold for this function only (merged into the spec while its body is translated, then removed)
    saved = {}
    for attr_, upd in entry.get('local_spec', {}).items():
        cur = getattr(spec, attr_)
        saved[attr_] = cur.copy() if hasattr(cur, 'copy') else cur
        if isinstance(cur, (dict, set)):
            cur.update(upd)
        else:
            setattr(spec, attr_, upd)
    try:
        k_end = None
        if tr.state_param is not None:
            k_end = lambda env_: ('ret', tr.coerce_ret(ident(tr.state_param), env_[tr.state_param])) if len(split_prod(tr.ret)) == 1 \
                else ('ret', f'({tr.coerce("none", "None", split_prod(tr.ret)[0], "return")}, {ident(tr.state_param)})')
        tree = tr.block(list(fd.body), env, k_end) if k_end is not None else tr.block(list(fd.body), env)
    finally:
        for attr_, old in saved.items():
            cur = getattr(spec, attr_)
            if isinstance(cur, (dict, set)):
                cur.clear()
                cur.update(old)
            else:
                setattr(spec, attr_, old)
        if entry.get('recursive'):
            spec.funs.pop(entry['name'], None)
    for k, (term, ty) in reversed(list(entry.get('fixed', {}).items())):
        tree = ('let', ident(k), lean_ty(ty), term, tree)
    for a_, ty_, term in reversed(kwlets):
        tree = ('let', ident(a_), lean_ty(ty_), term, tree)
    pure = is_pure(tree)
    sig = ' '.join(f'({ident(p)} : {lean_ty(t)})' for p, t in params)
    fuel_name = tr.fuel_name or 'rec_fuel'
    if tr.has_fuel:
        sig = f'({fuel_name} : Nat) ' + sig
    rt = lean_ty(entry['ret'])
    if ' ' in rt:
        rt_m = f'({rt})'
    else:
        rt_m = rt
    head = f'def {entry["lean"]} {sig} : ' + (rt if pure else f'Res {rt_m}') + ' :=' + ('' if pure else ' do')
    lines = [f'/-- `{entry["py"]}` -/', head] + render(tree, 2, not pure)
    if entry.get('recursive'):
        # structural recursion on the fuel; running out of fuel is Python's RecursionError
        pure = False
        lines = [f'/-- `{entry["py"]}` (recursive: `fuel` bounds the depth of the recursion) -/',
                 f'def {entry["lean"]} {sig} : Res {rt_m} :=', '  match fuel with',
                 '  | 0 => throw Err.other', '  | fuel + 1 => do'] + render(tree, 6, True)
    elif tr.has_fuel and fuel_name == 'fuel' and pure:
        raise Untranslatable(f'{entry["py"]}: fuel declared but nothing recursive is called')
    for ntext, sub in tr.nested_defs:
        tr.tyvars.update(sub.tyvars)
        lines = ntext.split('\n') + [''] + lines
    text = '\n'.join(lines)
    for m, v in tr.tyvars.items():
        if m in text:
            if v is None:
                raise Untranslatable('an empty list whose element type is never determined')
            text = text.replace(m, paren(lean_ty(v)))
    lines = text.split('\n')
    info = {'lean': entry['lean'], 'params': params, 'ret': entry['ret'], 'pure': pure, 'defaults': defaults}
    if owned:
        info['owned'] = tuple(owned)
    if entry.get('state') is not None:
        info['state'] = entry['state']
    if getattr(tr, 'item_stores', None):
        info['item_stores'] = tuple(sorted(tr.item_stores))     # (parameter, attribute) pairs stored through items (`FunTr.check_owned`)
    if entry.get('fixed'):
        info['fixed'] = {k_: v_[0] for k_, v_ in entry['fixed'].items()}
    if tr.has_fuel:
        info['fuel'] = fuel_name      # callers pass their own bound on (`call_fun`)
    if 'rbinop' in entry:     # a reflected operator method (`__radd__`): self is the right operand
        spec.binops[tuple(entry['rbinop'])] = ('(' + entry['lean'] + ' {1} {0})', entry['ret'] if pure else 'Res ' + entry['ret'])
    if 'binop' in entry:      # a typed instance of an operator method: (left type, ast operator, right type)
        spec.binops[tuple(entry['binop'])] = ('(' + entry['lean'] + ' {0} {1})', entry['ret'] if pure else 'Res ' + entry['ret'])
    spec.funs[entry['name']] = info
    if 'attr' in entry:
        spec.funs_by_attr[tuple(entry['attr'])] = entry['name']
    if 'operator' in entry:
        spec.operators[tuple(entry['operator'])] = entry['name']
    return '\n'.join(lines), tr.assumed, pure
