"""py2lean: a small typed translator from the AST of selected pure functions of the live library
to Lean 4 definitions ("source images", lean/MV/Gen/Src*.lean).

Purpose (DESIGN.md §9.6): a second, mechanical tie between code and model.  The hand-written
model functions are proved equal to these generated definitions (MV/Props/Tie*.lean), so a
change of the Python source changes the generated definition and the equality is re-checked
by `lake build`; independently the generated definitions are run against the real functions
(stream `src`), which validates this translator.

Admitted subset (anything else raises `Untranslatable`, and the source tie of that function is
reported as lost — never guessed):
  statements : docstring, pass, import, `x = e`, `x op= e`, if/elif/else, return, raise
  expressions: int/bool/None/str constants, names, + - * // % unary -, comparisons, and/or/not,
               `in` / `not in`, `is None` / `is not None`, conditional expressions, tuples,
               indexing and one-sided slices of lists, list comprehensions (nested generators,
               filters), calls of list / sorted / set / len / abs / range / isinstance /
               np.asarray, numpy vector-scalar arithmetic, comparisons and boolean-mask
               indexing, attribute access / method calls / constructors / global tables
               declared in the spec (bound to model functions or generated tables), calls of
               other translated functions.
Typing is by a simple flow-sensitive inference from the parameter types given in the spec; an
`if` duplicates the rest of the block into both branches, so every path is typed on its own.
Python evaluation order is kept: every sub-expression that can raise is bound (`let t ← …`)
in source order before the expression using it.
"""
import ast, inspect, textwrap, importlib


class Untranslatable(Exception):
    pass


KEYWORDS = {'at', 'from', 'end', 'open', 'fun', 'show', 'have', 'do', 'then', 'else', 'if', 'let', 'in', 'by',
            'match', 'with', 'where', 'def', 'theorem', 'namespace', 'section', 'instance', 'class', 'structure',
            'variable', 'universe', 'import', 'export', 'prefix', 'infix', 'notation', 'macro', 'syntax', 'Type',
            'Prop', 'Sort', 'return', 'for', 'unless', 'try', 'catch', 'finally', 'mut', 'break', 'continue',
            'deriving', 'extends', 'abbrev', 'axiom', 'example', 'inductive', 'calc', 'using', 'nomatch', 'local'}

ERRS = {'Exception': 'other', 'ValueError': 'value', 'KeyError': 'key', 'IndexError': 'index', 'TypeError': 'type',
        'ZeroDivisionError': 'zerodiv', 'AttributeError': 'attr', 'AssertionError': 'assertion',
        'NotImplementedError': 'other'}

LIST_TYPES = ('List Int', 'Np')


def ident(n):
    return f'«{n}»' if n in KEYWORDS else n


def lean_ty(t):
    return {'Np': 'List Int', 'NpBool': 'List Bool', 'None': 'Unit', 'Str': 'String', 'Set Int': 'List Int'}.get(t, t)


def ilit(k):
    return f'({k} : Int)'


class Spec:
    """what the translator may assume about names it does not translate itself"""

    def __init__(self, attrs=None, methods=None, ctors=None, globals_=None, subscripts=None):
        self.attrs = attrs or {}          # (type, attr) -> (template, result type)   `Res T` = may raise
        self.methods = methods or {}      # (type, method) -> (template over {0}=self,{1}.., result type)
        self.ctors = ctors or {}          # class name -> dict(fields=[(py, lean, type, default-or-None)], drop=[..], ty=..)
        self.globals = globals_ or {}     # global name -> (term, type)
        self.subscripts = subscripts or {}  # global name -> (template over {0}=key, key type, result type)
        self.funs = {}                    # python name -> dict(lean, params, ret, pure)   (filled while translating)
        self.operators = {}               # (type, '+') -> python function name in funs
        self.funs_by_attr = {}            # (type, attr) -> python function name in funs (translated properties / methods)
        self.fields = {}                  # (type, python attribute) -> (Lean field, field type): attributes that may be stored to
        self.value_types = set()          # record types with value semantics (`x.copy()` is the identity on the model's values)
        self.kinds = set()                # note type strings that exist as `Kind` constructors


class FunTr:
    def __init__(self, spec, name, params, ret, self_type=None):
        self.spec, self.name, self.params, self.ret = spec, name, params, ret
        self.n = 0
        self.assumed = []      # partial-evaluation decisions taken from the declared types
        self.fresh_terms = set()   # terms known to denote a value no other name refers to (results of copy / constructors / calls)

    def fresh(self, base='t'):
        self.n += 1
        return f'{base}_{self.n}'

    # ---------------------------------------------------------------- expressions
    def bind(self, B, term, ty):
        """`ty` may be `Res T`: bind it and return a pure name of type T"""
        if ty.startswith('Res '):
            if B is None:
                raise Untranslatable('an expression that can raise inside a pure context')
            inner = ty[4:].strip()
            if inner.startswith('(') and inner.endswith(')'):
                inner = inner[1:-1]
            t = self.fresh()
            B.append((t, term))
            return t, inner
        return term, ty

    def expr(self, e, env, B):
        m = getattr(self, 'e_' + type(e).__name__, None)
        if m is None:
            raise Untranslatable(f'expression {type(e).__name__} at line {getattr(e, "lineno", "?")}')
        return m(e, env, B)

    def e_Constant(self, e, env, B):
        v = e.value
        if v is None:
            return 'none', 'None'
        if isinstance(v, bool):
            return ('true' if v else 'false'), 'Bool'
        if isinstance(v, int):
            return ilit(v), 'Int'
        if isinstance(v, str):
            import json
            return json.dumps(v, ensure_ascii=True), 'Str'
        raise Untranslatable(f'constant {v!r}')

    def e_Name(self, e, env, B):
        if e.id in env:
            return ident(e.id), env[e.id]
        if e.id in self.spec.globals:
            return self.spec.globals[e.id]
        raise Untranslatable(f'unknown name {e.id}')

    def e_Tuple(self, e, env, B):
        parts = [self.expr(x, env, B) for x in e.elts]
        return '(' + ', '.join(p[0] for p in parts) + ')', ' × '.join(lean_ty(p[1]) for p in parts)

    def e_UnaryOp(self, e, env, B):
        t, ty = self.expr(e.operand, env, B)
        if isinstance(e.op, ast.USub) and ty == 'Int':
            return f'(-{t})', 'Int'
        if isinstance(e.op, ast.Not) and ty == 'Bool':
            if t in ('true', 'false'):
                return ('false' if t == 'true' else 'true'), 'Bool'
            return f'(!{t})', 'Bool'
        raise Untranslatable(f'unary {type(e.op).__name__} on {ty}')

    def e_BoolOp(self, e, env, B):
        op = '&&' if isinstance(e.op, ast.And) else '||'
        first, ty = self.expr(e.values[0], env, B)
        if ty != 'Bool':
            raise Untranslatable('and/or on non-bool')
        terms = [first]
        for v in e.values[1:]:
            Bi = []
            t, ty = self.expr(v, env, Bi)
            if Bi:
                raise Untranslatable('short-circuit operand that can raise')
            if ty != 'Bool':
                raise Untranslatable('and/or on non-bool')
            terms.append(t)
        return '(' + f' {op} '.join(terms) + ')', 'Bool'

    def e_IfExp(self, e, env, B):
        c, cty = self.expr(e.test, env, B)
        Ba, Bb = [], []
        a, aty = self.expr(e.body, env, Ba)
        b, bty = self.expr(e.orelse, env, Bb)
        if Ba or Bb or cty != 'Bool' or aty != bty:
            raise Untranslatable('conditional expression')
        return f'(if {c} then {a} else {b})', aty

    def posint(self, e):
        return isinstance(e, ast.Constant) and isinstance(e.value, int) and not isinstance(e.value, bool) and e.value > 0

    def e_BinOp(self, e, env, B):
        a, aty = self.expr(e.left, env, B)
        b, bty = self.expr(e.right, env, B)
        op = type(e.op).__name__
        if aty == 'Bool' and bty == 'Int':
            a, aty = f'(Py.b2i {a})', 'Int'
        if bty == 'Bool' and aty == 'Int':
            b, bty = f'(Py.b2i {b})', 'Int'
        if aty == 'Int' and bty == 'Int':
            if op in ('Add', 'Sub', 'Mult'):
                return f'({a} {dict(Add="+", Sub="-", Mult="*")[op]} {b})', 'Int'
            if op in ('FloorDiv', 'Mod'):
                if self.posint(e.right):
                    return f'({a} {"/" if op == "FloorDiv" else "%"} {b})', 'Int'
                return self.bind(B, f'Py.{"floordiv" if op == "FloorDiv" else "mod"} {a} {b}', 'Res Int')
        if 'Rat' in (aty, bty) and {aty, bty} <= {'Rat', 'Int'} and op in ('Add', 'Sub', 'Mult'):
            a = a if aty == 'Rat' else f'(({a} : Int) : Rat)'
            b = b if bty == 'Rat' else f'(({b} : Int) : Rat)'
            return f'({a} {dict(Add="+", Sub="-", Mult="*")[op]} {b})', 'Rat'
        if aty == 'Np' and bty == 'Int' and op in ('Add', 'Sub', 'Mult'):
            v = self.fresh('v')
            return f'({a}.map (fun ({v} : Int) => {v} {dict(Add="+", Sub="-", Mult="*")[op]} {b}))', 'Np'
        if aty == 'List Int' and bty == 'List Int' and op == 'Add':
            return f'({a} ++ {b})', 'List Int'
        if (aty, op) in self.spec.operators and bty == aty:
            return self.call_fun(self.spec.operators[(aty, op)], [(a, aty), (b, bty)], B)
        raise Untranslatable(f'{aty} {op} {bty} at line {e.lineno}')

    CMP = {'Eq': '=', 'NotEq': '≠', 'Lt': '<', 'LtE': '≤', 'Gt': '>', 'GtE': '≥'}

    def e_Compare(self, e, env, B):
        if len(e.ops) != 1:
            raise Untranslatable('comparison chain')
        op = type(e.ops[0]).__name__
        right = e.comparators[0]
        if op in ('Is', 'IsNot') and isinstance(right, ast.Constant) and right.value is None:
            a, aty = self.expr(e.left, env, B)
            if aty == 'None':
                r = 'true'
            elif aty.startswith('Option '):
                r = f'{a}.isNone'
            else:
                self.assumed.append(f'line {e.lineno}: `{ast.unparse(e.left)}` of type {aty} is never None')
                r = 'false'
            if op == 'IsNot':
                r = {'true': 'false', 'false': 'true'}.get(r, f'(!{r})')
            return r, 'Bool'
        a, aty = self.expr(e.left, env, B)
        if aty == 'Kind' and op in ('In', 'NotIn') and isinstance(right, (ast.List, ast.Tuple)) and \
                all(isinstance(x, ast.Constant) and isinstance(x.value, str) for x in right.elts):
            ks = [x.value for x in right.elts if x.value in self.spec.kinds]
            dropped = [x.value for x in right.elts if x.value not in self.spec.kinds]
            if dropped:
                self.assumed.append(f'line {e.lineno}: note types {dropped} do not exist in the model (17 library types)')
            r = '([' + ', '.join(f'Kind.{k}' for k in ks) + f'] : List Kind).contains {a}'
            return (f'({r})' if op == 'In' else f'(!({r}))'), 'Bool'
        if aty == 'Kind' and op in ('Eq', 'NotEq') and isinstance(right, ast.Constant) and isinstance(right.value, str):
            if right.value in self.spec.kinds:
                return f'(decide ({a} {self.CMP[op]} Kind.{right.value}))', 'Bool'
            self.assumed.append(f'line {e.lineno}: note type {right.value!r} does not exist in the model')
            return ('false' if op == 'Eq' else 'true'), 'Bool'
        b, bty = self.expr(right, env, B)
        if op in ('In', 'NotIn'):
            if aty == 'Int' and bty in LIST_TYPES + ('Set Int',):
                r = f'(Py.isIn {a} {b})'
                return (r if op == 'In' else f'(!{r})'), 'Bool'
            raise Untranslatable(f'{aty} in {bty}')
        if op not in self.CMP:
            raise Untranslatable(f'comparison {op}')
        if aty == 'Int' and bty == 'Int':
            return f'(decide ({a} {self.CMP[op]} {b}))', 'Bool'
        if aty == 'Np' and bty == 'Int':
            v = self.fresh('v')
            return f'({a}.map (fun ({v} : Int) => decide ({v} {self.CMP[op]} {b})))', 'NpBool'
        if aty == bty and aty in ('Mode', 'Str', 'Bool', 'Option Mode', 'Option Acc', 'Kind', 'Rat') and op in ('Eq', 'NotEq'):
            return f'(decide ({a} {self.CMP[op]} {b}))', 'Bool'
        raise Untranslatable(f'{aty} {op} {bty} at line {e.lineno}')

    def e_Subscript(self, e, env, B):
        if isinstance(e.value, ast.Name) and e.value.id not in env and e.value.id in self.spec.subscripts:
            tmpl, kty, rty = self.spec.subscripts[e.value.id]
            k, ty = self.expr(e.slice, env, B)
            if lean_ty(ty) != kty:
                raise Untranslatable(f'key of {e.value.id}: {ty}, expected {kty}')
            return self.bind(B, tmpl.format(k), rty)
        v, vty = self.expr(e.value, env, B)
        if isinstance(e.slice, ast.Slice):
            s = e.slice
            if s.step is not None or vty != 'List Int' or (s.lower is None) == (s.upper is None):
                raise Untranslatable('slice form')
            if s.lower is not None:
                i, ity = self.expr(s.lower, env, B)
                fn = 'sliceFrom'
            else:
                i, ity = self.expr(s.upper, env, B)
                fn = 'sliceTo'
            if ity != 'Int':
                raise Untranslatable('slice bound')
            return f'(Py.{fn} {v} {i})', 'List Int'
        i, ity = self.expr(e.slice, env, B)
        if vty in LIST_TYPES and ity == 'Int':
            return self.bind(B, f'pyIndex {v} {i}', 'Res Int')
        if vty == 'Np' and ity == 'NpBool':
            return f'(Py.npMask {v} {i})', 'Np'
        raise Untranslatable(f'{vty}[{ity}] at line {e.lineno}')

    def e_Attribute(self, e, env, B):
        v, vty = self.expr(e.value, env, B)
        key = (vty, e.attr)
        if key in self.spec.attrs:
            tmpl, rty = self.spec.attrs[key]
            return self.bind(B, tmpl.format(v), rty)
        if (vty, e.attr) in self.spec.funs_by_attr:
            return self.call_fun(self.spec.funs_by_attr[(vty, e.attr)], [(v, vty)], B)
        raise Untranslatable(f'attribute {vty}.{e.attr} at line {e.lineno}')

    def call_fun(self, pyname, args, B):
        f = self.spec.funs[pyname]
        if len(args) != len(f['params']):
            raise Untranslatable(f'arity of {pyname}')
        for (t, ty), (pn, pty) in zip(args, f['params']):
            if lean_ty(ty) != lean_ty(pty):
                raise Untranslatable(f'argument {pn} of {pyname}: {ty}, expected {pty}')
        term = f'{f["lean"]} ' + ' '.join(a[0] if a[0].startswith('(') or a[0].isidentifier() else f'({a[0]})' for a in args)
        if f['pure']:
            return f'({term})', f['ret']
        return self.bind(B, term, 'Res ' + f['ret'])

    def e_Call(self, e, env, B):
        fn = e.func
        if e.keywords and not (isinstance(fn, ast.Name) and (fn.id in self.spec.ctors or fn.id in self.spec.funs)) \
                and not isinstance(fn, ast.Attribute):
            raise Untranslatable('keyword arguments')
        if isinstance(fn, ast.Name):
            n = fn.id
            if n in ('list',) and len(e.args) == 1:
                t, ty = self.expr(e.args[0], env, B)
                if ty not in LIST_TYPES:
                    raise Untranslatable(f'list({ty})')
                return t, 'List Int'
            if n == 'sorted' and len(e.args) == 1:
                a = e.args[0]
                if isinstance(a, ast.Call) and isinstance(a.func, ast.Name) and a.func.id == 'set' and len(a.args) == 1:
                    t, ty = self.expr(a.args[0], env, B)
                    if ty not in LIST_TYPES:
                        raise Untranslatable('set of non-int-list')
                    return f'(sortedDedup {t})', 'List Int'
                t, ty = self.expr(a, env, B)
                if ty not in LIST_TYPES:
                    raise Untranslatable(f'sorted({ty})')
                return f'(sortInts {t})', 'List Int'
            if n in ('frozenset', 'set') and len(e.args) == 1:
                t, ty = self.expr(e.args[0], env, B)
                if ty not in LIST_TYPES + ('Set Int',):
                    raise Untranslatable(f'{n}({ty})')
                return t, 'Set Int'
            if n == 'len' and len(e.args) == 1:
                t, ty = self.expr(e.args[0], env, B)
                if ty not in LIST_TYPES:
                    raise Untranslatable(f'len({ty})')
                return f'(Py.len {t})', 'Int'
            if n == 'abs' and len(e.args) == 1:
                t, ty = self.expr(e.args[0], env, B)
                if ty != 'Int':
                    raise Untranslatable('abs of non-int')
                return f'(Py.abs {t})', 'Int'
            if n == 'range' and len(e.args) in (1, 2):
                xs = [self.expr(a, env, B) for a in e.args]
                if any(x[1] != 'Int' for x in xs):
                    raise Untranslatable('range of non-int')
                lo, hi = (ilit(0), xs[0][0]) if len(xs) == 1 else (xs[0][0], xs[1][0])
                return f'(Py.range {lo} {hi})', 'List Int'
            if n == 'isinstance' and len(e.args) == 2:
                t, ty = self.expr(e.args[0], env, B)
                cls = ast.unparse(e.args[1])
                self.assumed.append(f'line {e.lineno}: isinstance({ast.unparse(e.args[0])}, {cls}) with declared type {ty}')
                return ('true' if ty == cls else 'false'), 'Bool'
            if n in self.spec.ctors:
                return self.ctor(n, e, env, B)
            if n in self.spec.funs:
                args = [self.expr(a, env, B) for a in e.args]
                if e.keywords:
                    pn = [p[0] for p in self.spec.funs[n]['params']][len(args):]
                    kw = {k.arg: k.value for k in e.keywords}
                    if set(kw) != set(pn):
                        raise Untranslatable(f'keyword arguments of {n}')
                    args += [self.expr(kw[p], env, B) for p in pn]
                return self.call_fun(n, args, B)
            raise Untranslatable(f'call of {n}')
        if isinstance(fn, ast.Attribute):
            if isinstance(fn.value, ast.Name) and fn.value.id == 'np' and fn.attr in ('asarray', 'array') and len(e.args) == 1:
                t, ty = self.expr(e.args[0], env, B)
                if ty not in LIST_TYPES:
                    raise Untranslatable('np.asarray of non-int-list')
                return t, 'Np'
            v, vty = self.expr(fn.value, env, B)
            if fn.attr == 'copy' and vty in self.spec.value_types and not e.args:
                if B is None:
                    raise Untranslatable('copy inside a pure context')
                t = self.fresh('cp')
                self.fresh_terms.add(t)
                B.append((t, ('pure', v)))
                return t, vty
            if fn.attr == 'index' and vty in LIST_TYPES and len(e.args) == 1:
                x, xty = self.expr(e.args[0], env, B)
                if xty != 'Int':
                    raise Untranslatable('list.index of non-int')
                return self.bind(B, f'Py.index {v} {x}', 'Res Int')
            args = [self.expr(a, env, B) for a in e.args]
            key = (vty, fn.attr)
            if key in self.spec.funs_by_attr and e.keywords:
                f = self.spec.funs[self.spec.funs_by_attr[key]]
                pn = [p[0] for p in f['params']][1 + len(args):]
                kw = {k.arg: k.value for k in e.keywords}
                if set(kw) != set(pn):
                    raise Untranslatable(f'keyword arguments of {fn.attr}')
                args += [self.expr(kw[p], env, B) for p in pn]
            if e.keywords and key not in self.spec.funs_by_attr:
                raise Untranslatable('keyword arguments')
            if key in self.spec.methods:
                tmpl, rty = self.spec.methods[key]
                return self.bind(B, tmpl.format(v, *[a[0] for a in args]), rty)
            if key in self.spec.funs_by_attr:
                return self.call_fun(self.spec.funs_by_attr[key], [(v, vty)] + args, B)
            raise Untranslatable(f'method {vty}.{fn.attr} at line {e.lineno}')
        raise Untranslatable('call form')

    def ctor(self, n, e, env, B):
        c = self.spec.ctors[n]
        given = {}
        names = [f[0] for f in c['fields']] + list(c.get('drop', []))
        order = c.get('order', names)
        for i, a in enumerate(e.args):
            given[order[i]] = a
        for kw in e.keywords:
            given[kw.arg] = kw.value
        parts = []
        for py, lean, ty, default in c['fields']:
            if py in given:
                t, tty = self.expr(given[py], env, B)
                if ty == 'Rat' and tty == 'Int':
                    t, tty = f'(({t} : Int) : Rat)', 'Rat'
                if ty == 'Kind' and tty == 'Str':
                    t, tty = self.bind(B, f'Py.kindOfStr {t}', 'Res Kind')
                if lean_ty(tty) != ty:
                    raise Untranslatable(f'{n}({py}=…): {tty}, expected {ty}')
            elif default is not None:
                t = default
            else:
                raise Untranslatable(f'{n}: missing {py}')
            parts.append(f'{lean} := {t}')
        for k in given:
            if k not in names:
                raise Untranslatable(f'{n}: unknown argument {k}')
        return '({ ' + ', '.join(parts) + ' } : ' + c['ty'] + ')', c['ty']

    def e_ListComp(self, e, env, B):
        gens = e.generators
        env2 = dict(env)
        iters = []
        for g in gens:
            if not isinstance(g.target, ast.Name) or g.is_async:
                raise Untranslatable('comprehension target')
            # the first iterable is evaluated in the enclosing scope and may raise; the others are per element
            it, ity = self.expr(g.iter, env2, B if g is gens[0] else None)
            if ity not in LIST_TYPES:
                raise Untranslatable(f'iteration over {ity}')
            env2[g.target.id] = 'Int'
            conds = []
            for c in g.ifs:
                ct, cty = self.expr(c, env2, None)
                if cty != 'Bool':
                    raise Untranslatable('comprehension filter')
                conds.append(ct)
            iters.append((ident(g.target.id), it, conds))
        Be = []
        elt, ety = self.expr(e.elt, env2, Be)
        if ety != 'Int':
            raise Untranslatable(f'list of {ety}')
        if Be and all(isinstance(m, tuple) for _, m in Be):
            raise Untranslatable('copy inside a comprehension')
        if Be:
            if len(iters) != 1:
                raise Untranslatable('raising element in a nested comprehension')
            x, it, conds = iters[0]
            src = it
            for c in conds:
                src = f'({src}.filter (fun ({x} : Int) => {c}))'
            body = ' '.join((f'let {n} := {m[1]};' if isinstance(m, tuple) else f'let {n} ← {m};') for n, m in Be) + f' pure {elt}'
            return self.bind(B, f'{src}.mapM (fun ({x} : Int) => do {body})', 'Res (List Int)')
        term = None
        for x, it, conds in reversed(iters):
            src = it
            for c in conds:
                src = f'({src}.filter (fun ({x} : Int) => {c}))'
            if term is None:
                term = src if elt == x else f'({src}.map (fun ({x} : Int) => {elt}))'
            else:
                term = f'({src}.flatMap (fun ({x} : Int) => {term}))'
        return term, 'List Int'

    def e_SetComp(self, e, env, B):
        l = ast.ListComp(elt=e.elt, generators=e.generators)
        ast.copy_location(l, e)
        t, ty = self.e_ListComp(l, env, B)
        return t, 'Set Int'       # only ever used for membership tests

    # ---------------------------------------------------------------- statements
    def coerce_ret(self, t, ty):
        r = self.ret
        if lean_ty(ty) == lean_ty(r):
            return t
        if r.startswith('Option '):
            if ty == 'None':
                return 'none'
            if lean_ty(ty) == r[7:]:
                return f'(some {t})'
        raise Untranslatable(f'return of {ty}, declared {r}')

    def is_fresh_value(self, v):
        """constructor calls and results of translated functions denote new objects"""
        if isinstance(v, ast.Call):
            f = v.func
            if isinstance(f, ast.Name) and (f.id in self.spec.ctors or f.id in self.spec.funs):
                return True
            if isinstance(f, ast.Attribute) and f.attr == 'copy':
                return True
        return False

    def fresh_vars(self, env):
        return env.get('__fresh__', frozenset())

    def wrap(self, B, node):
        for n, m in reversed(B):
            if isinstance(m, tuple) and m[0] == 'pure':
                node = ('let', n, None, m[1], node)
            else:
                node = ('bind', n, m, node)
        return node

    def block(self, body, env):
        if not body:
            return ('ret', self.coerce_ret('none', 'None'))
        s, rest = body[0], body[1:]
        if isinstance(s, (ast.Pass, ast.Import, ast.ImportFrom)) or \
                (isinstance(s, ast.Expr) and isinstance(s.value, ast.Constant) and isinstance(s.value.value, str)):
            return self.block(rest, env)
        if isinstance(s, ast.Assign) and len(s.targets) == 1 and isinstance(s.targets[0], ast.Name):
            B = []
            t, ty = self.expr(s.value, env, B)
            name = s.targets[0].id
            if ty == 'None':
                t = '()'
            fr = set(self.fresh_vars(env)) - {ident(name)}
            if t in self.fresh_terms or self.is_fresh_value(s.value):
                fr.add(ident(name))
            return self.wrap(B, ('let', ident(name), lean_ty(ty), t,
                                 self.block(rest, {**env, name: ty, '__fresh__': frozenset(fr)})))
        if isinstance(s, (ast.Assign, ast.AugAssign)):
            tgt = s.targets[0] if isinstance(s, ast.Assign) and len(s.targets) == 1 else getattr(s, 'target', None)
            if isinstance(tgt, ast.Attribute) and isinstance(tgt.value, ast.Name) and tgt.value.id in env:
                x = tgt.value.id
                xty = env[x]
                if (xty, tgt.attr) not in self.spec.fields:
                    raise Untranslatable(f'store to {xty}.{tgt.attr} at line {s.lineno}')
                if ident(x) not in self.fresh_vars(env):
                    raise Untranslatable(f'store through `{x}`, which may alias an operand, at line {s.lineno}')
                field, fty = self.spec.fields[(xty, tgt.attr)]
                B = []
                if isinstance(s, ast.AugAssign):
                    v = ast.BinOp(left=ast.Attribute(value=ast.Name(id=x, ctx=ast.Load()), attr=tgt.attr, ctx=ast.Load()),
                                  op=s.op, right=s.value)
                    ast.copy_location(v, s)
                    ast.fix_missing_locations(v)
                else:
                    v = s.value
                t, ty = self.expr(v, env, B)
                if fty == 'Rat' and ty == 'Int':
                    t, ty = f'(({t} : Int) : Rat)', 'Rat'
                if lean_ty(ty) != fty:
                    raise Untranslatable(f'store of {ty} to {xty}.{tgt.attr} ({fty})')
                return self.wrap(B, ('let', ident(x), lean_ty(xty), '{ ' + ident(x) + f' with {field} := {t} }}', self.block(rest, env)))
        if isinstance(s, ast.AugAssign) and isinstance(s.target, ast.Name):
            B = []
            e = ast.BinOp(left=ast.Name(id=s.target.id, ctx=ast.Load()), op=s.op, right=s.value)
            ast.copy_location(e, s)
            ast.fix_missing_locations(e)
            t, ty = self.expr(e, env, B)
            return self.wrap(B, ('let', ident(s.target.id), lean_ty(ty), t, self.block(rest, {**env, s.target.id: ty})))
        if isinstance(s, ast.If):
            B = []
            c, cty = self.expr(s.test, env, B)
            if cty != 'Bool':
                raise Untranslatable(f'condition of type {cty} at line {s.lineno}')
            if c == 'true':
                return self.wrap(B, self.block(list(s.body) + rest, env))
            if c == 'false':
                return self.wrap(B, self.block(list(s.orelse) + rest, env))
            return self.wrap(B, ('if', c, self.block(list(s.body) + rest, env), self.block(list(s.orelse) + rest, env)))
        if isinstance(s, ast.Return):
            if s.value is None:
                return ('ret', self.coerce_ret('none', 'None'))
            B = []
            t, ty = self.expr(s.value, env, B)
            return self.wrap(B, ('ret', self.coerce_ret(t, ty)))
        if isinstance(s, ast.Raise):
            cls = 'Exception'
            if s.exc is not None:
                f = s.exc.func if isinstance(s.exc, ast.Call) else s.exc
                cls = f.id if isinstance(f, ast.Name) else 'Exception'
            return ('raise', ERRS.get(cls, 'other'))
        raise Untranslatable(f'statement {type(s).__name__} at line {s.lineno}')


def is_pure(node):
    k = node[0]
    if k in ('bind', 'raise'):
        return False
    if k == 'let':
        return is_pure(node[4])
    if k == 'if':
        return is_pure(node[2]) and is_pure(node[3])
    return True


def render(node, ind, monadic):
    k = node[0]
    sp = ' ' * ind
    if k == 'let':
        ann = f' : {node[2]}' if node[2] else ''
        return [f'{sp}let {node[1]}{ann} := {node[3]}'] + render(node[4], ind, monadic)
    if k == 'bind':
        return [f'{sp}let {node[1]} ← {node[2]}'] + render(node[3], ind, monadic)
    if k == 'if':
        return [f'{sp}if {node[1]} then'] + render(node[2], ind + 2, monadic) + [f'{sp}else'] + render(node[3], ind + 2, monadic)
    if k == 'ret':
        return [f'{sp}pure {node[1]}' if monadic else f'{sp}{node[1]}']
    if k == 'raise':
        return [f'{sp}throw Err.{node[1]}']
    raise AssertionError(k)


def get_source_ast(qual):
    """'pkg.mod:func' or 'pkg.mod:Class.method' (properties are unwrapped) -> (FunctionDef, source text)"""
    modname, path = qual.split(':')
    obj = importlib.import_module(modname)
    owner = None
    for p in path.split('.'):
        owner = obj
        obj = inspect.getattr_static(obj, p) if inspect.isclass(obj) else getattr(obj, p)
    for attr in ('fget', 'func', '__func__'):
        if hasattr(obj, attr) and not inspect.isfunction(obj):
            obj = getattr(obj, attr)
    src = textwrap.dedent(inspect.getsource(obj))
    tree = ast.parse(src)
    fd = tree.body[0]
    if not isinstance(fd, ast.FunctionDef):
        raise Untranslatable(f'{qual}: not a function')
    return fd, src


def translate_function(spec, entry):
    """entry: dict(py=qualified name, name=python-level name used by callers, lean=Lean name,
    params=[(name, type)], ret=type, attr=(type, attr) optional, operator=(type, op) optional)"""
    fd, src = get_source_ast(entry['py'])
    argnames = [a.arg for a in fd.args.args]
    params = entry['params']
    if argnames != [p[0] for p in params]:
        # defaults are allowed only when the spec fixes them
        fixed = entry.get('fixed', {})
        if [a for a in argnames if a not in fixed] != [p[0] for p in params]:
            raise Untranslatable(f'{entry["py"]}: parameters {argnames}, spec {[p[0] for p in params]}')
    tr = FunTr(spec, entry['lean'], params, entry['ret'])
    env = {p: t for p, t in params}
    for k, (term, ty) in entry.get('fixed', {}).items():
        env[k] = ty
    tree = tr.block(list(fd.body), env)
    for k, (term, ty) in reversed(list(entry.get('fixed', {}).items())):
        tree = ('let', ident(k), lean_ty(ty), term, tree)
    pure = is_pure(tree)
    sig = ' '.join(f'({ident(p)} : {lean_ty(t)})' for p, t in params)
    rt = lean_ty(entry['ret'])
    if ' ' in rt:
        rt_m = f'({rt})'
    else:
        rt_m = rt
    head = f'def {entry["lean"]} {sig} : ' + (rt if pure else f'Res {rt_m}') + ' :=' + ('' if pure else ' do')
    lines = [f'/-- `{entry["py"]}` -/', head] + render(tree, 2, not pure)
    info = {'lean': entry['lean'], 'params': params, 'ret': entry['ret'], 'pure': pure}
    spec.funs[entry['name']] = info
    if 'attr' in entry:
        spec.funs_by_attr[tuple(entry['attr'])] = entry['name']
    if 'operator' in entry:
        spec.operators[tuple(entry['operator'])] = entry['name']
    return '\n'.join(lines), tr.assumed, pure
