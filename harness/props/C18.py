"""C18 — transformers change exactly what their mask selects and keep structure.

Everything that travels between generator, oracle, replay file and Lean driver is a JSON-able
*spec*:
  element : ['n', type, val, oct, [num, den], mode, acc, [amp_num, amp_den], [tags], tempo, pedal]
            ['m', [tags], [note…]]   ['tc', [elem, ext, deg, mode, toct, coct], [tags], [[part, melody]…]]
            ['ts', [tags], [chord…]]
  mask    : an expression over the PUBLIC api: ['base'] ['bool', b] ['lvl', L] ['gt', L, E] ['and', E…]
            ['or', E…] ['inv', E] (= ~E) ['notm', E] (hand-built NotMask) ['eval', E] (Mask.eval(str(E)))
            ['has', tags] ['hasal', tags] ['BeatIn', qs] … ['TonalityDegreeIn', ds] ['idxin', is] ['cidxin', is]
            ['raw', cls, args…] (hand-built leaf classes) ['NoteIn'|'ChordIn'|'TonalityIn', …] (oracle only)
  transformer : ['T', level, action, filter, pre]
"""
import sys
sys.dont_write_bytecode = True
import json
from fractions import Fraction
import core, gen
from core import sx, SX, py_res, enc_note, enc_chord, frac_str

ID = 'C18'
LEAN_MODULES = ['MV.Props.C18']
LEAN_HELPERS = ['MV.Lemmas.Transform', 'MV.Lemmas.TransformLib', 'MV.Model.Transform', 'MV.Model.Pitch', 'MV.Model.Rel', 'MV.Model.Basic',
                'MV.Model.Types']
DRIVERS = ['C18']
GEN = ['Tables', 'Library']
SRC_TIE = ['SrcMask']   # py2lean source images of the mask classes (__call__ / child / __invert__ / > & |), of apply_on_melody / apply_on_chord / apply_on_score and of the __call__ of the transformer families, proved equal to the model (MV/Props/TieSrcMask.lean)
RULE = ('random scores / chords / melodies / notes (tags on every level, rests, continuations, all note systems, '
        'tempo / pedal marks) x random mask expressions (depth <= 4; every public constructor, &, |, ~, >, Mask.And/Or, '
        'Mask.eval text; plus hand-built NotMask / unguarded atoms) x user-defined (tag, context-recording, deleting) '
        'and library transformers of the three levels, their *FilterTransform and *MaskFilter variants x pipelines of '
        '1-3 steps; a case is non-trivial when the mask selects some but not all elements or the transformer is a '
        'library one; distinct = distinct request line')
TRUSTED = ['model of mask.py / base_transformer.py / transformer.py / pipeline.py / note,melody/basics.py is hand-written '
           '(MV/Model/Transform.lean) and tied to the code by the streams mask-struct, mask-call, mask-child, apply, pipeline',
           'Note / Melody / Chord / Score are modelled as values: copy, add_tag, +, duration, Chord.__call__ only as far '
           'as the dispatcher uses them (aliasing is C06)']
ASSUMPTIONS = ['part names are in the normal form name__k produced by Chord.__call__ and are not drum parts',
               'rests / continuations are Silence / Continuation instances',
               'the theorems about selection are for masks whose unguarded positions hold only TypeGuard > m, Bool, '
               'Mask(), And, Or (what the public constructors and & | ~ build from guarded atoms); hand-built NotMask(Gt), '
               'bare TypeMasks and unguarded atoms are covered by the correspondence streams only',
               'Score.config (tempo, time signature) and Melody.nb_bars are reset by every transformer; the property '
               'is read as being about the musical elements and their tags, not about these two attributes',
               'NoteIn / ChordIn / TonalityIn (set membership through hash(repr)) are opaque atoms: oracle only']

LEVELS = ['score', 'chord', 'melody', 'note']
TAGS = ['a', 'b', 'c']
PARTS = ['piano__0', 'violin__0', 'cello__0', 'flute__1']
ALLKINDS = gen.NONREL + gen.REL + ['d', 'x']

# =============================================================================== elements


def F(q):
    return Fraction(q[0], q[1])


def build_note(j):
    from musiclang import Note, Silence, Continuation
    _, t, v, o, d, mode, acc, amp, tags, tempo, pedal = j
    if t == 'r':
        return Silence(F(d), tags=set(tags), tempo=tempo, pedal=pedal)
    if t == 'l':
        return Continuation(F(d), tags=set(tags), tempo=tempo, pedal=pedal)
    a = F(amp)
    a = int(a) if a.denominator == 1 else float(a)
    return Note(t, v, o, F(d), mode=mode, accident=acc, amp=a, tags=set(tags), tempo=tempo, pedal=pedal)


def build_melody(j):
    from musiclang import Melody
    return Melody([build_note(n) for n in j[2]], tags=set(j[1]))


def build_chord(j):
    from musiclang import Chord, Tonality
    elem, ext, deg, mode, toct, coct = j[1]
    return Chord(elem, extension=ext, tonality=Tonality(deg, mode, toct), octave=coct,
                 score={p: build_melody(m) for p, m in j[3]}, tags=set(j[2]))


def build_score(j):
    from musiclang import Score
    return Score([build_chord(c) for c in j[2]], tags=set(j[1]))


def build_elem(j):
    return {'n': build_note, 'm': build_melody, 'tc': build_chord, 'ts': build_score}[j[0]](j)


def q2(q):
    q = Fraction(q)
    return [q.numerator, q.denominator]


def amp2(a):
    if isinstance(a, float):
        return list(a.as_integer_ratio())
    return q2(a)


def spec_of(x):
    """real object -> element spec (every observable field)"""
    from musiclang import Note, Melody, Chord, Score
    if isinstance(x, Note):
        return ['n', x.type, int(x.val), int(x.octave), q2(x.duration), x.mode, x.accident, amp2(x.amp),
                sorted(x.tags), x.tempo, x.pedal]
    if isinstance(x, Melody):
        return ['m', sorted(x.tags), [spec_of(n) for n in x.notes]]
    if isinstance(x, Chord):
        t = x.tonality
        return ['tc', [int(x.element), x.extension, int(t.degree), t.mode, int(t.octave), int(x.octave)],
                sorted(x.tags), [[p, spec_of(m)] for p, m in x.score.items()]]
    if isinstance(x, Score):
        return ['ts', sorted(x.tags), [spec_of(c) for c in x.chords]]
    if x is None:
        return None
    raise TypeError(f'not an element: {type(x)}')


def enc_spec(j):
    """element spec -> the driver's text (same text the driver prints for its results)"""
    if j is None:
        return 'None'
    k = j[0]
    if k == 'n':
        _, t, v, o, d, mode, acc, amp, tags, tempo, pedal = j
        return sx('n', t, v, o, F(d), mode, acc, F(amp), sorted(tags), tempo, pedal)
    if k == 'm':
        return sx('m', sorted(j[1]), [SX(enc_spec(n)) for n in j[2]])
    if k == 'tc':
        elem, ext, deg, mode, toct, coct = j[1]
        base = sx('c', elem, core.enc_ext(ext), SX(sx('t', deg, mode, toct)), coct, [])
        return sx('tc', SX(base), sorted(j[2]), [[p, SX(enc_spec(m))] for p, m in j[3]])
    if k == 'ts':
        return sx('ts', sorted(j[1]), [SX(enc_spec(c)) for c in j[2]])
    raise TypeError(k)


def show_elem(x):
    return enc_spec(spec_of(x))

# =============================================================================== masks


def level_of(x):
    from musiclang import Note, Melody, Chord, Score
    for cls, name in ((Score, 'score'), (Chord, 'chord'), (Melody, 'melody'), (Note, 'note')):
        if isinstance(x, cls):
            return name
    return None


PUBLIC = {  # public guarded constructors: name -> (Mask classmethod, arg kind)
    'BeatIn': 'q', 'BeatPlayingIn': 'q', 'DurationIn': 'q', 'BeatBetween': 'ab', 'DurationBetween': 'ab',
    'InstrumentIn': 's', 'ChordBeatIn': 'q', 'ChordBeatPlayingIn': 'q', 'ChordDurationIn': 'q',
    'ChordBeatBetween': 'ab', 'ChordDurationBetween': 'ab', 'ModeIn': 's', 'ChordDegreeIn': 'i',
    'ChordExtensionIn': 's', 'TonalityDegreeIn': 'i', 'OriginateFrom': 's'}


def _args(kind, args):
    if kind == 'q':
        return [[F(q) for q in args[0]]]
    if kind == 'ab':
        return [F(args[0]), F(args[1])]
    return [list(args[0])]


def _idx_func(name, values):
    vals = set(values)
    if name == 'idxin':
        def f(x, idx=None, **k):
            return idx in vals
    else:
        def f(x, chord_idx=None, **k):
            return chord_idx in vals
    return f


def build_mask(e):
    """mask expression -> real mask object (public api only, except 'notm' / 'raw')"""
    from musiclang.transform import Mask
    import musiclang.transform.mask as M
    k = e[0]
    if k == 'base':
        return Mask()
    if k == 'bool':
        return Mask.Bool(bool(e[1]))
    if k == 'lvl':
        return {'score': Mask.Score, 'chord': Mask.Chord, 'melody': Mask.Melody, 'note': Mask.Note}[e[1]]()
    if k == 'gt':
        return build_mask(['lvl', e[1]]) > build_mask(e[2])
    if k in ('and', 'or'):
        ts = [build_mask(t) for t in e[1:]]
        if len(ts) == 2:
            return (ts[0] & ts[1]) if k == 'and' else (ts[0] | ts[1])
        return Mask.And(ts) if k == 'and' else Mask.Or(ts)
    if k == 'inv':
        return ~build_mask(e[1])
    if k == 'notm':
        return M.NotMask(build_mask(e[1]))
    if k == 'eval':
        return Mask.eval(str(build_mask(e[1])))
    if k == 'has':
        return Mask.Has(list(e[1]))
    if k == 'hasal':
        return Mask.HasAtLeast(list(e[1]))
    if k in ('idxin', 'cidxin'):
        m = Mask.Func(_idx_func(k, e[1]))
        m._c18 = (k, sorted(e[1]))
        return m
    if k in PUBLIC:
        return getattr(Mask, k)(*_args(PUBLIC[k], e[1:]))
    if k == 'raw':
        cls = {'beatin': M.BeatInMask, 'beatbetween': M.BeatBetweenMask, 'instr': M.InstrumentsMask,
               'cbeatin': M.ChordBeatInMask, 'cbeatbetween': M.ChordBeatBetweenMask}[e[1]]
        kind = {'beatin': 'q', 'beatbetween': 'ab', 'instr': 's', 'cbeatin': 'q', 'cbeatbetween': 'ab'}[e[1]]
        return cls(*_args(kind, e[2:]))
    if k == 'NoteIn':
        return Mask.NoteIn([build_note(n) for n in e[1]], ignore_octave=bool(e[2]), ignore_rythm=bool(e[3]))
    if k == 'ChordIn':
        return Mask.ChordIn([build_chord(c) for c in e[1]], ignore_octave=bool(e[2]))
    if k == 'TonalityIn':
        from musiclang import Tonality
        return Mask.TonalityIn([Tonality(*t) for t in e[1]], ignore_octave=bool(e[2]))
    raise ValueError(f'unknown mask expression {e!r}')


def _qs(xs):
    return sorted(Fraction(x) for x in xs)


def struct(m):
    """real mask object -> the driver's structural text, by introspection of the object graph"""
    import musiclang.transform.mask as M
    c = type(m)
    if c is M.Mask:
        return sx('base')
    if c is M.AndMask:
        return sx('and', *[SX(struct(t)) for t in m.terms])
    if c is M.OrMask:
        return sx('or', *[SX(struct(t)) for t in m.terms])
    if c is M.NotMask:
        return sx('notm', SX(struct(m.other)))
    if c is M.GtMask:
        return sx('gt', SX(struct(m.terms[0])), SX(struct(m.terms[1])))
    if c is M.BoolMask:
        return sx('bool', bool(m.bool))
    if c in (M.ScoreMask, M.ChordMask, M.MelodyMask, M.NoteMask):
        return sx('lvl', {M.ScoreMask: 'score', M.ChordMask: 'chord', M.MelodyMask: 'melody', M.NoteMask: 'note'}[c])
    if c is M.HasMask:
        return sx('has', sorted(m.tags))
    if c is M.HasAtLeastMask:
        return sx('hasal', sorted(m.tags))
    if c is M.FuncMask and hasattr(m, '_c18'):
        return sx(m._c18[0], sorted(m._c18[1]))
    simple = {M.BeatInMask: ('beatin', 'beats'), M.BeatPlayingInMask: ('beatplaying', 'beats'),
              M.DurationInMask: ('durin', 'durations'), M.ChordBeatInMask: ('cbeatin', 'beats'),
              M.ChordBeatPlayingInMask: ('cbeatplaying', 'beats'), M.ChordDurationInMask: ('cdurin', 'durations')}
    if c in simple:
        name, attr = simple[c]
        return sx(name, _qs(getattr(m, attr)))
    between = {M.DurationBetweenMask: 'durbetween', M.BeatBetweenMask: 'beatbetween',
               M.ChordDurationBetweenMask: 'cdurbetween', M.ChordBeatBetweenMask: 'cbeatbetween'}
    if c in between:
        return sx(between[c], Fraction(m.start), Fraction(m.end))
    if c is M.InstrumentsMask:
        return sx('instr', sorted(m.instruments))
    if c is M.ModeInMask:
        return sx('modein', sorted(m.modes))
    if c is M.ChordDegreeInMask:
        return sx('degin', sorted(int(d) for d in m.degrees))
    if c is M.ChordExtensionInMask:
        return sx('extin', sorted(m.extensions))
    if c is M.TonalityDegreeInMask:
        return sx('tondegin', sorted(int(d) for d in m.degrees))
    raise Opaque(c.__name__)


class Opaque(Exception):
    """a mask class the Lean model does not have (NoteIn / ChordIn / TonalityIn / foreign FuncMask)"""


def mask_sx(e):
    """mask expression -> request text: `inv` stays an operator (the model computes ~), everything the public
    constructors expand to is sent as the structure of the REAL object"""
    k = e[0]
    if k == 'inv':
        return sx('inv', SX(mask_sx(e[1])))
    if k == 'gt':
        return sx('gt', SX(sx('lvl', e[1])), SX(mask_sx(e[2])))
    if k in ('and', 'or'):
        return sx(k, *[SX(mask_sx(t)) for t in e[1:]])
    if k == 'notm':
        return sx('notm', SX(mask_sx(e[1])))
    return struct(build_mask(e))      # leaves, public constructors, eval round trip

# =============================================================================== transformers


def ctx_text(k):
    def fr(x):
        return '-' if x is None else frac_str(x)
    ln, ch, lc = k.get('last_note'), k.get('chord'), k.get('last_chord')
    return ':'.join(['-' if k.get('idx') is None else str(k['idx']), fr(k.get('beat')),
                     '-' if ln is None else f'{ln.type}{ln.val}',
                     '-' if k.get('instrument') is None else k['instrument'],
                     '-' if ch is None else str(ch.element),
                     '-' if k.get('chord_idx') is None else str(k['chord_idx']), fr(k.get('chord_beat')),
                     '-' if lc is None else str(lc.element)])


def user_action(act):
    kind = act[0]

    def action(self, x, **k):
        if kind == 'tag':
            return x.add_tag(act[1])
        if kind == 'ctx':
            return x.add_tag(ctx_text(k))
        if kind == 'del':
            return None
        if kind == 'id':
            return x
        raise ValueError(kind)
    return action


_CLASSES = {}


def user_class(level, filt, act):
    import musiclang.transform as T
    base = {('note', 0): T.NoteTransformer, ('note', 1): T.NoteFilterTransform,
            ('melody', 0): T.MelodyTransformer, ('melody', 1): T.MelodyFilterTransform,
            ('chord', 0): T.ChordTransformer, ('chord', 1): T.ChordFilterTransform}[(level, filt)]
    key = (level, filt, json.dumps(act))
    if key not in _CLASSES:
        _CLASSES[key] = type(f'U{level.capitalize()}{"F" if filt else ""}_{act[0]}', (base,),
                             {'action': user_action(act), '__init__': lambda self: None})
    return _CLASSES[key]()


def build_T(t):
    """transformer spec -> real transformer (construction errors propagate)"""
    import musiclang.transform as TR
    from musiclang.transform import library as L
    _, level, act, filt, pre = t
    if pre is not None:
        cls = {'note': TR.MaskFilter, 'melody': TR.MelodyMaskFilter, 'chord': TR.ChordMaskFilter}[level]
        return cls(build_mask(pre))
    k = act[0]
    if level == 'note':
        if k == 'td':
            return L.TransposeDiatonic(act[1], keep_mode=bool(act[2]), keep_accident=bool(act[3]))
        if k == 'tc':
            return L.TransposeChromatic(act[1])
        if k == 'lr':
            return L.LimitRegister(build_note(act[1]), build_note(act[2]))
        if k == 'sil':
            return L.ApplySilence()
        if k == 'cont':
            return L.ApplyContinuation()
    if level == 'melody':
        if k == 'rev':
            return L.ReverseMelody()
        if k == 'circ':
            return L.CircularPermutationMelody(act[1])
        if k == 'invm':
            return L.InvertMelody()
    return user_class(level, filt, act)


def T_sx(t):
    _, level, act, filt, pre = t
    a = list(act)
    if a[0] == 'lr':
        a = ['lr', SX(enc_spec(a[1])), SX(enc_spec(a[2]))]
    return sx('T', level, a, filt, '-' if pre is None else SX(mask_sx(pre)))


def is_library(t):
    return t[2][0] in ('td', 'tc', 'lr', 'sil', 'cont', 'rev', 'circ', 'invm')

# =============================================================================== generators


def g_tags(rng, p=0.35):
    return sorted({rng.choice(TAGS) for _ in range(rng.randint(1, 2))}) if rng.random() < p else []


def g_dur(rng):
    if rng.random() < 0.75:
        return q2(rng.choice([Fraction(1), Fraction(1, 2), Fraction(2), Fraction(1, 4), Fraction(3, 2), Fraction(1, 3)]))
    return q2(gen.rand_duration(rng))


def g_note(rng, kinds=None):
    x = rng.random()
    tempo = rng.choice([60, 90, 140]) if rng.random() < 0.08 else None
    pedal = rng.choice([True, False]) if rng.random() < 0.08 else None
    d = g_dur(rng)
    if x < 0.14:
        return ['n', 'r', 0, 0, d, None, None, [66, 1], g_tags(rng), tempo, pedal]
    if x < 0.26:
        return ['n', 'l', 0, 0, d, None, None, [66, 1], g_tags(rng), tempo, pedal]
    k = rng.choice(kinds or (gen.NONREL * 3 + gen.REL + ['d', 'x']))
    v = rng.randint(0, 11) if k in ('h', 'a', 'd', 'x') or k[0] == 'h' else rng.randint(-3, 9)
    if k == 'h' and rng.random() < 0.1:
        v = rng.choice([-1, 12, 13])
    o = rng.randint(-2, 2)
    mode = rng.choice(gen.MODES) if k in ('s', 'h') and rng.random() < 0.12 else None
    acc = None
    if k == 's' and rng.random() < 0.12:
        acc, v = rng.choice(gen.ACCS), rng.randrange(7)
    amp = [66, 1]
    if rng.random() < 0.3:
        amp = amp2(120 * rng.choice([0.16, 0.26, 0.36, 0.5, 0.65, 0.8, 0.9, 0.95]))
    return ['n', k, v, o, d, mode, acc, amp, g_tags(rng), tempo, pedal]


def g_melody(rng, n=(0, 5), kinds=None):
    lo, hi = n
    k = rng.randint(max(lo, 1), hi) if rng.random() < 0.93 else lo
    return ['m', g_tags(rng), [g_note(rng, kinds) for _ in range(k)]]


def g_chord(rng, parts=(1, 3), kinds=None, plain=True):
    c, text = gen.rand_chord(rng, ext=(rng.choice(gen.PLAIN_INVERTIBLE) if plain or rng.random() < 0.7 else None),
                             octaves=(-1, 1), max_mods=2)
    names = rng.sample(PARTS, rng.randint(*parts)) if parts[1] > 0 else []
    if rng.random() < 0.5:
        names.sort()
    return ['tc', [int(c.element), c.extension, int(c.tonality.degree), c.tonality.mode, int(c.tonality.octave),
                   int(c.octave)], g_tags(rng, 0.5), [[p, g_melody(rng, kinds=kinds)] for p in names]]


def g_score(rng, n=(1, 4), kinds=None):
    k = 0 if rng.random() < 0.02 else rng.randint(*n)
    return ['ts', g_tags(rng, 0.4), [g_chord(rng, kinds=kinds, parts=((0, 3) if rng.random() < 0.05 else (1, 3)))
                                     for _ in range(k)]]


def g_elem(rng, kind=None, kinds=None):
    kind = kind or rng.choice(['ts'] * 5 + ['tc'] * 3 + ['m', 'n'])
    return {'ts': g_score, 'tc': g_chord, 'm': g_melody, 'n': g_note}[kind](rng, kinds=kinds) \
        if kind != 'n' else g_note(rng, kinds)


def g_qs(rng, pool=None):
    # dyadic and non-dyadic positions (triplet / quintuplet onsets are where an inexact comparison of beats shows: seed C18-4)
    pool = pool or [0, 1, 2, 3, Fraction(1, 2), Fraction(3, 2), Fraction(5, 2), 4, Fraction(1, 4),
                    Fraction(1, 3), Fraction(2, 3), Fraction(4, 3), Fraction(5, 3), Fraction(1, 6), Fraction(2, 5)]
    return [q2(x) for x in rng.sample(pool, rng.randint(1, 3))]


def g_ab(rng):
    a = rng.choice([0, Fraction(1, 2), 1, 2])
    return q2(a), q2(a + rng.choice([Fraction(1, 2), 1, 2, 3]))


def g_atom(rng, level=None):
    """a guarded atom, written with the public constructors"""
    level = level or rng.choice(['score', 'chord', 'chord', 'melody', 'melody', 'note', 'note', 'note'])

    def flat():
        x = rng.random()
        if x < 0.55:
            return ['has', g_tags(rng, 1.0)]
        if x < 0.8:
            return ['hasal', g_tags(rng, 1.0)]
        if x < 0.9:
            return [rng.choice(['and', 'or']), ['has', g_tags(rng, 1.0)], ['hasal', g_tags(rng, 1.0)]]
        return ['bool', rng.random() < 0.5]
    x = rng.random()
    if level == 'score' or x < 0.35:
        return ['gt', level, flat()]
    if level == 'chord':
        k = rng.choice(['ChordBeatIn', 'ChordBeatPlayingIn', 'ChordDurationIn', 'ChordBeatBetween',
                        'ChordDurationBetween', 'ModeIn', 'ChordDegreeIn', 'ChordExtensionIn', 'TonalityDegreeIn',
                        'OriginateFrom', 'cidx'])
        if k == 'cidx':
            return ['gt', 'chord', ['cidxin', rng.sample(range(4), rng.randint(1, 2))]]
        if k in ('ChordBeatBetween', 'ChordDurationBetween'):
            return [k, *g_ab(rng)]
        if k == 'ModeIn':
            return [k, rng.sample(gen.MODES, rng.randint(1, 4))]
        if k == 'ChordDegreeIn':
            return [k, rng.sample(range(7), rng.randint(1, 4))]
        if k == 'TonalityDegreeIn':
            return [k, rng.sample(range(12), rng.randint(1, 6))]
        if k == 'ChordExtensionIn':
            return [k, rng.sample(gen.PLAIN_INVERTIBLE, rng.randint(1, 4))]
        if k == 'OriginateFrom':
            return [k, rng.sample(['s1', 's2', 's3'], rng.randint(1, 2))]
        return [k, g_qs(rng)]
    if level == 'melody':
        return ['InstrumentIn', rng.sample(PARTS, rng.randint(1, 2))]
    k = rng.choice(['BeatIn', 'BeatPlayingIn', 'DurationIn', 'BeatBetween', 'DurationBetween', 'idx'])
    if k == 'idx':
        return ['gt', 'note', ['idxin', rng.sample(range(5), rng.randint(1, 3))]]
    if k in ('BeatBetween', 'DurationBetween'):
        return [k, *g_ab(rng)]
    return [k, g_qs(rng)]


def g_mask(rng, depth=3, guarded=True):
    """mask expression; with guarded=True only what the theorems quantify over (+ inv / eval / base / bool)"""
    x = rng.random()
    if depth == 0 or x < 0.3:
        y = rng.random()
        if y < 0.06:
            return ['bool', rng.random() < 0.5]
        if y < 0.09:
            return ['base']
        if not guarded and y < 0.35:
            z = rng.random()
            if z < 0.4:
                return ['has', g_tags(rng, 1.0)]
            if z < 0.6:
                return ['notm', g_atom(rng)]
            if z < 0.7:
                return ['lvl', rng.choice(LEVELS)]
            if z < 0.8:
                return ['raw', 'instr', rng.sample(PARTS, 2)]
            # (the chord-level leaf classes name their first parameter `chord`: unguarded they raise TypeError below
            #  chord level, where the dispatcher passes chord=…; they are not sent unguarded)
            if z < 0.9:
                return ['raw', 'beatin', g_qs(rng)]
            return ['raw', 'beatbetween', *g_ab(rng)]
        return g_atom(rng)
    if x < 0.55:
        return ['and'] + [g_mask(rng, depth - 1, guarded) for _ in range(2 if rng.random() < 0.8 else 3)]
    if x < 0.83:
        return ['or'] + [g_mask(rng, depth - 1, guarded) for _ in range(2 if rng.random() < 0.8 else 3)]
    if x < 0.95:
        return ['inv', g_mask(rng, depth - 1, guarded)]
    e = g_evalable(rng, depth - 1)
    return ['eval', e]


def g_evalable(rng, depth):
    """expressions whose repr Mask.eval can read back (has / has_at_least / instruments / type guards / & | ~)"""
    x = rng.random()
    if depth == 0 or x < 0.4:
        lv = rng.choice(['score', 'chord', 'melody', 'note'])
        y = rng.random()
        if y < 0.5:
            return ['gt', lv, ['has', g_tags(rng, 1.0)]]
        if y < 0.75:
            return ['gt', lv, ['hasal', g_tags(rng, 1.0)]]
        if y < 0.9:
            return ['InstrumentIn', rng.sample(PARTS, rng.randint(1, 2))]
        return ['bool', rng.random() < 0.5]
    if x < 0.65:
        return ['and', g_evalable(rng, depth - 1), g_evalable(rng, depth - 1)]
    if x < 0.9:
        return ['or', g_evalable(rng, depth - 1), g_evalable(rng, depth - 1)]
    return ['inv', g_evalable(rng, depth - 1)]


def g_T(rng, level=None, library=None):
    level = level or rng.choice(['note', 'note', 'melody', 'chord'])
    library = (rng.random() < 0.35) if library is None else library
    if library and level != 'chord':
        if level == 'note':
            k = rng.choice(['td', 'td', 'tc', 'lr', 'sil', 'cont'])
            if k == 'td':
                return ['T', 'note', ['td', rng.randint(-9, 9), int(rng.random() < 0.7), int(rng.random() < 0.4)], 0, None]
            if k == 'tc':
                return ['T', 'note', ['tc', rng.randint(-14, 14)], 0, None]
            if k == 'lr':
                lo = ['n', rng.choice('ssh'), rng.randint(0, 6), rng.randint(-2, 0), [1, 1], None, None, [66, 1], [], None, None]
                hi = ['n', rng.choice('ssh'), rng.randint(0, 6), rng.randint(0, 2), [1, 1], None, None, [66, 1], [], None, None]
                if rng.random() < 0.05:
                    hi[1] = rng.choice(['c', 'r', 'su'])
                return ['T', 'note', ['lr', lo, hi], 0, None]
            return ['T', 'note', [k], 0, None]
        k = rng.choice(['rev', 'circ', 'invm'])
        return ['T', 'melody', [k] if k != 'circ' else ['circ', rng.randint(-4, 6)], 0, None]
    x = rng.random()
    if x < 0.12:
        return ['T', level, ['id'], 1, g_mask(rng, 2)]                 # *MaskFilter(on)
    filt = int(rng.random() < 0.25)
    act = rng.choice([['tag', 'X'], ['tag', 'X'], ['ctx'], ['ctx'], ['del']])
    return ['T', level, act, filt, None]


def mask_shape(e):
    """bucket / signature key of a mask expression: which guard levels it mentions and the connectives"""
    lv, ops = set(), set()

    def walk(e):
        k = e[0]
        if k == 'gt':
            lv.add(e[1])
            return
        if k in ('and', 'or', 'inv', 'notm', 'eval'):
            ops.add(k)
            for t in e[1:]:
                if isinstance(t, list):
                    walk(t)
            return
        if k in ('InstrumentIn',):
            lv.add('melody')
        elif k in PUBLIC:
            lv.add('chord' if k.startswith(('Chord', 'Mode', 'Tonality', 'Originate')) else 'note')
        elif k in ('NoteIn',):
            lv.add('note')
        elif k in ('ChordIn', 'TonalityIn'):
            lv.add('chord')
        elif k in ('has', 'hasal', 'raw', 'lvl', 'idxin', 'cidxin'):
            ops.add('unguarded')
    walk(e)
    return 'guards=' + '+'.join(l for l in LEVELS if l in lv) + ';ops=' + '+'.join(sorted(ops))

# =============================================================================== correspondence


def kw_sx(kw):
    return sx('k', kw.get('chord_beat'), kw.get('chord_idx'), kw.get('instrument'), kw.get('beat'), kw.get('idx'))


def g_kwargs(rng):
    kw = {}
    if rng.random() < 0.6:
        kw['chord_beat'] = rng.choice([0, 1, Fraction(3, 2), 2, 4, Fraction(4, 3), Fraction(2, 3), Fraction(7, 5)])
    if rng.random() < 0.6:
        kw['chord_idx'] = rng.randint(0, 3)
    if rng.random() < 0.6:
        kw['instrument'] = rng.choice(PARTS)
    if rng.random() < 0.6:
        kw['beat'] = rng.choice([0, Fraction(1, 2), 1, Fraction(3, 2), 2, 3, Fraction(1, 3), Fraction(2, 3), Fraction(4, 3),
                                 Fraction(1, 6), Fraction(2, 5)])    # non-dyadic positions too (seed C18-4)
    if rng.random() < 0.6:
        kw['idx'] = rng.randint(0, 4)
    return kw


def apply_case(t, m, el, stream_bucket=()):
    def run():
        T = build_T(t)
        return T(build_elem(el), on=build_mask(m))
    impl = py_res(run, show_elem)
    line = sx('apply', SX(T_sx(t)), SX(mask_sx(m)), SX(enc_spec(el)))
    return {'line': line, 'impl': impl, 'input': {'T': t, 'mask': m, 'elem': el},
            'bucket': [f'level={t[1]}', f'act={t[2][0]}', f'filter={t[3]}', 'pre' if t[4] else 'nopre',
                       f'on={el[0]}', mask_shape(m), 'err' if impl.startswith('ERR') else 'ok', *stream_bucket],
            'nontrivial': impl != enc_spec(el)}


def pipe_case(kind, steps, el):
    def run():
        from musiclang.transform import TransformPipeline, ConcatPipeline
        cls = TransformPipeline if kind == 'tpipe' else ConcatPipeline
        data = [(name, build_T(t)) if m is None else (name, build_T(t), build_mask(m)) for name, t, m in steps]
        return cls(data)(build_elem(el))
    import logging
    logging.disable(logging.CRITICAL)
    try:
        impl = py_res(run, show_elem)
    finally:
        logging.disable(logging.NOTSET)
    line = sx(kind, [[name, SX(T_sx(t)), SX(mask_sx(m if m is not None else ['base']))] for name, t, m in steps],
              SX(enc_spec(el)))
    return {'line': line, 'impl': impl, 'input': {'kind': kind, 'steps': steps, 'elem': el},
            'bucket': [kind, f'steps={len(steps)}', f'on={el[0]}', 'err' if impl.startswith('ERR') else 'ok'],
            'nontrivial': impl != enc_spec(el)}


def g_steps(rng, chordless=False):
    steps = []
    for i in range(rng.randint(1, 3)):
        t = g_T(rng, level=(rng.choice(['note', 'melody']) if chordless else None))
        m = g_mask(rng, 2) if rng.random() < 0.6 else None
        steps.append([f's{i + 1}', t, m])
    return steps


WITNESSES = None


def witnesses():
    """§6 witnesses (D10, D13 at its three levels, the rests under TransposeChromatic / LimitRegister, the tempo of a
    continuation, a score without chords / a filter that keeps none), as (T, mask, element) specs"""
    global WITNESSES
    if WITNESSES is not None:
        return WITNESSES

    def n(t, v=0, o=0, d=(1, 1), tags=(), tempo=None):
        return ['n', t, v, o, list(d), None, None, [66, 1], list(tags), tempo, None]
    mel = ['m', [], [n('s', 0), n('r'), n('l'), n('s', 1), n('c', 1), n('a', 3), n('su', 1)]]
    ch = lambda tags, parts: ['tc', [0, '', 0, 'M', 0, 0], list(tags), parts]
    sc = ['ts', [], [ch(['a'], [['piano__0', ['m', [], [n('s', 0), n('s', 1, tags=['b'])]]],
                                ['violin__0', ['m', [], [n('s', 2), n('s', 3, tags=['b'])]]]]),
                     ['tc', [4, '', 0, 'M', 0, 0], [], [['piano__0', ['m', [], [n('s', 2), n('s', 3, tags=['b'])]]]]]]]
    tag = lambda lv: ['T', lv, ['tag', 'X'], 0, None]
    W = [
        (['T', 'note', ['td', 1, 1, 0], 0, None], ['base'], mel),
        (['T', 'note', ['tc', 1], 0, None], ['base'], ch([], [['piano__0', mel]])),
        (['T', 'note', ['lr', n('s', 0, -1), n('s', 0, 1)], 0, None], ['base'], mel),
        (tag('note'), ['or', ['InstrumentIn', ['violin__0']], ['gt', 'note', ['has', ['b']]]], sc),
        (tag('note'), ['or', ['InstrumentIn', ['violin__0']], ['gt', 'note', ['has', ['b']]]], sc[2][0]),
        (tag('melody'), ['or', ['gt', 'chord', ['has', ['a']]], ['InstrumentIn', ['violin__0']]], sc),
        (tag('chord'), ['or', ['gt', 'score', ['has', ['z']]], ['gt', 'chord', ['has', ['a']]]], sc),
        (tag('note'), ['gt', 'note', ['has', ['zz']]], ['m', [], [n('s', 0), n('l', tempo=100), n('r', tempo=90)]]),
        (tag('note'), ['inv', ['and', ['gt', 'chord', ['has', ['a']]], ['gt', 'note', ['has', ['b']]]]], sc),
        (tag('note'), ['base'], ['ts', ['t'], []]),
        (['T', 'chord', ['tag', 'X'], 1, None], ['gt', 'chord', ['has', ['absent']]], sc),
    ]
    WITNESSES = W
    return W


def correspondence(ctx):
    rng = ctx.rng
    # ---- mask structure: the operators (&, |, ~, >, And, Or, eval) build what the model's constructors / invert build
    cases = []
    for _ in range(ctx.n(400, 5000)):
        e = g_mask(rng, rng.randint(1, 4), guarded=rng.random() < 0.6)
        try:
            impl = struct(build_mask(e))
        except Opaque:
            continue
        cases.append({'line': sx('maskstruct', SX(mask_sx(e))), 'impl': impl, 'input': {'mask': e},
                      'bucket': ['struct', mask_shape(e)], 'nontrivial': 'inv' in json.dumps(e) or 'eval' in json.dumps(e)})
    ctx.compare('mask-struct', 'C18', cases)
    # ---- mask call / child on single elements with explicit keyword arguments
    cases = []
    for _ in range(ctx.n(800, 10000)):
        guarded = rng.random() < 0.5
        e = g_mask(rng, rng.randint(0, 3), guarded=guarded)
        el = g_elem(rng)
        kw = g_kwargs(rng)
        obj, m = build_elem(el), build_mask(e)
        cases.append({'line': sx('maskcall', SX(mask_sx(e)), SX(enc_spec(el)), SX(kw_sx(kw))),
                      'impl': py_res(lambda: m(obj, **kw), lambda b: '1' if b else '0'),
                      'input': {'mask': e, 'elem': el, 'kwargs': {k: str(v) for k, v in kw.items()}},
                      'bucket': ['call', f'on={el[0]}', 'guarded' if guarded else 'handbuilt', mask_shape(e)]})
        cases.append({'line': sx('maskchild', SX(mask_sx(e)), SX(enc_spec(el)), SX(kw_sx(kw))),
                      'impl': py_res(lambda: m.child(obj, **kw), struct),
                      'input': {'mask': e, 'elem': el, 'kwargs': {k: str(v) for k, v in kw.items()}},
                      'bucket': ['child', f'on={el[0]}', 'guarded' if guarded else 'handbuilt']})
    ctx.compare('mask-call', 'C18', cases)
    # ---- dispatch
    cases = [apply_case(t, m, el, ['witness']) for t, m, el in witnesses()]
    for _ in range(ctx.n(1500, 16000)):
        t = g_T(rng)
        x = rng.random()
        m = ['base'] if x < 0.15 else g_mask(rng, rng.randint(1, 4), guarded=x < 0.8)
        kind = None
        if t[1] == 'chord' and rng.random() < 0.9:
            kind = rng.choice(['ts', 'ts', 'ts', 'tc'])
        el = g_elem(rng, kind=kind)
        cases.append(apply_case(t, m, el))
    ctx.compare('apply', 'C18', cases)
    # ---- pipelines
    cases = []
    for _ in range(ctx.n(350, 4000)):
        kind = rng.choice(['tpipe', 'cpipe'])
        el = g_elem(rng, kind=rng.choice(['ts', 'ts', 'ts', 'tc', 'm']))
        cases.append(pipe_case(kind, g_steps(rng, chordless=el[0] != 'ts'), el))
    ctx.compare('pipeline', 'C18', cases)
    # ---- source tie: the real method of each mask class / each apply_on_* against the model and against its source image
    import srctie
    srctie.run(ctx, SRC_TIE, quick=1000, thorough=16000)     # two kernels: (call, child, ~ > & |) x 27 mask classes; three apply_on_* and the __call__ of the transformer classes

# =============================================================================== oracle: the property itself


class Unsupported(Exception):
    """the mask is outside what the property's selection semantics is defined for"""


def spec_eval(m, path):
    """`selected mask path`: the mask read as a formula in which each guarded atom is evaluated at the ancestor of
    its guard's type (with that level's keyword arguments); a guard whose level is not on the path is vacuous.
    Works on the REAL mask object, atoms are called as black boxes."""
    import musiclang.transform.mask as M
    c = type(m)
    if c is M.Mask:
        return True
    if c is M.BoolMask:
        return bool(m.bool)
    if c is M.AndMask:
        return all([spec_eval(t, path) for t in m.terms])
    if c is M.OrMask:
        return any([spec_eval(t, path) for t in m.terms])
    if c is M.GtMask and isinstance(m.terms[0], M.TypeMask):
        lv = {M.ScoreMask: 'score', M.ChordMask: 'chord', M.MelodyMask: 'melody', M.NoteMask: 'note'}[type(m.terms[0])]
        if lv not in path:
            return True
        el, kw = path[lv]
        return bool(m.terms[1](el, **kw))
    raise Unsupported(c.__name__)


def norm(j):
    """what is observable of an element spec: a rest / continuation has no value, octave, mode, accident or
    amplitude (Silence.copy / Continuation.copy rebuild them from duration, tags, tempo, pedal only)"""
    if j is None or isinstance(j, str):
        return j
    if j[0] == 'n':
        if j[1] in ('r', 'l'):
            return ['n', j[1], 0, 0, j[4], None, None, [66, 1], j[8], j[9], j[10]]
        return j
    if j[0] == 'm':
        return ['m', j[1], [norm(n) for n in j[2]]]
    if j[0] == 'tc':
        return ['tc', j[1], j[2], [[p, norm(m)] for p, m in j[3]]]
    return ['ts', j[1], [norm(c) for c in j[2]]]


def same(a, b):
    return json.dumps(norm(a), sort_keys=True) == json.dumps(norm(b), sort_keys=True)


def copy_spec(j):
    """the spec of an unchanged element"""
    return j


def expected_apply(T, level, filt, mask, x):
    """The property: apply `T.action` to exactly the level-elements the mask selects (hierarchically: an element is
    entered only if the mask, read up to its level, holds), keep everything else as it is, same structure and type.
    Returns an element spec (or None)."""
    from musiclang import Note, Melody, Chord, Score

    def act(el, kw):
        r = T.action(el, **kw)
        return None if r is None else spec_of(r)

    def dflt(el):
        return None if filt else spec_of(el)

    def on_melody(mel, path, kw):
        notes, beat, last = [], 0, None
        for i, n in enumerate(mel.notes):
            k = dict(kw, beat=beat, idx=i, last_note=last)
            r = act(n, k) if spec_eval(mask, dict(path, note=(n, k))) else dflt(n)
            if r is not None:
                notes.append(r)
            beat += n.duration
            last = n
        return ['m', sorted(mel.tags), notes]

    def on_chord(ch, path, kw):
        parts = []
        for p, mel in ch.score.items():
            k = dict(kw, chord=ch, instrument=p)
            pth = dict(path, melody=(mel, k))
            if spec_eval(mask, pth):
                r = act(mel, k) if level == 'melody' else on_melody(mel, pth, k)
            else:
                r = dflt(mel)
            if r is not None:
                parts.append([p, r])
        j = spec_of(ch)
        return ['tc', j[1], j[2], parts]

    def on_score(sc, path, kw):
        chords, beat, last = [], 0, None
        for i, ch in enumerate(sc.chords):
            k = dict(kw, chord_beat=beat, chord_idx=i, last_chord=last)
            pth = dict(path, chord=(ch, k))
            if spec_eval(mask, pth):
                r = act(ch, k) if level == 'chord' else on_chord(ch, pth, k)
            else:
                r = dflt(ch)
            if r is not None:
                chords.append(r)
            beat += ch.duration
            last = ch
        return ['ts', sorted(sc.tags), chords]       # (possibly without chords: an empty score)

    if isinstance(x, Score):
        return on_score(x, {'score': (x, {})}, {})
    if isinstance(x, Chord):
        if level == 'chord':
            raise Unsupported('chord transformer on a chord: the mask has no inner element to select')
        return on_chord(x, {'chord': (x, {})}, {})
    if isinstance(x, Melody):
        if level != 'note':
            raise Unsupported('no inner element')
        return on_melody(x, {'melody': (x, {})}, {})
    raise Unsupported('no inner element')


def check_dispatch(inp):
    """oracle `dispatch`: T(x, on=mask) == x with exactly the selected level-elements replaced by T.action"""
    t, m, el = inp['T'], inp['mask'], inp['elem']
    if t[4] is not None:
        return None
    x = build_elem(el)
    T = build_T(t)
    mask = build_mask(m)
    try:
        exp = expected_apply(T, t[1], bool(t[3]), mask, x)
    except Unsupported:
        return None
    except Exception as e:       # the action itself raises on some element: then the call must raise too
        exp = 'ERR:' + core.canon_err(e)
    try:
        got = spec_of(T(build_elem(el), on=build_mask(m)))
    except Exception as e:
        got = 'ERR:' + core.canon_err(e)
    if same(got, exp):
        return None
    return {'observed': norm(got), 'expected': norm(exp), 'detail': diff_kind(norm(got), norm(exp))}


def flat_elems(j, level):
    """the level-elements of an element spec, in order, as canonical strings"""
    out = []

    def walk(j):
        if j is None or isinstance(j, str):
            return
        if j[0] == {'note': 'n', 'melody': 'm', 'chord': 'tc'}[level]:
            out.append(json.dumps(j, sort_keys=True))
            return
        if j[0] == 'ts':
            for c in j[2]:
                walk(c)
        elif j[0] == 'tc':
            for _, mm in j[3]:
                walk(mm)
        elif j[0] == 'm':
            for n in j[2]:
                walk(n)
    walk(j)
    return out


def diff_kind(got, exp):
    if isinstance(got, str) or isinstance(exp, str):
        return 'raises' if isinstance(got, str) else 'should-raise'
    for lv in ('chord', 'melody', 'note'):
        g, e = flat_elems(got, lv), flat_elems(exp, lv)
        if len(g) != len(e):
            return f'{lv}-count'
    g, e = flat_elems(got, 'note'), flat_elems(exp, 'note')
    changed_extra = sum(1 for a, b in zip(g, e) if a != b)
    return f'elements-differ({changed_extra})'


def check_nomask(inp):
    """oracle `nomask`: without a mask every element of the transformer's level is mapped, whatever the container"""
    t, el = inp['T'], inp['elem']
    from musiclang import Note, Melody, Chord, Score
    x = build_elem(el)
    T = build_T(t)
    level = t[1]
    if level == 'chord' and isinstance(x, (Note, Melody)):
        return None
    # the level-elements of the input with the keyword arguments the documentation promises
    visited = []

    def act(e, **kw):
        r = T.action(e, **kw)
        return None if r is None else spec_of(r)

    def mel(m, kw):
        if level == 'melody':
            return act(m, **kw)
        notes, beat, last = [], 0, None
        for i, n in enumerate(m.notes):
            r = act(n, **dict(kw, beat=beat, idx=i, last_note=last))
            beat += n.duration
            last = n
            if r is not None:
                notes.append(r)
        return ['m', sorted(m.tags), notes]

    def chord(c, kw):
        if level == 'chord':
            return act(c, **kw)
        parts = []
        for p, m in c.score.items():
            r = mel(m, dict(kw, chord=c, instrument=p))
            if r is not None:
                parts.append([p, r])
        j = spec_of(c)
        return ['tc', j[1], j[2], parts]
    try:
        if isinstance(x, Note):
            exp = act(x) if level == 'note' else act(build_melody(['m', [], [el]]))
        elif isinstance(x, Melody):
            exp = mel(x, {})
        elif isinstance(x, Chord):
            exp = chord(x, {})
        else:
            chords, beat, last = [], 0, None
            for i, c in enumerate(x.chords):
                r = chord(c, dict(chord_beat=beat, chord_idx=i, last_chord=last))
                beat += c.duration
                last = c
                if r is not None:
                    chords.append(r)
            exp = ['ts', sorted(x.tags), chords]
    except Exception as e:
        exp = 'ERR:' + core.canon_err(e)
    try:
        got = spec_of(T(build_elem(el)))
    except Exception as e:
        got = 'ERR:' + core.canon_err(e)
    if same(got, exp):
        return None
    return {'observed': norm(got), 'expected': norm(exp)}


def rhythm(j):
    """every rest, continuation and duration of an element spec: per melody the list of (kind-class, duration)"""
    out = []

    def walk(j, where):
        if j[0] == 'ts':
            for i, c in enumerate(j[2]):
                walk(c, where + [i])
        elif j[0] == 'tc':
            for p, m in j[3]:
                walk(m, where + [p])
        elif j[0] == 'm':
            out.append((tuple(where), [('r' if n[1] == 'r' else 'l' if n[1] == 'l' else 'note', tuple(n[4])) for n in j[2]]))
        elif j[0] == 'n':
            out.append((tuple(where), [('r' if j[1] == 'r' else 'l' if j[1] == 'l' else 'note', tuple(j[4]))]))
    walk(j, [])
    return out


def mel_tags(j):
    out = []

    def walk(j):
        if j[0] == 'ts':
            for c in j[2]:
                walk(c)
        elif j[0] == 'tc':
            for _, m in j[3]:
                walk(m)
        elif j[0] == 'm':
            out.append(sorted(j[1]))
    walk(j)
    return out


def limit_violation(T, el, out):
    """LimitRegister moves scale / chromatic notes by whole octaves into [note_min, note_max] (in scale steps) and
    leaves a note that is already inside where it is; every other note is untouched"""
    def sp(n):
        return (n[2] if n[1] == 's' else (7 * n[2]) // 12) + 7 * n[3]
    lo, hi = T.note_min.scale_pitch, T.note_max.scale_pitch
    a, b = flat_elems(el, 'note'), flat_elems(out, 'note')
    if len(a) != len(b):
        return None
    for x, y in zip(a, b):
        x, y = json.loads(x), json.loads(y)
        if x[1] not in ('s', 'h'):
            continue
        if y[1] != x[1] or y[2] != x[2] or not (lo <= sp(y) <= hi) or (lo <= sp(x) <= hi and y[3] != x[3]):
            return y, f'{x} moved by octaves into [{lo}, {hi}] (unchanged if already inside)'
    return None


RHYTHM_KEEPERS = {'td': 'TransposeDiatonic', 'tc': 'TransposeChromatic', 'lr': 'LimitRegister', 'invm': 'InvertMelody',
                  'rev': 'ReverseMelody', 'circ': 'CircularPermutationMelody'}


def check_rhythm(inp):
    """oracle `rhythm`: a library note / melody transform keeps every rest, continuation and duration (reverse and
    circular permutation: as a multiset per melody, order is their purpose)"""
    t, el, m = inp['T'], inp['elem'], inp.get('mask', ['base'])
    k = t[2][0]
    if k not in RHYTHM_KEEPERS:
        return None
    try:
        T = build_T(t)
    except Exception:
        return None               # a transformer that cannot be constructed transforms nothing
    try:
        out = spec_of(T(build_elem(el), on=build_mask(m)))
    except KeyError as e:
        if k in ('td', 'tc'):      # h-values outside the 12 table keys / pitch classes absent from pitch_dict:
            return None            # the action is not defined there (not a rhythm matter)
        return {'observed': 'KeyError', 'expected': 'same rhythm', 'kind': 'raises-KeyError'}
    except Exception as e:
        if k == 'invm' and isinstance(e, IndexError):
            return None            # empty melody has no first note
        if k == 'tc' and el[0] in ('m', 'n') and isinstance(e, AttributeError):
            return None            # documented: "should be called on at least a chord"
        return {'observed': f'{type(e).__name__}: {e}'[:200], 'expected': 'same rhythm',
                'kind': 'raises-' + type(e).__name__}
    if out is None:
        return {'observed': None, 'expected': 'same rhythm', 'kind': 'none'}
    if k in ('rev', 'circ', 'invm') and el[0] != 'n' and mel_tags(el) != mel_tags(out):
        return {'observed': mel_tags(out), 'expected': mel_tags(el), 'kind': 'melody-tags'}
    if k == 'lr' and m == ['base']:
        bad = limit_violation(T, el, out)
        if bad:
            return {'observed': bad[0], 'expected': bad[1], 'kind': 'register'}
    a, b = rhythm(el), rhythm(out)
    if k in ('rev', 'circ'):
        a = [(w, sorted(r)) for w, r in a]
        b = [(w, sorted(r)) for w, r in b]
    if a == b:
        return None
    kind = 'changed'
    for (w1, r1), (w2, r2) in zip(a, b):
        if r1 != r2:
            lost = [x for x in r1 if x not in r2]
            kind = (lost[0][0] + '-lost') if len(r2) < len(r1) and lost else 'changed'
            break
    return {'observed': b, 'expected': a, 'kind': kind}


def check_pipeline(inp):
    """oracle `pipeline`: a transform pipeline is the composition of its steps (each followed by the step tag on the
    chords of a score); a concat pipeline appends each step's (tagged) result to what it has so far"""
    from musiclang import Score
    from musiclang.transform import TransformPipeline, ConcatPipeline
    import logging
    kind, steps, el = inp['kind'], inp['steps'], inp['elem']
    if el[0] != 'ts':
        return None
    built = [(name, build_T(t), build_mask(m) if m is not None else None) for name, t, m in steps]

    def tagged(r, name):
        j = spec_of(r)
        for c in j[2]:
            c[2] = sorted(set(c[2]) | {f'step_{name}'})
        return j
    logging.disable(logging.CRITICAL)
    try:
        try:
            x = build_elem(el)
            if kind == 'tpipe':
                for name, T, m in built:
                    x = T(x, on=m) if m is not None else T(x)
                    x = build_elem(tagged(x, name))
                exp = spec_of(x)
            else:
                acc = spec_of(x)
                for name, T, m in built:
                    cur = build_elem(acc)
                    r = T(cur, on=m) if m is not None else T(cur)
                    tj = tagged(r, name)
                    acc = ['ts', sorted(set(acc[1]) | set(tj[1])), acc[2] + tj[2]]
                exp = acc
        except Exception as e:
            exp = 'ERR'
        try:
            cls = TransformPipeline if kind == 'tpipe' else ConcatPipeline
            data = [(n, T) if m is None else (n, T, m) for n, T, m in built]
            got = spec_of(cls(data)(build_elem(el)))
        except Exception as e:
            got = 'ERR'
    finally:
        logging.disable(logging.NOTSET)
    if same(got, exp):
        return None
    return {'observed': norm(got), 'expected': norm(exp)}


def atom_meaning(e, x, kw, neg=False):
    """What a mask expression means when called on ONE element: each public constructor read off its name and the
    library's conventions (membership is exact; intervals are half-open [start, end) like every time slice of the
    library; "playing in" = sounding at that beat; a type guard `L > m` says nothing about elements that are not of
    type L), `&` / `|` as conjunction / disjunction, `~` as negation pushed through `&`, `|` (De Morgan) and inside
    the type guards.  Independent of mask.py and of the Lean model.  None = this reading has no opinion."""
    k = e[0]
    lv = level_of(x)
    beat = kw.get('beat', 0)
    cbeat = kw.get('chord_beat', 0)

    def out(b):
        return None if b is None else (not b if neg else bool(b))
    if k in ('has', 'hasal'):
        return out(set(e[1]) <= set(x.tags) if k == 'has' else bool(set(e[1]) & set(x.tags)))
    if k == 'bool':
        return out(bool(e[1]))
    if k == 'inv':
        return atom_meaning(e[1], x, kw, not neg)
    if k == 'gt':
        return True if lv != e[1] else atom_meaning(e[2], x, kw, neg)
    if k in ('and', 'or'):
        vs = [atom_meaning(t, x, kw, neg) for t in e[1:]]
        if None in vs:
            return None
        return all(vs) if (k == 'and') != neg else any(vs)
    note_level = {'BeatIn', 'BeatPlayingIn', 'DurationIn', 'BeatBetween', 'DurationBetween'}
    chord_level = {'ChordBeatIn', 'ChordBeatPlayingIn', 'ChordDurationIn', 'ChordBeatBetween', 'ChordDurationBetween',
                   'ModeIn', 'ChordDegreeIn', 'ChordExtensionIn', 'TonalityDegreeIn', 'OriginateFrom'}
    if k in note_level and lv != 'note':
        return True
    if k in chord_level and lv != 'chord':
        return True
    if k == 'InstrumentIn':
        return True if lv != 'melody' else out(kw.get('instrument') in e[1])
    if k == 'BeatIn':
        return out(beat in [F(q) for q in e[1]])
    if k == 'BeatPlayingIn':
        return out(any(beat <= F(q) < beat + x.duration for q in e[1]))
    if k == 'DurationIn':
        return out(x.duration in [F(q) for q in e[1]])
    if k == 'BeatBetween':
        return out(F(e[1]) <= beat < F(e[2]))
    if k == 'DurationBetween':
        return out(F(e[1]) <= x.duration < F(e[2]))
    if k == 'ChordBeatIn':
        return out(cbeat in [F(q) for q in e[1]])
    if k == 'ChordBeatPlayingIn':
        return out(any(cbeat <= F(q) < cbeat + x.duration for q in e[1]))
    if k == 'ChordDurationIn':
        return out(x.duration in [F(q) for q in e[1]])
    if k == 'ChordBeatBetween':
        return out(F(e[1]) <= cbeat < F(e[2]))
    if k == 'ChordDurationBetween':
        return out(F(e[1]) <= x.duration < F(e[2]))
    if k == 'ModeIn':
        return out(x.tonality.mode in e[1])
    if k == 'ChordDegreeIn':
        return out(x.element in e[1])
    if k == 'ChordExtensionIn':
        return out(x.extension in e[1])
    if k == 'TonalityDegreeIn':
        return out(x.tonality.degree in e[1])
    if k == 'OriginateFrom':
        return out({f'step_{t}' for t in e[1]} <= set(x.tags))
    return None


def check_atom(inp):
    """oracle `atom`: a public mask constructor, called on one element with explicit keyword arguments, answers what
    its name says"""
    e, el = inp['mask'], inp['elem']
    kw = {k: (Fraction(v) if k in ('beat', 'chord_beat') else v) for k, v in inp['kwargs'].items()}
    if 'chord_idx' in kw:
        kw['chord_idx'] = int(kw['chord_idx'])
    if 'idx' in kw:
        kw['idx'] = int(kw['idx'])
    x = build_elem(el)
    exp = atom_meaning(e, x, kw)
    if exp is None:
        return None
    got = bool(build_mask(e)(x, **kw))
    if got != exp:
        return {'observed': got, 'expected': exp}
    # the same constructor with its collection argument given as another kind of value: a set, a tuple, and - where
    # there is one element - the bare value, which every one of these constructors accepts (seed C18-6: a bare figure
    # given as text was iterated character by character)
    guard, a = (e[1], e[2]) if e[0] == 'gt' else (None, e)
    k = a[0]
    if k in PUBLIC and PUBLIC[k] != 'ab':
        from musiclang.transform import Mask
        vals = _args(PUBLIC[k], a[1:])[0]
        variants = {'tuple': tuple(vals), 'set': set(vals)}
        if len(vals) == 1:
            variants['bare value'] = vals[0]
        for how, arg in variants.items():
            m = getattr(Mask, k)(arg)
            if guard is not None:
                m = build_mask(['lvl', guard]) > m
            g = bool(m(x, **kw))
            if g != exp:
                return {'observed': {f'argument as {how}': g}, 'expected': exp}
    return None


ORACLES = {'dispatch': check_dispatch, 'nomask': check_nomask, 'rhythm': check_rhythm, 'pipeline': check_pipeline,
           'atom': check_atom}


def g_opaque_atom(rng):
    x = rng.random()
    if x < 0.5:
        ns = [g_note(rng, kinds=['s', 'h']) for _ in range(rng.randint(1, 3))]
        for n in ns:
            n[4], n[7], n[8], n[9], n[10] = [1, 1], [66, 1], [], None, None
        return ['NoteIn', ns, int(rng.random() < 0.5), int(rng.random() < 0.5)]
    if x < 0.8:
        return ['TonalityIn', [[rng.randrange(12), rng.choice(['M', 'm']), 0] for _ in range(rng.randint(1, 4))],
                int(rng.random() < 0.3)]
    return ['ChordIn', [g_chord(rng, parts=(0, 0)) for _ in range(2)], int(rng.random() < 0.5)]


def g_mask_oracle(rng, depth):
    """guarded masks for the oracle, with the opaque atoms mixed in"""
    e = g_mask(rng, depth, guarded=True)
    if rng.random() < 0.2:
        e = [rng.choice(['and', 'or']), e, g_opaque_atom(rng)]
    return e


def run_oracle(ctx, name, inp, sig_fn, bucket):
    ctx.count('oracle', key=json.dumps(inp, sort_keys=True), bucket=bucket)
    try:
        r = ORACLES[name](inp)
    except Exception as e:   # an input the oracle cannot even build (invalid suspect)
        ctx.note(f'oracle {name} skipped an input: {type(e).__name__}: {e}'[:200])
        return
    if r:
        ctx.fail(sig_fn(inp, r), inp, r['observed'], r['expected'], oracle=name)


def sig_dispatch(inp, r):
    return f"dispatch:{inp['T'][1]}-transformer:on-{inp['elem'][0]}:{r.get('detail')}:{mask_shape(inp['mask'])}"


def sig_rhythm(inp, r):
    return f"rhythm:{RHYTHM_KEEPERS[inp['T'][2][0]]}:{r.get('kind')}"


def sig_nomask(inp, r):
    return f"nomask:{inp['T'][1]}-transformer:{inp['T'][2][0]}:on-{inp['elem'][0]}"


def sig_atom(inp, r):
    e = inp['mask']
    return f"atom:{e[0] if e[0] != 'gt' else 'gt-' + e[2][0]}:on-{inp['elem'][0]}"


def sig_pipeline(inp, r):
    return f"pipeline:{inp['kind']}:steps={len(inp['steps'])}"


def oracle(ctx):
    rng = ctx.rng
    # 1. suspects of the correspondence run
    for stream, inp in ctx.suspects:
        if not inp:
            continue
        if stream == 'apply':
            run_oracle(ctx, 'dispatch', inp, sig_dispatch, 'suspect')
            run_oracle(ctx, 'rhythm', inp, sig_rhythm, 'suspect')
            if inp['mask'] == ['base']:
                run_oracle(ctx, 'nomask', inp, sig_nomask, 'suspect')
        elif stream == 'pipeline':
            run_oracle(ctx, 'pipeline', inp, sig_pipeline, 'suspect')
        elif stream == 'mask-call' and 'kwargs' in inp:
            run_oracle(ctx, 'atom', inp, sig_atom, 'suspect')
    # 2. the §6 witnesses
    for t, m, el in witnesses():
        inp = {'T': t, 'mask': m, 'elem': el}
        run_oracle(ctx, 'dispatch', inp, sig_dispatch, 'witness')
        run_oracle(ctx, 'rhythm', inp, sig_rhythm, 'witness')
    # 3. small enumerated inputs: every two-atom mask  (guard_a > has a) OP (guard_b > has b), OP in & |, with and
    #    without ~, on one fixed two-chord score, for the three transformer levels
    sc = witnesses()[3][2]
    for la in LEVELS:
        for lb in LEVELS:
            for op in ('and', 'or'):
                for inv in (False, True):
                    a = ['gt', la, ['has', ['a']]] if la != 'melody' else ['InstrumentIn', ['violin__0']]
                    b = ['gt', lb, ['has', ['b']]] if lb != 'melody' else ['InstrumentIn', ['piano__0']]
                    m = [op, a, b]
                    if inv:
                        m = ['inv', m]
                    for lv in ('note', 'melody', 'chord'):
                        for el in (sc, sc[2][0]):
                            inp = {'T': ['T', lv, ['tag', 'X'], 0, None], 'mask': m, 'elem': el}
                            run_oracle(ctx, 'dispatch', inp, sig_dispatch, 'enumerated')
    # 3b. every public constructor (and small &, |, ~ combinations) on single elements, mostly of the atom's own
    #     level, with interval bounds / set members taken from the element itself half of the time
    for _ in range(ctx.n(900, 10000)):
        lv = rng.choice(['chord', 'chord', 'melody', 'note', 'note', 'note', 'score'])
        e = g_atom(rng, lv)
        kind = {'score': 'ts', 'chord': 'tc', 'melody': 'm', 'note': 'n'}[lv] if rng.random() < 0.75 else \
            rng.choice(['tc', 'm', 'n', 'ts'])
        el = g_elem(rng, kind=kind)
        kw = g_kwargs(rng)
        if rng.random() < 0.5 and e[0] in PUBLIC and el[0] in ('n', 'tc'):
            d = Fraction(build_elem(el).duration)
            b = kw.get('beat' if el[0] == 'n' else 'chord_beat', 0)
            if PUBLIC[e[0]] == 'ab':
                ref = d if 'Duration' in e[0] else Fraction(b)
                e = [e[0], q2(ref), q2(ref + 1)] if rng.random() < 0.5 else [e[0], q2(max(ref - 1, 0)), q2(ref)]
            elif PUBLIC[e[0]] == 'q':
                ref = d if 'Duration' in e[0] else (Fraction(b) + (d if 'Playing' in e[0] and rng.random() < 0.5 else 0))
                e = [e[0], [q2(ref)]]
        x = rng.random()
        if x < 0.2:
            e = [rng.choice(['and', 'or']), e, g_atom(rng, lv)]
        if x < 0.35:
            e = ['inv', e]
        inp = {'mask': e, 'elem': el, 'kwargs': {k: str(v) for k, v in kw.items()}}
        run_oracle(ctx, 'atom', inp, sig_atom, f'atom:{e[0] if e[0] != "gt" else e[2][0]}')
    # 3b. every single value of the text / integer valued chord masks against chords showing every value
    figs = list(gen.FIGS)
    for f1 in figs:
        for f2 in figs:
            c = g_chord(rng)
            c[1][1] = f2
            for neg in (False, True):
                m = ['gt', 'chord', ['ChordExtensionIn', [f1]]]
                inp = {'mask': ['inv', m] if neg else m, 'elem': c, 'kwargs': {}}
                run_oracle(ctx, 'atom', inp, sig_atom, 'atom:ChordExtensionIn:single')
    for m1 in gen.MODES:
        for m2 in gen.MODES[:5]:
            c = g_chord(rng)
            c[1][3] = m2
            inp = {'mask': ['gt', 'chord', ['ModeIn', [m1]]], 'elem': c, 'kwargs': {}}
            run_oracle(ctx, 'atom', inp, sig_atom, 'atom:ModeIn:single')
    # 4. random
    for _ in range(ctx.n(1000, 12000)):
        t = g_T(rng)
        if t[4] is not None:
            t = ['T', t[1], ['tag', 'X'], 1, None]
        el = g_elem(rng, kind=rng.choice(['ts', 'ts', 'ts', 'tc', 'tc', 'm']))
        m = g_mask_oracle(rng, rng.randint(1, 4))
        inp = {'T': t, 'mask': m, 'elem': el}
        run_oracle(ctx, 'dispatch', inp, sig_dispatch, f'dispatch:{t[1]}:{el[0]}')
    for _ in range(ctx.n(400, 5000)):
        t = g_T(rng)
        if t[4] is not None:
            continue
        inp = {'T': t, 'elem': g_elem(rng)}
        run_oracle(ctx, 'nomask', inp, sig_nomask, f'nomask:{t[1]}:{inp["elem"][0]}')
    for _ in range(ctx.n(700, 8000)):
        t = g_T(rng, level=rng.choice(['note', 'note', 'melody']), library=True)
        el = g_elem(rng, kind=rng.choice(['ts', 'tc', 'tc', 'm', 'm']))
        m = ['base'] if rng.random() < 0.6 else g_mask(rng, 2)
        run_oracle(ctx, 'rhythm', {'T': t, 'elem': el, 'mask': m}, sig_rhythm, f'rhythm:{t[2][0]}:{el[0]}')
    for _ in range(ctx.n(200, 2500)):
        kind = rng.choice(['tpipe', 'cpipe'])
        inp = {'kind': kind, 'steps': g_steps(rng), 'elem': g_score(rng)}
        run_oracle(ctx, 'pipeline', inp, sig_pipeline, f'pipeline:{kind}')
