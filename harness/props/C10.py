"""C10 — durations are exact and add up."""
import sys
sys.dont_write_bytecode = True
from fractions import Fraction as F
import numbers
import core, gen
from core import sx, SX, enc_note, enc_chord, enc_score, py_res, frac_str

ID = 'C10'
LEAN_MODULES = ['MV.Props.C10']
LEAN_HELPERS = ['MV.Lemmas.Duration', 'MV.Model.Duration', 'MV.Model.Basic', 'MV.Model.Types']
DRIVERS = ['C10']
GEN = ['Tables']
SRC_TIE = ['SrcDur', 'SrcDurOps']   # py2lean source images proved equal to the model: Melody/Chord/Score.duration
#   (MV/Props/TieDurC10.lean) and augment / set_duration / + / * / copy / decompose_duration (MV/Props/TieSrcDurOps.lean)
RULE = ('one request = one operation (suffix / set_duration / augment / + / * / decompose_duration / duration / '
        'get_onset_times / limit_denominator) on a generated note, melody, chord or score; durations drawn from the 31 table '
        'figures, small fractions, and on purpose from outside the den<=1000 resolution; arguments as int, Fraction and '
        'float (the code branches on the type); a case is non-trivial when the object has at least one note of non-zero '
        'duration (limit stream: when the denominator exceeds the bound); distinct = distinct request line')
TRUSTED = ['model of Fraction.limit_denominator (CPython 3.12), Note/Melody/Chord/Score duration arithmetic and '
           'decompose_duration is hand-written (MV/Model/Duration.lean) and tied to the code by the correspondence streams '
           'limit/float/note/melody/chord/score',
           'float(Fraction) and float/float are modelled as correctly rounded IEEE doubles (normal range)']
ASSUMPTIONS = ['theorems about sums/augment/set_duration carry the documented resolution as hypothesis: every note duration '
               'involved (before and after the operation) has denominator <= LIMIT_DENOM = 1000',
               'Score.set_duration(d) sets every chord to d (total = len * d); "yields exactly d" is read per chord',
               'part names are already of the form name__idx and not drums (no preparse renaming / drum conversion)']

LIMIT = 1000
BASE = {'w': F(4), 'h': F(2), 'q': F(1), 'e': F(1, 2), 's': F(1, 4), 't': F(1, 8)}


def spec_table():
    """the documented suffix values, independent of constants.py and of the Lean model"""
    t = {'n': F(0)}
    for k, v in BASE.items():
        t[k] = v
        t[k + 'd'] = v * F(3, 2)
        for n in (3, 5, 7):
            t[k + str(n)] = v * F(2, n)
    return t


# ----------------------------------------------------------------------------- specs <-> objects

def dur_str(d):
    """canonical duration; a float (inexact by type) is never rendered like a rational"""
    if isinstance(d, float):
        return 'float:' + repr(d)
    return frac_str(d)


def note_spec(n):
    return [n.type, int(n.val), int(n.octave), dur_str(n.duration)]


def build_note(sp):
    from musiclang import Note, Silence, Continuation
    t, v, o, d = sp
    if t == 'r':
        n = Silence(1)
    elif t == 'l':
        n = Continuation(1)
    else:
        n = Note(t, v, o, 1)
    n.duration = F(d)          # raw: a suffix chain can leave the 1/1000 resolution
    return n


def build_melody(sp):
    """a melody of the spec; its bar count (what `a | b` records) varies with the spec — no duration may depend on it
    (seed C10-4)"""
    from musiclang import Melody
    return Melody([build_note(x) for x in sp], nb_bars=(1, 1, 2, 1, 3)[len(sp) % 5])


def build_chord(sp):
    from musiclang import Chord, Tonality
    c = Chord(sp.get('elem', 0), extension=sp.get('ext', ''),
              tonality=Tonality(sp.get('deg', 0), sp.get('mode', 'M'), sp.get('toct', 0)), octave=sp.get('coct', 0))
    c.score = {k: build_melody(m) for k, m in sp['parts']}
    return c


def build_score(sp):
    from musiclang import Score
    return Score([build_chord(c) for c in sp])


def build_arg(a):
    k, v = a
    if k == 'i':
        return int(v)
    if k == 'f':
        return float(v)
    if k == 'q':
        return F(v)
    return str(v)


def enc_arg(a):
    k, v = a
    if k == 'i':
        return SX(f'(i {int(v)})')
    if k == 'f':
        return SX('(f ' + frac_str(F(*float(v).as_integer_ratio())) + ')')
    if k == 'q':
        return SX('(q ' + frac_str(F(v)) + ')')
    return SX('(bad)')


def py_res_a(a, f, show):
    """like py_res; for a malformed argument only *that* it is rejected is compared, not the exception class"""
    r = py_res(f, show)
    return 'ERR:bad-arg' if a[0] == 'bad' and r.startswith('ERR:') else r


def arg_value(a):
    """exact rational value of an argument (None for a malformed one)"""
    k, v = a
    if k == 'i':
        return F(int(v))
    if k == 'f':
        return F(*float(v).as_integer_ratio())
    if k == 'q':
        return F(v)
    return None


def show_note(n):
    return f'{n.type},{int(n.val)},{int(n.octave)},{dur_str(n.duration)}'


def show_notes(ns):
    return '[' + ' '.join(show_note(n) for n in ns) + ']'


def notes_of(x):
    from musiclang import Note
    return [x] if isinstance(x, Note) else list(x.notes)


def show_mel(m):
    from musiclang import Note
    return show_notes(notes_of(m)) + '=' + dur_str(m.duration)


def show_chord(c):
    return '{' + ' '.join(f'{k}:{show_notes(m.notes)}' for k, m in c.score.items()) + '}=' + dur_str(c.duration)


def show_score(s):
    if s is None:
        return 'None'
    return '<' + ' + '.join(show_chord(c) for c in s.chords) + '>=' + dur_str(s.duration)


def show_rats(l):
    return '(' + ' '.join(dur_str(x) for x in l) + ')'


# ----------------------------------------------------------------------------- generators (specs)

KINDS = ['s', 'h', 'c', 'b', 'a', 'su', 'sd', 'hu', 'cd', 'd', 'x']
PARTS = ['piano__0', 'violin__0', 'cello__0', 'flute__1']


def table_durs():
    return [d for k, d in spec_table().items() if k != 'n']


def rand_dur(rng, profile='domain'):
    x = rng.random()
    if profile == 'decomp':
        if x < 0.55:
            return F(rng.randint(1, 90), rng.choice([1, 2, 4, 8, 16, 3, 6, 12, 5, 10, 20, 7, 14, 28]))
        if x < 0.7:
            return rng.choice(table_durs())
        if x < 0.8:
            return F(rng.randint(1, 40), rng.choice([9, 11, 13, 24, 32, 48, 56, 1000]))
        if x < 0.85:
            return F(0)
        if x < 0.9:
            return F(-rng.randint(1, 12), rng.choice([1, 4, 8]))
        return F(rng.randint(1, 3000), rng.randint(1001, 5000))
    if x < 0.6:
        return rng.choice(table_durs())
    if x < 0.85:
        return F(rng.randint(1, 24), rng.choice([1, 2, 3, 4, 6, 8, 12, 16]))
    if x < 0.93:
        return F(rng.randint(1, 50), rng.randint(1, 40))
    if x < 0.96:
        return F(0)
    if profile == 'wild':
        return F(rng.randint(1, 5000), rng.randint(900, 4000))
    return F(rng.randint(1, 999), rng.randint(500, 1000))


def rand_note_spec(rng, profile='domain', p_rest=0.12, p_cont=0.12):
    x = rng.random()
    d = dur_str(rand_dur(rng, profile))
    if x < p_rest:
        return ['r', 0, 0, d]
    if x < p_rest + p_cont:
        return ['l', 0, 0, d]
    return [rng.choice(KINDS), rng.randint(-8, 10), rng.randint(-2, 2), d]


def rand_melody_spec(rng, n=(1, 5), profile='domain'):
    return [rand_note_spec(rng, profile) for _ in range(rng.randint(*n))]


def rand_chord_spec(rng, n_parts=(1, 3), n=(1, 4), profile='domain'):
    c, text = gen.rand_chord(rng, octaves=(-1, 1), max_mods=2)
    k = rng.randint(*n_parts)
    names = rng.sample(PARTS, k) if k else []
    return {'elem': int(c.element), 'ext': text, 'deg': int(c.tonality.degree), 'mode': c.tonality.mode,
            'toct': int(c.tonality.octave), 'coct': int(c.octave),
            'parts': [[p, rand_melody_spec(rng, n, profile)] for p in names]}


def rand_score_spec(rng, n_chords=(1, 3), **kw):
    return [rand_chord_spec(rng, **kw) for _ in range(rng.randint(*n_chords))]


FLOATS = [0.5, 0.25, 1.5, 0.375, 2.0, 0.0625, 0.1, 0.3, 1 / 3, 2 / 3, 0.75, 1.2, 0.001, 3.14159, 0.0, 1e-4, 7.0 / 9, 0.03125, 0.0078125, 0.001953125, 2.5]


def rand_arg(rng, zero_ok=True, p_bad=0.02):
    x = rng.random()
    if x < p_bad:
        return ['bad', 'q']
    if x < 0.3:
        return ['i', rng.randint(0 if zero_ok else 1, 6)]
    if x < 0.75:
        return ['q', frac_str(F(rng.randint(0 if zero_ok else 1, 16), rng.choice([1, 2, 3, 4, 5, 6, 7, 8, 9, 12, 16])))]
    if x < 0.8:
        return ['q', frac_str(F(rng.randint(1, 2000), rng.randint(1, 2000)))]
    if x < 0.83:
        return ['q', frac_str(F(-rng.randint(1, 8), rng.choice([1, 2, 3])))]
    if x < 0.95:
        return ['f', rng.choice(FLOATS)]
    return ['f', round(rng.random() * 4, rng.choice([1, 2, 3, 6]))]


def has_sound(mel_spec):
    return any(F(x[3]) != 0 for x in mel_spec)


def mel_enc(sp):
    return [enc_note(n) for n in build_melody(sp).notes]


# ----------------------------------------------------------------------------- correspondence

def limit_cases(ctx):
    rng = ctx.rng
    cases = []

    def add(mx, q, tag):
        line = sx('limit', mx, q)
        impl = py_res(lambda: q.limit_denominator(mx), frac_str)
        cases.append({'line': line, 'impl': impl, 'input': {'oracle': 'limit', 'max': mx, 'q': frac_str(q)},
                      'bucket': [f'limit:{tag}', f'max={mx}' if mx in (1000, 8) else 'max=other',
                                 'identity' if mx >= 1 and q.denominator <= mx else 'rounds'],
                      'nontrivial': mx >= 1 and q.denominator > mx})

    # ties and edge cases of the final comparison
    for q, mx in [(F(1, 2000), 1000), (F(3, 2), 1), (F(-3, 2), 1), (F(5, 2), 1), (F(1, 16), 8), (F(3, 16), 8), (F(1, 2), 0),
                  (F(1, 2), -3), (F(117029, 351095), 1000), (F(1, 2401), 1000), (F(2001, 2000), 1000), (F(-1, 2000), 1000),
                  (F(1999, 2000), 1000), (F(355, 113), 100), (F(0), 1000), (F(7), 1), (F(1001, 1001), 1000)]:
        add(mx, q, 'edge')
    for d in range(1001, 1001 + ctx.n(50, 400)):
        for _ in range(4):
            add(1000, F(rng.randint(-3 * d, 3 * d), d), 'just-outside')
    for _ in range(ctx.n(1000, 50000)):
        mx = rng.choice([1000] * 6 + [8, 8, 1, 2, 7, 100, 12345])
        kind = rng.random()
        if kind < 0.4:
            q = F(rng.randint(-10 ** 6, 10 ** 6), rng.randint(1, 10 ** 6))
        elif kind < 0.6:
            q = F(*(rng.random() * rng.choice([1, 10, 100])).as_integer_ratio())
        elif kind < 0.8:
            q = F(rng.randint(1, 4000), rng.randint(1, 4000))
        else:   # near-ties: midpoints between neighbours of denominator <= max
            a = F(rng.randint(0, 3 * mx), rng.randint(1, mx))
            b = a + F(1, rng.randint(1, mx) * a.denominator)
            q = (a + b) / 2 + F(rng.choice([-1, 0, 0, 1]), 10 ** 9)
        add(mx, q, 'random')
    ctx.compare('limit', 'C10', cases)

    # float(Fraction) and float / float as used by Melody.set_duration(float)
    cases = []
    for _ in range(ctx.n(500, 20000)):
        q = F(rng.randint(1, 5000), rng.randint(1, 5000)) * rng.choice([1, 1, -1, F(1, 1024), 4096])
        cases.append({'line': sx('rdbl', q), 'impl': py_res(lambda: F(*float(q).as_integer_ratio()), frac_str),
                      'input': {'q': frac_str(q)}, 'bucket': 'float(Fraction)'})
        x = rng.choice(FLOATS + [rng.random() * 8])
        y = float(F(rng.randint(1, 400), rng.randint(1, 60)))
        fx, fy = F(*x.as_integer_ratio()), F(*y.as_integer_ratio())
        cases.append({'line': sx('fdiv', fx, fy), 'impl': py_res(lambda: F(*(x / y).as_integer_ratio()), frac_str),
                      'input': {'x': x, 'y': y}, 'bucket': 'float/float'})
    ctx.compare('float', 'C10', cases)


def note_cases(ctx):
    rng = ctx.rng
    cases = []
    table = list(spec_table())
    for _ in range(ctx.n(1000, 30000)):
        sp = rand_note_spec(rng, rng.choice(['domain', 'domain', 'wild']))
        n = build_note(sp)
        e = enc_note(n)
        nz = F(sp[3]) != 0
        k = rng.random()
        if k < 0.3:
            item = rng.choice(table) if rng.random() < 0.96 else rng.choice(['zz', 'w9', 'dd'])
            cases.append({'line': sx('nsuf', e, item), 'impl': py_res(lambda: getattr(n, item), show_note),
                          'input': {'oracle': 'suffix', 'note': sp, 'item': item}, 'bucket': ['op=nsuf', f'suffix={item}'],
                          'nontrivial': nz})
        elif k < 0.55:
            a = rand_arg(rng)
            v = build_arg(a)
            cases.append({'line': sx('nset', e, enc_arg(a)), 'impl': py_res_a(a, lambda: n.set_duration(v), show_note),
                          'input': {'oracle': 'set_duration', 'level': 'note', 'obj': sp, 'arg': a},
                          'bucket': ['op=nset', f'arg={a[0]}'], 'nontrivial': True})
        elif k < 0.85:
            a = rand_arg(rng)
            v = build_arg(a)
            cases.append({'line': sx('naug', e, enc_arg(a)), 'impl': py_res_a(a, lambda: n.augment(v), show_note),
                          'input': {'oracle': 'augment', 'level': 'note', 'obj': sp, 'arg': a},
                          'bucket': ['op=naug', f'arg={a[0]}'], 'nontrivial': nz})
        else:
            kk = rng.randint(-1, 4)
            cases.append({'line': sx('nmul', e, kk), 'impl': py_res(lambda: n * kk, show_mel),
                          'input': {'oracle': 'repeat', 'level': 'note', 'obj': sp, 'k': kk},
                          'bucket': 'op=nmul', 'nontrivial': nz and kk > 0})
    # every suffix once on a plain quarter note, and suffix chains (no limit applied by the code)
    for item in table:
        sp = ['s', 0, 0, '1']
        n = build_note(sp)
        cases.append({'line': sx('nsuf', enc_note(n), item), 'impl': py_res(lambda: getattr(n, item), show_note),
                      'input': {'oracle': 'suffix', 'note': sp, 'item': item}, 'bucket': ['op=nsuf', f'suffix={item}']})
    # decompose_duration
    for _ in range(ctx.n(1000, 40000)):
        sp = rand_note_spec(rng, 'decomp', p_rest=0.1, p_cont=0.1)
        n = build_note(sp)
        d = F(sp[3])
        cases.append({'line': sx('ndec', enc_note(n)), 'impl': py_res(lambda: n.decompose_duration(), show_mel),
                      'input': {'oracle': 'decompose', 'level': 'melody', 'obj': [sp]},
                      'bucket': ['op=ndec', 'den=' + (str(d.denominator) if d.denominator <= 28 else '>28'),
                                 'kind=' + sp[0]], 'nontrivial': d != 0})
    ctx.compare('note', 'C10', cases)


def melody_cases(ctx):
    rng = ctx.rng
    cases = []
    table = list(spec_table())
    for _ in range(ctx.n(1800, 50000)):
        prof = rng.choice(['domain', 'domain', 'domain', 'wild'])
        sp = rand_melody_spec(rng, (0, 5) if rng.random() < 0.1 else (1, 6), prof)
        m = build_melody(sp)
        e = mel_enc(sp)
        nt = has_sound(sp)
        k = rng.random()
        if k < 0.08:
            cases.append({'line': sx('mdur', e), 'impl': py_res(lambda: m.duration, dur_str),
                          'input': {'oracle': 'sum', 'level': 'melody', 'obj': sp}, 'bucket': 'op=mdur', 'nontrivial': nt})
        elif k < 0.2:
            sp2 = rand_melody_spec(rng, (0, 4), prof)
            m2 = build_melody(sp2)
            other = m2
            tag = 'mel+mel'
            if len(sp2) == 1 and rng.random() < 0.5:
                other, tag = m2.notes[0], 'mel+note'
            cases.append({'line': sx('madd', e, mel_enc(sp2)), 'impl': py_res(lambda: m + other, show_mel),
                          'input': {'oracle': 'concat', 'level': 'melody', 'a': sp, 'b': sp2},
                          'bucket': ['op=madd', tag], 'nontrivial': nt})
        elif k < 0.3:
            kk = rng.randint(-1, 4)
            cases.append({'line': sx('mmul', e, kk), 'impl': py_res(lambda: m * kk, show_mel),
                          'input': {'oracle': 'repeat', 'level': 'melody', 'obj': sp, 'k': kk},
                          'bucket': ['op=mmul', f'k={kk}'], 'nontrivial': nt and kk > 0})
        elif k < 0.5:
            a = rand_arg(rng)
            v = build_arg(a)
            cases.append({'line': sx('maug', e, enc_arg(a)), 'impl': py_res_a(a, lambda: m.augment(v), show_mel),
                          'input': {'oracle': 'augment', 'level': 'melody', 'obj': sp, 'arg': a},
                          'bucket': ['op=maug', f'arg={a[0]}'], 'nontrivial': nt})
        elif k < 0.72:
            a = rand_arg(rng)
            v = build_arg(a)
            cases.append({'line': sx('mset', e, enc_arg(a)), 'impl': py_res_a(a, lambda: m.set_duration(v), show_mel),
                          'input': {'oracle': 'set_duration', 'level': 'melody', 'obj': sp, 'arg': a},
                          'bucket': ['op=mset', f'arg={a[0]}', 'zero-length' if not nt else 'sounding'], 'nontrivial': nt})
        elif k < 0.8:
            item = rng.choice(table) if rng.random() < 0.95 else 'zz'
            cases.append({'line': sx('msuf', e, item), 'impl': py_res(lambda: getattr(m, item), show_mel),
                          'input': {'oracle': 'suffix', 'melody': sp, 'item': item}, 'bucket': 'op=msuf', 'nontrivial': nt})
        elif k < 0.88:
            cases.append({'line': sx('mons', e), 'impl': py_res(lambda: m.get_onset_times(), show_rats),
                          'input': {'oracle': 'sum', 'level': 'melody', 'obj': sp}, 'bucket': 'op=mons', 'nontrivial': nt})
        else:
            sp = rand_melody_spec(rng, (0, 4) if rng.random() < 0.08 else (1, 5), 'decomp')
            m = build_melody(sp)
            cases.append({'line': sx('mdec', mel_enc(sp)), 'impl': py_res(lambda: m.decompose_duration(), show_mel),
                          'input': {'oracle': 'decompose', 'level': 'melody', 'obj': sp},
                          'bucket': ['op=mdec', 'empty' if not sp else 'notes'], 'nontrivial': has_sound(sp)})
    ctx.compare('melody', 'C10', cases)


def chord_cases(ctx):
    rng = ctx.rng
    cases = []
    table = list(spec_table())
    for _ in range(ctx.n(1000, 25000)):
        prof = rng.choice(['domain', 'domain', 'domain', 'wild'])
        sp = rand_chord_spec(rng, (0, 3) if rng.random() < 0.25 else (1, 3), (0, 3) if rng.random() < 0.08 else (1, 4), prof)
        c = build_chord(sp)
        e = enc_chord(c, ext_text=sp['ext'])
        nt = any(has_sound(m) for _, m in sp['parts'])
        shape = 'empty-chord' if not sp['parts'] else f'parts={len(sp["parts"])}'
        k = rng.random()
        if k < 0.1:
            cases.append({'line': sx('cdur', e), 'impl': py_res(lambda: c.duration, dur_str),
                          'input': {'oracle': 'sum', 'level': 'chord', 'obj': sp}, 'bucket': ['op=cdur', shape], 'nontrivial': nt})
        elif k < 0.3:
            a = rand_arg(rng)
            v = build_arg(a)
            cases.append({'line': sx('caug', e, enc_arg(a)), 'impl': py_res_a(a, lambda: c.augment(v), show_chord),
                          'input': {'oracle': 'augment', 'level': 'chord', 'obj': sp, 'arg': a},
                          'bucket': ['op=caug', f'arg={a[0]}', shape], 'nontrivial': True})
        elif k < 0.55:
            a = rand_arg(rng)
            v = build_arg(a)
            cases.append({'line': sx('cset', e, enc_arg(a)), 'impl': py_res_a(a, lambda: c.set_duration(v), show_chord),
                          'input': {'oracle': 'set_duration', 'level': 'chord', 'obj': sp, 'arg': a},
                          'bucket': ['op=cset', f'arg={a[0]}', shape], 'nontrivial': True})
        elif k < 0.65:
            item = rng.choice(table) if rng.random() < 0.95 else 'zz'
            cases.append({'line': sx('csuf', e, item), 'impl': py_res(lambda: getattr(c, item), show_chord),
                          'input': {'oracle': 'suffix', 'chord': sp, 'item': item}, 'bucket': ['op=csuf', shape], 'nontrivial': True})
        elif k < 0.75:
            kk = rng.randint(-1, 3)
            cases.append({'line': sx('cmul', e, kk), 'impl': py_res(lambda: c * kk, show_score),
                          'input': {'oracle': 'repeat', 'level': 'chord', 'obj': sp, 'k': kk},
                          'bucket': ['op=cmul', f'k={kk}'], 'nontrivial': nt and kk > 0})
        elif k < 0.85:
            sp2 = rand_chord_spec(rng, (0, 2), (1, 3), prof)
            c2 = build_chord(sp2)
            cases.append({'line': sx('cadd', e, enc_chord(c2, ext_text=sp2['ext'])), 'impl': py_res(lambda: c + c2, show_score),
                          'input': {'oracle': 'concat', 'level': 'chord', 'a': sp, 'b': sp2}, 'bucket': 'op=cadd', 'nontrivial': nt})
        else:
            sp = rand_chord_spec(rng, (1, 3), (0, 3) if rng.random() < 0.06 else (1, 3), 'decomp')
            c = build_chord(sp)
            cases.append({'line': sx('cdec', enc_chord(c, ext_text=sp['ext'])),
                          'impl': py_res(lambda: c.decompose_duration(), show_chord),
                          'input': {'oracle': 'decompose', 'level': 'chord', 'obj': sp}, 'bucket': 'op=cdec', 'nontrivial': True})
    ctx.compare('chord', 'C10', cases)


def enc_score_spec(sp):
    return SX(sx('s', *[enc_chord(build_chord(c), ext_text=c['ext']) for c in sp]))


def score_cases(ctx):
    rng = ctx.rng
    cases = []
    table = list(spec_table())
    for _ in range(ctx.n(700, 15000)):
        prof = rng.choice(['domain', 'domain', 'domain', 'wild'])
        sp = rand_score_spec(rng, (0, 3) if rng.random() < 0.1 else (1, 3), n_parts=(0, 2) if rng.random() < 0.2 else (1, 2),
                             n=(1, 3), profile=prof)
        s = build_score(sp)
        e = enc_score_spec(sp)
        nt = any(has_sound(m) for c in sp for _, m in c['parts'])
        k = rng.random()
        if k < 0.1:
            cases.append({'line': sx('sdur', e), 'impl': py_res(lambda: s.duration, dur_str),
                          'input': {'oracle': 'sum', 'level': 'score', 'obj': sp}, 'bucket': 'op=sdur', 'nontrivial': nt})
        elif k < 0.25:
            sp2 = rand_score_spec(rng, (0, 2), n_parts=(1, 2), n=(1, 3), profile=prof)
            s2 = build_score(sp2)
            cases.append({'line': sx('sadd', e, enc_score_spec(sp2)), 'impl': py_res(lambda: s + s2, show_score),
                          'input': {'oracle': 'concat', 'level': 'score', 'a': sp, 'b': sp2}, 'bucket': 'op=sadd', 'nontrivial': nt})
        elif k < 0.33:
            csp = rand_chord_spec(rng, (1, 2), (1, 3), prof)
            c = build_chord(csp)
            cases.append({'line': sx('saddc', e, enc_chord(c, ext_text=csp['ext'])), 'impl': py_res(lambda: s + c, show_score),
                          'input': {'oracle': 'concat', 'level': 'score', 'a': sp, 'b': [csp]}, 'bucket': 'op=saddc',
                          'nontrivial': nt})
        elif k < 0.48:
            kk = rng.randint(-1, 3)
            cases.append({'line': sx('smul', e, kk), 'impl': py_res(lambda: s * kk, show_score),
                          'input': {'oracle': 'repeat', 'level': 'score', 'obj': sp, 'k': kk},
                          'bucket': ['op=smul', f'k={kk}'], 'nontrivial': nt and kk > 0})
        elif k < 0.62:
            a = rand_arg(rng)
            v = build_arg(a)
            cases.append({'line': sx('sset', e, enc_arg(a)), 'impl': py_res_a(a, lambda: s.set_duration(v), show_score),
                          'input': {'oracle': 'set_duration', 'level': 'score', 'obj': sp, 'arg': a},
                          'bucket': ['op=sset', f'arg={a[0]}'], 'nontrivial': True})
        elif k < 0.77:
            a = rand_arg(rng)
            v = build_arg(a)
            cases.append({'line': sx('saug', e, enc_arg(a)), 'impl': py_res_a(a, lambda: s.augment(v), show_score),
                          'input': {'oracle': 'augment', 'level': 'score', 'obj': sp, 'arg': a},
                          'bucket': ['op=saug', f'arg={a[0]}'], 'nontrivial': True})
        elif k < 0.87:
            item = rng.choice(table)
            cases.append({'line': sx('ssuf', e, item), 'impl': py_res(lambda: getattr(s, item), show_score),
                          'input': {'oracle': 'suffix', 'score': sp, 'item': item}, 'bucket': 'op=ssuf', 'nontrivial': True})
        else:
            sp = rand_score_spec(rng, (1, 2), n_parts=(1, 2), n=(1, 3), profile='decomp')
            s = build_score(sp)
            cases.append({'line': sx('sdec', enc_score_spec(sp)), 'impl': py_res(lambda: s.decompose_duration(), show_score),
                          'input': {'oracle': 'decompose', 'level': 'score', 'obj': sp}, 'bucket': 'op=sdec', 'nontrivial': True})
    ctx.compare('score', 'C10', cases)


def correspondence(ctx):
    limit_cases(ctx)
    note_cases(ctx)
    melody_cases(ctx)
    chord_cases(ctx)
    score_cases(ctx)
    # kernel-level streams of the source tie (DESIGN §9.6)
    import srctie
    srctie.run(ctx, ['SrcDur'])
    srctie.run(ctx, ['SrcDurOps'], quick=1500, thorough=20000)     # four families of operations, see srcgroups/SrcDurOps.py


# ----------------------------------------------------------------------------- the property itself (oracles)

def exact(d):
    """an exact rational (no float); bool is not a duration"""
    return isinstance(d, numbers.Rational) and not isinstance(d, bool)


def den_ok(q):
    return F(q).denominator <= LIMIT


def in_domain(durs):
    """every duration and every partial sum within the documented resolution"""
    t = F(0)
    for d in durs:
        if not exact(d) or not den_ok(d):
            return False
        t += d
        if not den_ok(t):
            return False
    return True


def mel_durs(sp):
    return [F(x[3]) for x in sp]


def all_melodies(level, sp):
    if level == 'note':
        return [[sp]]
    if level == 'melody':
        return [sp]
    if level == 'chord':
        return [m for _, m in sp['parts']]
    return [m for c in sp for _, m in c['parts']]


def build(level, sp):
    return {'note': build_note, 'melody': build_melody, 'chord': build_chord, 'score': build_score}[level](sp)


def obj_melodies(level, x):
    """the real object's melodies as lists of notes, same order as all_melodies"""
    if level == 'note':
        return [[x]]
    if level == 'melody':
        return [list(x.notes)]
    if level == 'chord':
        return [list(m.notes) for m in x.score.values()]
    return [list(m.notes) for c in x.chords for m in c.score.values()]


def bad(observed, expected):
    return {'observed': observed, 'expected': expected}


def o_table(inp):
    """suffix values are the documented ones, the table has nothing else, DURATION_TO_STR inverts it"""
    from musiclang.write.constants import STR_TO_DURATION, DURATION_TO_STR
    from musiclang import Note
    spec = spec_table()
    k = inp['key']
    if k == '*keys':
        got = sorted(STR_TO_DURATION)
        return None if got == sorted(spec) else bad(got, sorted(spec))
    if k == '*inverse':
        inv = {v: kk for kk, v in STR_TO_DURATION.items()}
        ok = len(DURATION_TO_STR) == len(STR_TO_DURATION) and all(DURATION_TO_STR.get(v) == kk for v, kk in inv.items())
        return None if ok else bad({dur_str(a): b for a, b in DURATION_TO_STR.items()}, 'inverse of STR_TO_DURATION (31 distinct values)')
    got = getattr(Note('s', 0, 0, 1), k).duration
    if not exact(got) or got != spec[k]:
        return bad(dur_str(got), frac_str(spec[k]))
    got2 = getattr(Note('s', 0, 0, F(3, 5)), k).duration
    if not exact(got2) or got2 != spec[k] * F(3, 5):
        return bad(dur_str(got2), frac_str(spec[k] * F(3, 5)))
    return None


def o_suffix(inp):
    """x.<suffix> multiplies every note by the documented value (on the domain)"""
    spec = spec_table()
    item = inp['item']
    if item not in spec:
        raise NoOpinion()
    level = next(l for l in ('note', 'melody', 'chord', 'score') if l in inp)
    sp = inp[level]
    mels = all_melodies(level, sp)
    if not all(in_domain(mel_durs(m)) and in_domain([d * spec[item] for d in mel_durs(m)]) for m in mels):
        raise NoOpinion()
    if level in ('chord', 'score') and any(not c['parts'] for c in ([sp] if level == 'chord' else sp)):
        raise NoOpinion()   # an empty chord gets a rest of that length: covered by set_duration / correspondence
    r = getattr(build(level, sp), item)
    got = [[n.duration for n in m] for m in obj_melodies(level, r)]
    exp = [[d * spec[item] for d in mel_durs(m)] for m in mels]
    if all(exact(d) for m in got for d in m) and got == exp:
        return None
    return bad([[dur_str(d) for d in m] for m in got], [[frac_str(d) for d in m] for m in exp])


def o_sum(inp):
    """melody = sum of its notes, chord = longest part (0 without parts), score = sum of chords; onsets = prefix sums"""
    level, sp = inp['level'], inp['obj']
    x = build(level, sp)

    def msum(m):
        return sum(mel_durs(m), F(0))

    if level == 'melody':
        exp = msum(sp)
        on, t = [], F(0)
        for d in mel_durs(sp):
            on.append(t)
            t += d
        got_on = x.get_onset_times()
        if [F(a) for a in got_on] != on or not all(exact(a) for a in got_on):
            return bad([dur_str(a) for a in got_on], [frac_str(a) for a in on])
    elif level == 'chord':
        exp = max([msum(m) for _, m in sp['parts']], default=F(0))
    else:
        exp = sum([max([msum(m) for _, m in c['parts']], default=F(0)) for c in sp], F(0))
    got = x.duration
    if exact(got) and got == exp:
        return None
    return bad(dur_str(got), frac_str(exp))


def o_concat(inp):
    """duration(a + b) = duration(a) + duration(b)"""
    level = inp['level']
    a, b = build(level, inp['a']), build(level, inp['b'])
    mels = all_melodies(level, inp['a']) + all_melodies(level, inp['b'])
    if not all(in_domain(mel_durs(m)) for m in mels):
        raise NoOpinion()
    exp = a.duration + b.duration
    r = a + b
    got = r.duration
    if exact(got) and got == exp:
        return None
    return bad(dur_str(got), frac_str(exp))


def o_repeat(inp):
    """duration(x * k) = k * duration(x) for k >= 0"""
    level, sp, k = inp['level'], inp['obj'], inp['k']
    if k < 0:
        raise NoOpinion()
    if not all(in_domain(mel_durs(m)) for m in all_melodies(level, sp)):
        raise NoOpinion()
    x = build(level, sp)
    exp = k * F(x.duration)
    r = x * k
    if r is None:
        return bad('None', f'an object of duration {frac_str(exp)}')
    got = r.duration
    if exact(got) and got == exp:
        return None
    return bad(dur_str(got), frac_str(exp))


def o_augment(inp):
    """augment(k) multiplies every note by k (on the domain)"""
    level, sp, a = inp['level'], inp['obj'], inp['arg']
    k = arg_value(a)
    if k is None or not den_ok(k):
        raise NoOpinion()      # a float outside the resolution is rounded first (documented), no opinion
    mels = all_melodies(level, sp)
    if not all(in_domain(mel_durs(m)) and in_domain([d * k for d in mel_durs(m)]) for m in mels):
        raise NoOpinion()
    if level in ('chord', 'score') and any(not c['parts'] for c in ([sp] if level == 'chord' else sp)):
        raise NoOpinion()      # empty chord: augment creates a rest of length k (correspondence only)
    x = build(level, sp)
    before = x.duration
    r = x.augment(build_arg(a))
    got = [[n.duration for n in m] for m in obj_melodies(level, r)]
    exp = [[d * k for d in mel_durs(m)] for m in mels]
    if not (all(exact(d) for m in got for d in m) and got == exp):
        return bad([[dur_str(d) for d in m] for m in got], [[frac_str(d) for d in m] for m in exp])
    # totals: a melody always scales; a chord is a max over parts, which scales for k >= 0 only
    if level != 'note' and (level == 'melody' or k >= 0) and not (exact(r.duration) and r.duration == k * before):
        return bad(dur_str(r.duration), frac_str(k * before))
    return None


def o_set_duration(inp):
    """set_duration(d) yields exactly d (note, melody of non-zero length, chord whose parts all have non-zero length,
    empty chord; a score: every chord)"""
    level, sp, a = inp['level'], inp['obj'], inp['arg']
    d = arg_value(a)
    if d is None or not den_ok(d):
        raise NoOpinion()
    mels = all_melodies(level, sp)
    for m in mels:
        D = sum(mel_durs(m), F(0))
        if level != 'note':
            if D == 0:
                raise NoOpinion()      # cannot be rescaled (ZeroDivisionError, stated as hypothesis)
            if not (in_domain(mel_durs(m)) and in_domain([x * d / D for x in mel_durs(m)])):
                raise NoOpinion()
            if a[0] == 'f':
                # a float length is divided by the (float) melody length: that ratio is an intermediate value of
                # the operation and must itself be inside the resolution ("every intermediate duration")
                ratio = F(*(float(a[1]) / float(D)).as_integer_ratio())
                if ratio != d / D or not den_ok(ratio):
                    raise NoOpinion()
    x = build(level, sp)
    r = x.set_duration(build_arg(a))
    if level == 'score':
        got = [c.duration for c in r.chords]
        exp = [d for _ in sp]
    elif level == 'chord' and sp['parts']:
        got = [m.duration for m in r.score.values()] + [r.duration]
        exp = [d for _ in sp['parts']] + [d]
    else:
        got, exp = [r.duration], [d]
    if all(exact(g) for g in got) and got == exp:
        return None
    return bad([dur_str(g) for g in got], [frac_str(e) for e in exp])


def o_decompose(inp):
    """decompose_duration keeps every onset and the total, adds only continuations, and every piece it splits
    off is a table figure"""
    from musiclang.write.constants import DURATION_TO_STR
    level, sp = inp['level'], inp['obj']
    mels = all_melodies(level, sp)
    if not all(in_domain(mel_durs(m)) for m in mels):
        raise NoOpinion()
    x = build(level, sp)
    try:
        r = x.decompose_duration()
    except Exception as e:  # noqa
        return bad(f'{type(e).__name__}: {e}', 'a decomposition with the same onsets and total')
    for m_sp, m in zip(mels, obj_melodies(level, r)):
        want = f'for each note of {m_sp}: the note itself (shorter), then continuations with table durations, same total'
        j = 0
        for t, v, o, d in m_sp:
            d = F(d)
            if j >= len(m):
                return bad(show_notes(m), want)
            head = m[j]
            j += 1
            if (head.type, int(head.val), int(head.octave)) != (t, v, o) or not exact(head.duration):
                return bad(show_notes(m), want)
            acc = head.duration
            while acc != d:
                if j >= len(m) or (d > 0 and acc > d):
                    return bad(show_notes(m), want)
                n = m[j]
                j += 1
                if n.type != 'l' or not exact(n.duration) or n.duration not in DURATION_TO_STR or n.duration <= 0:
                    return bad(show_notes(m), want)
                acc += n.duration
        if j != len(m):
            return bad(show_notes(m), want)
    return None


def o_limit(inp):
    """Fraction.limit_denominator is the identity within the resolution and returns a closest fraction outside"""
    q, mx = F(inp['q']), inp['max']
    if mx < 1:
        raise NoOpinion()
    r = q.limit_denominator(mx)
    if q.denominator <= mx:
        return None if r == q else bad(frac_str(r), frac_str(q))
    if r.denominator > mx:
        return bad(frac_str(r), f'denominator <= {mx}')
    return None


class NoOpinion(Exception):
    """the input is outside the property's domain (resolution, zero length, malformed argument)"""


OPINION = {'last': True}


def _guard(fn):
    """the property is about values: an unexpected exception of the real code is a failure of it"""
    def run(inp):
        OPINION['last'] = True
        try:
            return fn(inp)
        except NoOpinion:
            OPINION['last'] = False
            return None
        except Exception as e:  # noqa
            return bad(f'{type(e).__name__}: {e}', 'no exception')
    run.__doc__ = fn.__doc__
    return run


ORACLES = {k: _guard(f) for k, f in {'table': o_table, 'suffix': o_suffix, 'sum': o_sum, 'concat': o_concat,
                                     'repeat': o_repeat, 'augment': o_augment, 'set_duration': o_set_duration,
                                     'decompose': o_decompose, 'limit': o_limit}.items()}


def signature(name, inp):
    """<oracle>:<narrow class of the failing input>"""
    if name == 'table':
        return f'table:{inp["key"]}'
    if name == 'suffix':
        level = next(l for l in ('note', 'melody', 'chord', 'score') if l in inp)
        return f'suffix:{level}.{inp["item"]}'
    if name == 'repeat':
        return f'repeat:{inp["level"]}*{"0" if inp["k"] == 0 else "k"}'
    if name in ('augment', 'set_duration'):
        sp = inp['obj']
        empty = inp['level'] == 'chord' and not sp['parts']
        return f'{name}:{"empty-" if empty else ""}{inp["level"]}:arg={inp["arg"][0]}'
    if name == 'decompose':
        mels = all_melodies(inp['level'], inp['obj'])
        if inp['level'] == 'melody' and not inp['obj']:
            return 'decompose:empty-melody'
        if any(not m for m in mels):
            return f'decompose:{inp["level"]}-with-empty-part'
        return f'decompose:{inp["level"]}'
    if name in ('sum', 'concat'):
        return f'{name}:{inp["level"]}'
    return name


def run_oracle(ctx, name, inp, bucket=None):
    r = ORACLES[name](inp)
    ctx.count('oracle', key=(name, str(inp)), bucket=[bucket or name, 'in-domain' if OPINION['last'] else 'outside-domain'],
              nontrivial=OPINION['last'])
    if r:
        ctx.fail(signature(name, inp), inp, r['observed'], r['expected'], oracle=name)


def oracle(ctx):
    rng = ctx.rng
    # 1 suspects: the inputs at which model and code disagreed
    for _stream, inp in ctx.suspects:
        if isinstance(inp, dict) and inp.get('oracle') in ORACLES:
            run_oracle(ctx, inp['oracle'], {k: v for k, v in inp.items() if k != 'oracle'}, bucket='suspect')
    # 2 the table, every cell
    for k in list(spec_table()) + ['*keys', '*inverse']:
        run_oracle(ctx, 'table', {'key': k})
    # 3 known witnesses and small enumerated inputs
    q = ['s', 0, 0, '1']
    run_oracle(ctx, 'repeat', {'level': 'score', 'obj': [{'parts': [['piano__0', [q]]]}], 'k': 0})
    run_oracle(ctx, 'set_duration', {'level': 'chord', 'obj': {'parts': []}, 'arg': ['f', 0.0625]})
    run_oracle(ctx, 'decompose', {'level': 'melody', 'obj': []})
    small = [F(a, b) for b in (1, 2, 3, 4, 5, 7, 8) for a in range(0, 9)]
    for d in sorted(set(small)):
        sp = ['s', 1, 0, frac_str(d)]
        run_oracle(ctx, 'decompose', {'level': 'melody', 'obj': [sp]})
        for a in (['i', 2], ['q', '2/3'], ['q', '7/4'], ['f', 0.5], ['i', 0]):
            run_oracle(ctx, 'augment', {'level': 'note', 'obj': sp, 'arg': a})
            run_oracle(ctx, 'set_duration', {'level': 'note', 'obj': sp, 'arg': a})
            run_oracle(ctx, 'set_duration', {'level': 'melody', 'obj': [sp, ['l', 0, 0, '1/2']], 'arg': a})
        for k in range(0, 4):
            run_oracle(ctx, 'repeat', {'level': 'melody', 'obj': [sp, q], 'k': k})
    for item in spec_table():
        run_oracle(ctx, 'suffix', {'melody': [q, ['r', 0, 0, '3/2'], ['h', 3, 1, '2/3']], 'item': item})
        run_oracle(ctx, 'suffix', {'chord': {'parts': [['piano__0', [q, q]], ['violin__0', [['s', 2, 0, '1/2']]]]}, 'item': item})
        run_oracle(ctx, 'set_duration', {'level': 'chord', 'obj': {'parts': []}, 'arg': ['q', frac_str(spec_table()[item])]})
    # 4 random inputs
    for _ in range(ctx.n(3000, 100000)):
        level = rng.choice(['note', 'melody', 'melody', 'chord', 'chord', 'score'])
        op = rng.choice(['sum', 'concat', 'repeat', 'augment', 'augment', 'set_duration', 'set_duration', 'decompose', 'suffix'])
        prof = 'decomp' if op == 'decompose' else 'domain'

        def obj():
            if level == 'note':
                return rand_note_spec(rng, prof)
            if level == 'melody':
                return rand_melody_spec(rng, (1, 5), prof)
            if level == 'chord':
                return rand_chord_spec(rng, (0, 3) if rng.random() < 0.15 and op != 'decompose' else (1, 3), (1, 4), prof)
            return rand_score_spec(rng, (1, 3), n_parts=(1, 2), n=(1, 3), profile=prof)

        if op == 'sum':
            if level == 'note':
                continue
            inp = {'level': level, 'obj': obj()}
        elif op == 'concat':
            a, b = obj(), obj()
            if level == 'note':
                level2, a, b = 'melody', [a], [b]
            else:
                level2 = level
            inp = {'level': level2, 'a': a, 'b': b}
        elif op == 'repeat':
            inp = {'level': level, 'obj': obj(), 'k': rng.randint(0, 4)}
        elif op in ('augment', 'set_duration'):
            inp = {'level': level, 'obj': obj(), 'arg': rand_arg(rng, p_bad=0)}
        elif op == 'decompose':
            o = obj()
            inp = {'level': 'melody', 'obj': [o]} if level == 'note' else {'level': level, 'obj': o}
        else:
            inp = {level: obj(), 'item': rng.choice(list(spec_table()))}
        run_oracle(ctx, op, inp, bucket=f'{op}:{level}')
