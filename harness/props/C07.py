"""C07 — the MIDI file written for a score contains exactly its sounding notes."""
import sys, os, tempfile, shutil, io, contextlib
sys.dont_write_bytecode = True
from fractions import Fraction
import core, gen, sound, smf
from core import sx, enc_score, py_res, frac_str

ID = 'C07'
LEAN_MODULES = ['MV.Props.C07']
LEAN_HELPERS = ['MV.Lemmas.Midi', 'MV.Lemmas.Window', 'MV.Lemmas.Asc', 'MV.Model.Midi', 'MV.Model.Render', 'MV.Model.Pitch',
                'MV.Model.Rel', 'MV.Model.Basic']
DRIVERS = ['C07']
GEN = ['Tables', 'Library', 'Instruments']
SRC_TIE = ['SrcMidiUtil']   # py2lean source images of number_to_channel / voice_to_channel / tracks_to_instruments / get_track_list proved equal to the model (MV/Props/TieSrcMidiUtil.lean)
RULE = ('stream file (500 quick / 5000 thorough): random scores (1-4 chords, 1-5 parts drawn from instrument sets with '
        'several parts of one instrument, drums, unknown names; rests/continuations anywhere; durations on and off the '
        '480-tick grid; dynamics; a few notes with tempo/pedal attributes) x tempo x time signature (10% malformed '
        'requests, one defect each) -> Score.to_midi(path) -> the file read back by the independent reader '
        'harness/smf.py (cross-checked against mido on every file) -> per track {program change, tempo, time '
        'signature} + note messages (tick, type, channel, key, velocity) in file order, compared with the Lean model; '
        'stream matrix (400 / 4000): raw note matrices (up to 20 programs, continuations without a previous note, no '
        'sounding row, out-of-range bytes) through to_midi(); stream small: bpm2tempo on 1..39 + random + tie cases, '
        'and the program of 134 names x 4 spellings of the part name. non-trivial = at least two parts or a '
        'continuation (file), more than one row (matrix); distinct = distinct request line')
TRUSTED = ['hand-written model of midi_utils.py / tracks_to_instruments (MV/Model/Midi.lean) on top of the note matrix '
           '(MV/Model/Render.lean), tied to the code by the streams file/matrix/small',
           'pandas stable multi-key sort and groupby-diff, mido byte encoding: exercised through the written file, '
           'which is read back with harness/smf.py (own SMF parser), not proved',
           'mido range checks (data bytes 0..127, channel 0..15, tempo < 2^24, time-signature denominator a power '
           'of two) are modelled as ValueError branches',
           'source tie SrcMidiUtil: the spec bindings of harness/srcgroups/SrcMidiUtil.py (str.split as a scan for the leftmost '
           'non-overlapping separators, enumerate, dict.get, list(dict.fromkeys(..)) as first-appearance order, the dict '
           '{track: program} as its association list)']
ASSUMPTIONS = ['durations with denominators <= 1000 and > 0', 'integer tempo (bpm)',
               'ornament tags are not rendered by the model (C16)',
               'tick positions are claimed exact only when every onset and end is a whole number of ticks; elsewhere '
               'the model reproduces the int() truncation of every delta and the streams still compare',
               'one channel per program needs the program set to fit the 15 non-drum channels']

TEMPI = [120, 97, 60, 30, 240, 512, 7, 121, 333]
SIGS = [(4, 4), (3, 4), (6, 8), (2, 2), (5, 16), (12, 8), (1, 1), (7, 32)]
TPB = 480

# General MIDI level 1 sound set (program numbers 0..127) in the library's spelling of the names; written from
# the GM specification, independent of musiclang.write.out.constants
GM = ['piano', 'bright_piano', 'electric_piano', 'honky_tonk', 'electric_piano_1', 'electric_piano_2', 'harpsichord',
      'clavi', 'celesta', 'glockenspiel', 'music_box', 'vibraphone', 'marimba', 'xylophone', 'tubular_bells',
      'dulcimer', 'drawbar_organ', 'percussive_organ', 'rock_organ', 'church_organ', 'reed_organ', 'accordion',
      'harmonica', 'tango_accordion', 'acoustic_guitar', 'steel_guitar', 'jazz_guitar', 'clean_guitar',
      'muted_guitar', 'overdriven_guitar', 'distortion_guitar', 'harmonic_guitar', 'acoustic_bass',
      'electric_bass_finger', 'electric_bass_pick', 'fretless_bass', 'slap_bass_1', 'slap_bass_2', 'synth_bass_1',
      'synth_bass_2', 'violin', 'viola', 'cello', 'contrabass', 'tremolo_string', 'pizzicato', 'harp', 'timpani',
      'string_ensemble_1', 'string_ensemble_2', 'synth_string_1', 'synth_string_2', 'choir_aahs', 'choir_oohs',
      'synth_choir', 'orchestra_hit', 'trumpet', 'trombone', 'tuba', 'muted_trumpet', 'french_horn',
      'brass_section', 'synth_brass_1', 'synth_brass_2', 'soprano_sax', 'alto_sax', 'tenor_sax', 'baritone_sax',
      'oboe', 'english_horn', 'bassoon', 'clarinet', 'piccolo', 'flute', 'recorder', 'pan_flute', 'blown_bottle',
      'shakuhachi', 'whistle', 'ocarina', 'square_lead', 'sawtooth_lead', 'calliope_lead', 'chiff_lead',
      'charang_lead', 'voice_lead', 'fifths_lead', 'bass_lead', 'pad_new_age', 'pad_warm', 'pad_polysynth',
      'pad_choir', 'pad_bowed', 'pad_metallic', 'pad_halo', 'pad_sweep', 'fx_rain', 'fx_soundtrack', 'fx_crystal',
      'fx_atmosphere', 'fx_brightness', 'fx_globlins', 'fx_echoes', 'fx_sci_fi', 'sitar', 'banjo', 'shamisen', 'koto',
      'kalimba', 'bagpipe', 'fiddle', 'shanai', 'tinkle_bell', 'agogo', 'steel_drums', 'woodblock', 'taiko_drum',
      'melodic_tom', 'synth_drum', 'reverse_cymbal', 'guitar_fret_noise', 'breath_noise', 'seashore', 'bird_tweet',
      'telephone_ring', 'helicopter', 'applause', 'gunshot']
assert len(GM) == 128 and len(set(GM)) == 128
DRUM_NAMES = ['drums_0', 'drums']

_TMP = None


def tmp_path():
    global _TMP
    if _TMP is None or not os.path.isdir(_TMP):
        _TMP = tempfile.mkdtemp(prefix='mv-c07-')
        import atexit
        atexit.register(shutil.rmtree, _TMP, True)
    return os.path.join(_TMP, 'out.mid')

# ----------------------------------------------------------------------------- reading a file back


def canon_tracks(tracks):
    """tracks: lists of tuples (kind, tick, ...) in file order.  Per track: the set of program-change / tempo /
    time-signature messages (their mutual order is not observable by the property; that the program change precedes
    the notes is checked by the oracle), then the note messages in file order, except that the order inside a run of
    messages of the same kind at the same tick is not observable either (a multiset)."""
    out = []
    for tr in tracks:
        head = sorted(m for m in tr if m[0] in ('pc', 'tempo', 'ts'))
        res, run = [], []
        for m in tr:
            if m[0] not in ('on', 'off'):
                continue
            if run and (run[-1][0], run[-1][1]) != (m[0], m[1]):
                res += sorted(run)
                run = []
            run.append(m)
        res += sorted(run)
        out.append((head, res))
    return str(out)


def file_tracks(path, check_mido=True):
    """the observables of a written file: per track program changes, the first tempo and time signature, notes"""
    f = smf.read(path)
    if f['division'] != TPB or f['format'] != 1:
        return f"header: format {f['format']} division {f['division']}"
    if check_mido:
        cross_check_mido(path, f)
    tracks = []
    for i, tr in enumerate(f['tracks']):
        out = []
        seen = set() if i == 0 else {'tempo', 'ts'}    # the requested tempo / signature live on track 0
        for e in tr:
            t = e['type']
            if t == 'program_change':
                out.append(('pc', e['tick'], e['channel'], e['program']))
            elif t == 'note_on':
                out.append(('on', e['tick'], e['channel'], e['note'], e['velocity']))
            elif t == 'note_off':
                out.append(('off', e['tick'], e['channel'], e['note'], e['velocity']))
            elif t == 'meta' and e['name'] == 'set_tempo' and 'tempo' not in seen:
                seen.add('tempo')
                out.append(('tempo', e['tick'], e['tempo']))
            elif t == 'meta' and e['name'] == 'time_signature' and 'ts' not in seen:
                seen.add('ts')
                out.append(('ts', e['tick'], e['numerator'], e['denominator']))
        tracks.append(out)
    return canon_tracks(tracks)


class ReaderMismatch(Exception):
    pass


def cross_check_mido(path, f):
    """the independent reader and mido must see the same channel messages and tempo / time-signature metas"""
    import mido
    mid = mido.MidiFile(path)
    if len(mid.tracks) != len(f['tracks']) or mid.ticks_per_beat != f['division']:
        raise ReaderMismatch('track count / division')
    for mt, st in zip(mid.tracks, f['tracks']):
        a, t = [], 0
        for m in mt:
            t += m.time
            if m.type in ('note_on', 'note_off'):
                a.append((t, m.type, m.channel, m.note, m.velocity))
            elif m.type == 'program_change':
                a.append((t, m.type, m.channel, m.program))
            elif m.type == 'control_change':
                a.append((t, m.type, m.channel, m.control, m.value))
            elif m.type == 'set_tempo':
                a.append((t, m.type, m.tempo))
            elif m.type == 'time_signature':
                a.append((t, m.type, m.numerator, m.denominator))
        b = []
        for e in st:
            if e['type'] in ('note_on', 'note_off'):
                b.append((e['tick'], e['type'], e['channel'], e['note'], e['velocity']))
            elif e['type'] == 'program_change':
                b.append((e['tick'], e['type'], e['channel'], e['program']))
            elif e['type'] == 'control_change':
                b.append((e['tick'], e['type'], e['channel'], e['control'], e['value']))
            elif e['type'] == 'meta' and e['name'] == 'set_tempo':
                b.append((e['tick'], 'set_tempo', e['tempo']))
            elif e['type'] == 'meta' and e['name'] == 'time_signature':
                b.append((e['tick'], 'time_signature', e['numerator'], e['denominator']))
        if a != b:
            raise ReaderMismatch(f'{a[:6]} vs {b[:6]}')


def canon_model(out):
    """the driver's reply -> the same canonical string"""
    tracks = []
    for tr in core.parse_sx(out):
        tracks.append([(m[0],) + tuple(int(x) for x in m[1:]) for m in tr])
    return canon_tracks(tracks)


def export_score(score, tempo, ts):
    path = tmp_path()
    if os.path.exists(path):
        os.unlink(path)
    with contextlib.redirect_stdout(io.StringIO()):     # the library prints a line per orphan continuation
        score.to_midi(path, tempo=tempo, time_signature=tuple(ts))
    return file_tracks(path)


def export_matrix(rows, tracks, tempo, ts):
    from musiclang.write.out.to_midi import to_midi, tracks_to_instruments
    path = tmp_path()
    if os.path.exists(path):
        os.unlink(path)
    instruments, names = tracks_to_instruments(tracks)
    with contextlib.redirect_stdout(io.StringIO()):
        to_midi([list(r) + [None, None] for r in rows], output_file=path, instruments=instruments, instrument_names=names,
                tempo=tempo, time_signature=tuple(ts))
    return file_tracks(path)

# ----------------------------------------------------------------------------- generators


PART_SETS = [
    ['piano__0'], ['piano__0', 'piano__1'], ['piano__0', 'violin__0', 'piano__1'],
    ['violin__0', 'piano__0', 'drums_0__0'], ['drums_0__0', 'flute__0'], ['piano__0', 'violin__0', 'drums__0', 'flute__0', 'violin__1'],
    ['cello__0', 'cello__1', 'harp__0'], ['trumpet__0', 'acoustic_guitar__0', 'trumpet__1', 'piano__0'],
    ['drums_0__0', 'drums_0__1'], ['kazoo__0', 'piano__0'], ['glockenspiel__0', 'music_box__0', 'celesta__0', 'piano__0'],
    ['gunshot__0', 'violin__0'], ['flute__0'], ['pizzicato__0', 'tremolo_string__0', 'harp__0'],
]


def rand_parts(rng):
    if rng.random() < 0.75:
        return list(rng.choice(PART_SETS))
    names = rng.sample(GM, rng.randint(1, 4)) + ([rng.choice(DRUM_NAMES)] if rng.random() < 0.4 else [])
    parts = []
    for n in names:
        for i in range(rng.choice([1, 1, 1, 2])):
            parts.append(f'{n}__{i}')
    rng.shuffle(parts)
    return parts[:5]


def rand_score(ctx, referenced=False, in_range=False):
    rng = ctx.rng
    kinds = gen.NONREL + ['d'] + (gen.REL if rng.random() < 0.4 else [])
    grid = rng.random() < 0.55
    durs = [Fraction(n, d) for n in (1, 2, 3, 5) for d in (1, 2, 3, 4, 8, 16)] if grid else None
    s = None
    for _ in range(200):
        parts = rand_parts(rng)
        s = build_score(rng, parts, kinds, durs)
        if referenced and not sound.well_referenced(s):
            continue
        if in_range and not domain_ok(s):
            continue
        return s
    return s


def build_score(rng, parts, kinds, durs):
    """like gen.rand_score; a drums part is converted to drum notes when the chord is built, which needs
    non-relative notes"""
    from musiclang import Score
    chords = []
    for _ in range(rng.randint(1, 4)):
        c, _t = gen.rand_chord(rng, octaves=(-1, 1), max_mods=2)
        sc = {}
        for p in parts:
            if rng.random() < 0.2 and len(parts) > 1 and (sc or p != parts[-1]):
                continue
            k = [x for x in kinds if x not in gen.REL] if p.startswith('drum') else kinds
            same_ins = [q for q in sc if q.split('__')[0] == p.split('__')[0]]
            if same_ins and rng.random() < 0.3:
                # a unison doubling inside one instrument: the two parts share a track and a channel and every note is
                # written twice, once per sounding note (seed C07-9 dropped the duplicate rows)
                from musiclang import Melody
                sc[p] = Melody([n.copy() for n in sc[rng.choice(same_ins)].notes])
                continue
            sc[p] = gen.rand_melody(rng, kinds=k, p_rest=0.15, p_cont=0.2, vals=(0, 8), octs=(-1, 1), p_amp=0.4, durs=durs)
        chords.append(c(**sc))
    score = Score(chords)
    if rng.random() < 0.2:        # arbitrary amplitudes 1..127, not only the nine dynamics figures (seed C03-4)
        for ch in score.chords:
            for m in ch.score.values():
                for n in m.notes:
                    if n.type not in ('r', 'l') and rng.random() < 0.4:
                        n.amp = rng.choice([1, 20, 115, 119, 120, 121, 124, 126, 127, rng.randint(1, 127)])
    return score


def domain_ok(score):
    """>= 1 sounding note, keys in 0..127, velocities in 1..127, the programs fit the 15 non-drum channels"""
    try:
        sp = sound.spec_sound(score)
    except Exception:
        return False
    notes = [n for evs in sp.values() for n in evs]
    if not notes:
        return False
    if not all(0 <= 60 + p <= 127 and 1 <= v <= 127 and d > 0 for p, o, d, v in notes):
        return False
    return len(programs_needed(score)) <= 15


def programs_needed(score):
    return {expected_program(p.split('__')[0]) for p in sound.part_names(score)} - {'drums'}


def expected_program(name):
    """GM program of an instrument name ('drums' for the percussion channel, 0 for an unknown name)"""
    if name.startswith('drums'):
        return 'drums'
    return GM.index(name) if name in GM else 0


def features(s, exact=None):
    f = []
    notes = [n for c in s.chords for m in c.score.values() for n in m.notes]
    names = sound.part_names(s)
    insts = [p.split('__')[0] for p in names]
    if any(n.type == 'l' for n in notes):
        f.append('cont')
    if any(n.type == 'r' for n in notes):
        f.append('rest')
    if len(names) > 1:
        f.append('multi-part')
    if len(set(insts)) < len(insts):
        f.append('shared-instrument')
    if any(i.startswith('drums') for i in insts):
        f.append('drums')
    if any(p not in c.score for c in s.chords for p in names):
        f.append('absent')
    if exact is None:
        exact = whole_ticks(s)
    f.append('whole-ticks' if exact else 'off-grid')
    return f


def whole_ticks(s):
    return all((Fraction(n.duration) * TPB).denominator == 1 for c in s.chords for m in c.score.values() for n in m.notes)


def decorate(ctx, s):
    """a few notes carry a tempo change / pedal: they add messages with delta 0 that the property does not talk about"""
    rng = ctx.rng
    if rng.random() < 0.15:
        for c in s.chords:
            for m in c.score.values():
                for n in m.notes:
                    x = rng.random()
                    if x < 0.1:
                        n.tempo = rng.choice([60, 90, 144])
                    elif x < 0.2:
                        n.pedal = rng.choice([True, False])
        return True
    return False


def rand_matrix(ctx):
    """a raw note matrix as get_notes would build it (track after track, offsets running), plus odd ones"""
    rng = ctx.rng
    kind = rng.choice(['plain', 'plain', 'many', 'odd', 'bytes', 'empty'])
    ntr = rng.randint(1, 4)
    if kind == 'many':
        ntr = rng.randint(13, 20)
    pool = GM + DRUM_NAMES
    if kind == 'many':
        names = rng.sample([g for g in GM if g != 'piano'], ntr) + (['piano'] if rng.random() < 0.5 else [])
        if rng.random() < 0.5:
            names.append('drums_0')
        rng.shuffle(names)
    else:
        names = [rng.choice(pool) if rng.random() < 0.7 else rng.choice(['piano', 'violin', 'drums_0']) for _ in range(ntr)]
    tracks = [f'{n}__{i}' for i, n in enumerate(names)]
    rows = []
    for t in range(len(tracks)):
        time = Fraction(0)
        for _ in range(rng.randint(0 if kind in ('odd', 'empty') else 1, 2 if kind == 'many' else 5)):
            d = Fraction(rng.randint(1, 8), rng.choice([1, 2, 3, 4, 7, 16]))
            x = rng.random()
            sil = cont = 0
            if kind == 'empty':
                sil = int(rng.random() < 0.5)
                cont = 1 - sil
            elif x < 0.15:
                sil = 1
            elif x < 0.35:
                cont = 1
            pitch = rng.randint(-24, 30)
            vel = rng.choice([66, 66, 1, 127, Fraction(192, 10), 108])
            if kind == 'bytes' and rng.random() < 0.2:
                if rng.random() < 0.5:
                    pitch = rng.choice([-61, 68, -60, 67, 200])
                else:
                    vel = rng.choice([0, 128, -1, Fraction(1279, 10), 300])
            rows.append((pitch, time, d, vel, t, sil, cont))
            time += d
    return kind, rows, tracks


def enc_rows(rows):
    return [[int(p), Fraction(o), Fraction(d), Fraction(v), int(t), int(s), int(c)] for p, o, d, v, t, s, c in rows]

# ----------------------------------------------------------------------------- correspondence


def correspondence(ctx):
    rng = ctx.rng
    cases = []
    for i in range(ctx.n(500, 5000)):
        s = rand_score(ctx)
        ft = features(s)
        text = str(s)
        deco = decorate(ctx, s)
        if rng.random() < 0.9:
            tempo, ts = rng.choice(TEMPI), rng.choice(SIGS)
        elif rng.random() < 0.5:   # malformed requests, one defect at a time (which error wins is not observable)
            tempo, ts = rng.choice([0, 3, -5]), (4, 4)
        else:
            tempo, ts = 120, rng.choice([(5, 6), (256, 4), (4, 0)])
        line = sx('midi', enc_score(s), tempo, ts[0], ts[1])
        impl = py_res(lambda: export_score(s, tempo, ts))
        cases.append({'line': line, 'impl': impl, 'canon': canon_model,
                      'input': {'score': text, 'tempo': tempo, 'ts': list(ts), 'amps': sound.amps_of(s)},
                      'bucket': ft + [f'tempo={tempo}', f'ts={ts[0]}/{ts[1]}', 'result=' + (impl if impl.startswith('ERR:') else 'file')]
                      + (['tempo/pedal-notes'] if deco else []),
                      'nontrivial': 'multi-part' in ft or 'cont' in ft})
    ctx.compare('file', 'C07', cases)

    cases = []
    for i in range(ctx.n(400, 4000)):
        kind, rows, tracks = rand_matrix(ctx)
        tempo, ts = rng.choice(TEMPI), rng.choice(SIGS)
        line = sx('matrix', enc_rows(rows), tracks, tempo, ts[0], ts[1])
        impl = py_res(lambda: export_matrix(rows, tracks, tempo, ts))
        cases.append({'line': line, 'impl': impl, 'canon': canon_model,
                      'input': {'matrix': [[int(p), frac_str(o), frac_str(d), frac_str(v), t, s_, c] for p, o, d, v, t, s_, c in rows],
                                'tracks': tracks, 'tempo': tempo, 'ts': list(ts)},
                      'bucket': [f'kind={kind}', f'tracks={min(len(tracks), 13)}{"+" if len(tracks) >= 13 else ""}',
                                 'result=' + (impl if impl.startswith('ERR:') else 'file')],
                      'nontrivial': len(rows) > 1})
    ctx.compare('matrix', 'C07', cases)

    import mido
    from musiclang.write.out.to_midi import tracks_to_instruments
    cases = []
    for b in list(range(1, 40)) + [rng.randint(40, 1200) for _ in range(ctx.n(60, 600))] + [512, 1536, 2560, 234375]:
        cases.append({'line': sx('bpm2tempo', b), 'impl': py_res(lambda: int(mido.bpm2tempo(b))), 'input': {'bpm': b},
                      'bucket': 'bpm2tempo', 'nontrivial': True})
    for name in GM + DRUM_NAMES + ['kazoo', 'drum', 'piano_', '_piano']:
        for part in (f'{name}__0', name, f'{name}__1__x', f'{name}___2'):
            cases.append({'line': sx('program', part), 'impl': py_res(lambda: int(tracks_to_instruments([part])[0][0])),
                          'input': {'part': part}, 'bucket': 'program', 'nontrivial': True})
    ctx.compare('small', 'C07', cases)
    # kernel-level streams of the source tie (DESIGN §9.6): real function vs model, real function vs generated source image
    import srctie
    srctie.run(ctx, SRC_TIE)
    from importlib.metadata import version
    ctx.note('installed: ' + ', '.join(f'{m} {version(m)}' for m in ('pandas', 'mido', 'numpy')))

# ----------------------------------------------------------------------------- oracle: the property itself


def expected_file(score, tempo, ts):
    """What the property says the file contains, from the score alone (sound.spec_sound is the independent
    denotation of C03): {group: sorted [(key, on tick, off tick, velocity)]} with exact rational ticks."""
    sp = sound.spec_sound(score)
    groups = {}
    for part, evs in sp.items():
        g = expected_program(part.split('__')[0])
        for p, o, d, v in evs:
            groups.setdefault(g, []).append((60 + p, o * TPB, (o + d) * TPB, v))
    return {g: sorted(v) for g, v in groups.items()}


def check_file(inp):
    """oracle `file`: export, read back with the independent reader, compare with the property"""
    s = sound.load_score(inp['score'], inp.get('amps'))
    tempo, ts = inp['tempo'], tuple(inp['ts'])
    exp = expected_file(s, tempo, ts)
    path = tmp_path()
    if os.path.exists(path):
        os.unlink(path)
    # the same export through another public entry point / with the tempo given as another kind of number
    # (seed C07-6: Chord.to_midi dropped tempo and time signature; C03-6: non-int tempi replaced by 120)
    via = inp.get('via', 'score')
    targ = tempo
    if inp.get('tempo_kind') == 'float':
        targ = float(tempo)
    elif inp.get('tempo_kind') == 'npint':
        import numpy as np
        targ = np.int64(tempo)
    try:
        with contextlib.redirect_stdout(io.StringIO()):
            if via == 'chord' and len(s.chords) == 1:
                s.chords[0].to_midi(path, tempo=targ, time_signature=ts)
            elif via == 'function':
                from musiclang.write.out.to_midi import score_to_midi
                score_to_midi(s, path, tempo=targ, time_signature=ts)
            else:
                s.to_midi(path, tempo=targ, time_signature=ts)
    except Exception as e:
        return {'observed': f'{type(e).__name__}: {e}', 'expected': 'export succeeds', 'class': 'export-raises'}
    try:
        f = smf.read(path)
        cross_check_mido(path, f)
    except (smf.SMFError, ReaderMismatch) as e:
        return {'observed': f'unreadable file: {type(e).__name__}: {e}', 'expected': 'a standard MIDI file', 'class': 'unreadable'}
    if f['division'] != TPB:
        return {'observed': f"division {f['division']}", 'expected': TPB, 'class': 'division'}
    # --- tempo and time signature
    t0 = f['tracks'][0] if f['tracks'] else []
    first_note = min([e['tick'] for tr in f['tracks'] for e in tr if e['type'] in ('note_on', 'note_off')], default=0)
    tempi = [e for e in t0 if e['type'] == 'meta' and e['name'] == 'set_tempo']
    sigs = [e for e in t0 if e['type'] == 'meta' and e['name'] == 'time_signature']
    want_tempo = int(round(Fraction(60000000, tempo)))   # microseconds per quarter note, nearest
    if not tempi or tempi[0]['tick'] != 0 or tempi[0]['tempo'] != want_tempo:
        return {'observed': [(e['tick'], e['tempo']) for e in tempi][:3], 'expected': (0, want_tempo), 'class': 'tempo'}
    if not sigs or sigs[0]['tick'] != 0 or (sigs[0]['numerator'], sigs[0]['denominator']) != ts:
        return {'observed': [(e['tick'], e['numerator'], e['denominator']) for e in sigs][:3], 'expected': (0,) + ts, 'class': 'time-signature'}
    # --- one track and channel per program, drums on channel 10 (index 9)
    got = {}
    chans = {}
    for i, tr in enumerate(f['tracks']):
        pcs = [e for e in tr if e['type'] == 'program_change']
        notes = [e for e in tr if e['type'] in ('note_on', 'note_off')]
        if not notes:
            continue
        if len(pcs) != 1 or pcs[0]['tick'] != 0 or tr.index(pcs[0]) > tr.index(notes[0]):
            return {'observed': f'track {i}: program changes {[(e["tick"], e["program"]) for e in pcs]}', 'expected': 'one program change before the first note', 'class': 'program-change'}
        ch = {e['channel'] for e in notes}
        if ch != {pcs[0]['channel']}:
            return {'observed': f'track {i}: note channels {sorted(ch)}, program change on {pcs[0]["channel"]}', 'expected': 'one channel per track', 'class': 'channel'}
        c = pcs[0]['channel']
        g = 'drums' if c == 9 else pcs[0]['program']
        if g in got or c in chans:
            return {'observed': f'track {i}: program {g} / channel {c} used by two tracks', 'expected': 'one track and channel per program', 'class': 'grouping'}
        chans[c] = i
        # offs before ons at the same tick (a note ending where the next starts must not be cut)
        for a, b in zip(notes, notes[1:]):
            if a['tick'] == b['tick'] and a['type'] == 'note_on' and b['type'] == 'note_off':
                return {'observed': f'track {i} tick {a["tick"]}: note_on before note_off', 'expected': 'note_off first', 'class': 'order'}
        pairs, left = smf.notes_of(tr)
        if left:
            return {'observed': f'track {i}: unpaired {[(e["type"], e["tick"], e["note"]) for e in left][:4]}', 'expected': 'pairs', 'class': 'unpaired'}
        # two parts of one instrument may hold the same key at once on their common channel: which note_off ends
        # which note_on is then not observable, so ons and offs are compared as two multisets
        got[g] = (sorted((e['note'], e['tick'], e['velocity']) for e in notes if e['type'] == 'note_on'),
                  sorted((e['note'], e['tick']) for e in notes if e['type'] == 'note_off'))
        if any(e['type'] == 'note_on' and e['velocity'] == 0 for e in notes):
            return {'observed': f'track {i}: note_on with velocity 0', 'expected': 'velocity = amplitude > 0', 'class': 'velocity'}
    exact = all(x.denominator == 1 for v in exp.values() for n in v for x in (n[1], n[2]))
    if exact:
        want = {g: (sorted((k, int(a), v) for k, a, b, v in ns), sorted((k, int(b)) for k, a, b, v in ns))
                for g, ns in exp.items() if ns}
        if got != want:
            bad = sorted(set(got) ^ set(want), key=str) or [g for g in want if got[g] != want[g]]
            g = bad[0]
            gg, ww = got.get(g, ([], [])), want.get(g, ([], []))
            return {'observed': {str(g): ([n for n in gg[0] if n not in ww[0]][:6], [n for n in gg[1] if n not in ww[1]][:6])},
                    'expected': {str(g): ([n for n in ww[0] if n not in gg[0]][:6], [n for n in ww[1] if n not in gg[1]][:6])},
                    'class': 'notes'}
    else:
        # off the grid the property only promises the notes, not the exact ticks: each written delta may be off by
        # less than a tick, whichever way it is rounded
        want = {g: sorted((k, v) for k, a, b, v in ns) for g, ns in exp.items() if ns}
        have = {g: sorted((k, v) for k, t, v in ns[0]) for g, ns in got.items()}
        if have != want:
            return {'observed': str(have)[:300], 'expected': str(want)[:300], 'class': 'notes-off-grid'}
        for g, ns in exp.items():
            n_ev = 2 * len(ns)
            ons = sorted(got.get(g, ([], []))[0], key=lambda n: (n[1], n[0]))
            for (k, a, b, v), (k2, a2, v2) in zip(sorted(ns, key=lambda n: (n[1], n[0])), ons):
                if not (a - n_ev <= a2 <= a + n_ev):
                    return {'observed': (k2, a2), 'expected': f'onset within {n_ev} ticks of {frac_str(a)}', 'class': 'drift'}
    return None


def check_table(inp):
    """oracle `table`: the instrument name -> program table is the General MIDI sound set"""
    from musiclang.write.out.constants import INSTRUMENTS_DICT
    name = inp['name']
    got = INSTRUMENTS_DICT.get(name)
    exp = GM.index(name)
    return None if got == exp else {'observed': got, 'expected': exp}


def check_channels(inp):
    """oracle `channels`: n parts with n distinct programs"""
    return check_file({'score': inp['score'], 'tempo': 120, 'ts': [4, 4]})


ORACLES = {'file': check_file, 'table': check_table, 'channels': check_channels}

WITNESSES = [
    # D3 (fixed): any export raised KeyError 'TRACK' on pandas 3
    {'score': '(I % I.M)(piano__0=s0.h + l.h + s1)', 'tempo': 120, 'ts': [4, 4]},
    # the DESIGN.md replay: two piano parts, violin, drums, flute, triplets, ties across a chord change
    {'score': '(I % I.M)(piano__0=s0.h + l.h + s1, piano__1=s2.e3 + s4.e3 + r.e3 + s2.augment(3) + l, '
              'violin__0=r + s4.o(1).f.augment(4), drums_0__0=a0.o(-2) + a6.o(-2) + a2.o(-2) + a6.o(-2) + a0.o(-2))'
              '+ (V % II.m)(piano__0=su1 + sd2.e + l.e, violin__0=l.h, flute__0=h3.e3.o(1) + h3.e3.o(1) + h3.e3.o(1))',
     'tempo': 97, 'ts': [3, 4]},
    {'score': '(I % I.M)(violin__0=s0 + s0, piano__0=r + s2)', 'tempo': 512, 'ts': [6, 8]},
]


def many_programs_score(names):
    return '(I % I.M)(' + ', '.join(f'{n}__0=s{i % 7}' for i, n in enumerate(names)) + ')'


def oracle(ctx):
    rng = ctx.rng
    # 1 the instrument table, every cell
    for name in GM:
        ctx.count('oracle', key='table' + name, bucket='table')
        r = check_table({'name': name})
        if r:
            ctx.fail(f'table:{name}', {'name': name}, r['observed'], r['expected'], oracle='table')
    # 2 channel capacity: k distinct programs, with and without program 0
    others = [g for g in GM if g != 'piano']
    for k in (1, 9, 10, 14, 15):
        for with_piano in (True, False):
            names = rng.sample(others, k - 1 if with_piano else k) + (['piano'] if with_piano else [])
            if rng.random() < 0.5:
                names.append('drums_0')
            inp = {'score': many_programs_score(names)}
            ctx.count('oracle', key='channels' + inp['score'], bucket=f'channels k={k} piano={with_piano}')
            r = check_channels(inp)
            if r:
                sig = f"channels:{r.get('class')}:{k}-programs-{'with' if with_piano else 'without'}-program-0"
                ctx.fail(sig, inp, r['observed'], r['expected'], oracle='channels')
    # 3 witnesses, suspects, random scores of the property's domain
    todo = [dict(w) for w in WITNESSES]
    for st, i in ctx.suspects:
        if i and 'score' in i:
            todo.append({'score': i['score'], 'tempo': i.get('tempo', 120), 'ts': i.get('ts', [4, 4]), 'amps': i.get('amps')})
    for _ in range(ctx.n(450, 5000)):
        s = rand_score(ctx, referenced=True, in_range=True)
        todo.append({'score': str(s), 'tempo': rng.choice(TEMPI), 'ts': list(rng.choice(SIGS)), 'amps': sound.amps_of(s),
                     'via': ('chord' if len(s.chords) == 1 and rng.random() < 0.6 else rng.choice(['score', 'score', 'function'])),
                     'tempo_kind': rng.choice(['int', 'int', 'float', 'npint'])})
    for i in range(ctx.n(40, 400)):        # single-chord scores through Chord.to_midi
        s = rand_score(ctx, referenced=True, in_range=True)
        from musiclang import Score
        s = Score([s.chords[0]])
        todo.append({'score': str(s), 'tempo': rng.choice(TEMPI), 'ts': list(rng.choice(SIGS)), 'amps': sound.amps_of(s)[:sum(len(m.notes) for m in s.chords[0].score.values())],
                     'via': 'chord', 'tempo_kind': rng.choice(['int', 'float'])})
    for inp in todo:
        try:
            s = sound.load_score(inp['score'], inp.get('amps'))
        except Exception:
            continue
        if not sound.well_referenced(s) or not domain_ok(s) or inp['tempo'] < 4 or tuple(inp['ts']) not in SIGS:
            continue
        ft = features(s)
        ctx.count('oracle', key='file' + inp['score'] + str(inp['tempo']) + str(inp['ts']), bucket=['file'] + ft,
                  nontrivial='multi-part' in ft or 'cont' in ft)
        try:
            r = check_file(inp)
        except Exception as e:
            r = {'observed': f'{type(e).__name__}: {e}', 'expected': 'the oracle evaluates', 'class': 'oracle-error'}
        if r:
            ctx.fail(f"file:{r.get('class')}:" + '+'.join(f for f in ft if f in ('shared-instrument', 'drums', 'cont', 'off-grid')),
                     inp, r['observed'], r['expected'], oracle='file')
