"""C06 - objects are immutable: no operation changes its operands, earlier results or the library symbols.

Static side: harness/translate_C06.py abstracts the library source into the effect table lean/MV/Gen/Effects.lean;
MV/Props/C06.lean proves the frame / history theorems for any accepted table and discharges acceptance of the
generated table by `decide` (16 generated chunk modules).
Dynamic side (this file): a snapshot monitor without source hooks (harness/effects_monitor.py) runs random
operation histories over a growing pool (harness/effects_ops.py: ~640 public operations, results fed back as
operands, library singletons in the pool).
  correspondence  = the operands / library / pool objects observed to change at each call are within the write
                    set the effect table declares for the function entered (empty for everything but the
                    explicitly in-place forms and the listed internal routines) - answered by the Lean driver;
  oracle          = the property itself: no object that existed before a call differs after it, except through
                    Score.__setitem__ / inplace=True on their own receiver.  A failure is reported with the
                    minimised history and the field that changed.
"""
import sys, os, random, hashlib, json
sys.dont_write_bytecode = True
import core
from core import sx

ID = 'C06'
NCHUNKS = 16
LEAN_MODULES = ['MV.Props.C06']
LEAN_HELPERS = ['MV.Lemmas.Effects', 'MV.Model.Effects', 'MV.Gen.Effects'] + \
    [f'MV.Gen.EffectsCheck{k:02d}' for k in range(NCHUNKS)]
DRIVERS = ['C06']
GEN = ['Effects'] + [f'EffectsCheck{k:02d}' for k in range(NCHUNKS)]
RULE = ('random operation histories (length 40) over a growing pool of notes, melodies, chords, scores, tonalities '
        'and library singletons; every step = one public operation with operands drawn from the pool; a step is '
        'non-trivial when the call returned (no exception); distinct = distinct (operation, operand kinds) pair; '
        'correspondence cases = distinct (function, observed mutated roots) pairs')
TRUSTED = ['harness/translate_C06.py: the AST -> effect-IR abstraction (rules in its docstring: name-based method '
           'resolution, primitive fields, NotMusicObject receivers, external callees assumed pure)',
           'harness/effects_assumptions.json: assume_fresh sites, internal writers, stubs (printed below)',
           'harness/effects_monitor.py: the snapshot (by id, field level) sees every change of a music object or '
           'of a list/dict/set reachable from one; cached_property slots may appear, never change']
ASSUMPTIONS = []

# monitor operation name -> function name in the effect table (where they differ)
IR_NAME = {
    'Chord.set_part:inplace': 'Chord.set_part#inplace',
    'time_utils.project_on_score:keep': 'time_utils.project_on_score#keep_score',
    'Metric.apply_to_melody:noexpand': 'Metric.apply_to_melody#expand',
    'Score.to_score:nocopy': 'Score.to_score#copy',
    'Chord.to_score:nocopy': 'Chord.to_score#copy',
}


def _load_assumptions():
    p = os.path.join(core.VERIF, 'harness', 'effects_assumptions.json')
    try:
        A = json.load(open(p))
    except Exception:  # noqa
        return
    for e in A.get('assume_fresh', []):
        ASSUMPTIONS.append(f"assume_fresh {e['function']}: `{e['statement'][:90]}` - {e['reason'][:160]}")
    for k, v in A.get('internal_writers', {}).items():
        ASSUMPTIONS.append(f'internal_writer {k}: {v[:160]}')
    for e in A.get('stubs', []):
        ASSUMPTIONS.append(f"stub {e['function']} writes {e['writes']}: {e['reason'][:160]}")
    for k, v in A.get('known_defects', {}).items():
        ASSUMPTIONS.append(f'known_defect {k}: {v[:200]}')


_load_assumptions()

_OPS_READY = [False]


def ops_module():
    """effects_ops with the C06-specific extra operations registered once"""
    import effects_ops as EO
    if _OPS_READY[0]:
        return EO
    _OPS_READY[0] = True
    from fractions import Fraction as frac

    def metric(p):
        from musiclang import Metric
        arr = [1 if c == 'x' else 0 for c in p[0]]
        return Metric(arr, signature=(len(arr), 4), tatum=frac(1, 1))

    def add(name, operands, call, params=None, inplace=False):
        if name not in EO.OPS:
            EO.op(name, operands, call, params, inplace=inplace)

    pat = lambda rng: [rng.choice(['x.xx', 'xx.x', 'xxxx', 'x..x', 'xxx'])]
    add('Metric.apply_to_melody', 'm', lambda o, p, d: metric(p).apply_to_melody(o[0]), pat)
    add('Metric.apply_to_melody:noexpand', 'm', lambda o, p, d: metric(p).apply_to_melody(o[0], expand=False), pat)
    add('Metric.apply_to_melody:note', 'n', lambda o, p, d: metric(p).apply_to_melody(o[0]), pat)

    def grid(o, p, d):
        from musiclang.write.rhythm.grid import grid_to_melody
        names = p[0]
        g = [[1 if (j % len(names)) == i else 0 for j in range(4)] for i in range(len(names))]
        return grid_to_melody(g, (1, 4), names, mode=p[1])
    add('grid.grid_to_melody', '', grid,
        lambda rng: [rng.sample(['s0', 's2', 's4', 'h3', 'bu1', 'bd1', 'x0', 'c1'], rng.randint(1, 3)),
                     rng.choice(['legato', 'staccato'])])

    def score_init(o, p, d):
        from musiclang import Score
        return Score(list(o[0].chords), config=o[0].config, tempo=p[0], time_signature=(p[1], 4))
    add('Score.__init__:config', 's', score_init, lambda rng: [rng.choice([60, 90, 144]), rng.choice([3, 4, 6])])

    def score_rhythm(o, p, d):
        from musiclang import ScoreRhythm
        part = o[0].instruments[0]
        return ScoreRhythm(rhythm_dict={part: metric(p)})(o[0])
    add('ScoreRhythm.__call__', 'V', score_rhythm, pat)

    # the library symbols are process-wide state: a run that changed one must not leak into the next run
    pristine = _library_state()
    inner = EO.run_history

    def run_history(*a, **k):
        _restore_library(pristine)
        try:
            return inner(*a, **k)
        finally:
            _restore_library(pristine)
    EO.run_history = run_history
    return EO


def _library_state():
    import musiclang.library as L
    import effects_monitor as EM
    MT = EM.music_types()
    state = []
    seen = set()

    def visit(o):
        if id(o) in seen:
            return
        seen.add(id(o))
        if isinstance(o, MT):
            d = {}
            for k, v in vars(o).items():
                d[k] = set(v) if type(v) is set else (list(v) if type(v) is list else (dict(v) if type(v) is dict else v))
                if isinstance(v, MT):
                    visit(v)
                elif type(v) in (list, tuple, set):
                    for e in v:
                        visit(e)
                elif type(v) is dict:
                    for e in v.values():
                        visit(e)
            state.append((o, d))
        elif type(o) in (list, tuple):
            for e in o:
                visit(e)
        elif type(o) is dict:
            for e in o.values():
                visit(e)
    for k, v in vars(L).items():
        if not k.startswith('__'):
            visit(v)
    return state


def _restore_library(state):
    import functools
    for o, d in state:
        cur = vars(o)
        for k, v in d.items():
            if k == 'properties':
                continue
            c = cur.get(k)
            if type(v) is set:
                if c != v or type(c) is not set:
                    cur[k] = set(v)
            elif type(v) is list:
                if c != v:
                    cur[k] = list(v)
            elif type(v) is dict:
                if c != v:
                    cur[k] = dict(v)
            elif c is not v and c != v:
                cur[k] = v
        for k in list(cur):
            if k not in d and not isinstance(getattr(type(o), k, None), functools.cached_property):
                del cur[k]


def alias_root(root, operands):
    """the same pool object passed at several positions: the change is attributed to any of them"""
    names = ['self'] + [f'arg{k}' for k in range(1, len(operands))]
    if root not in names:
        return root
    i = names.index(root)
    same = [names[k] for k in range(len(operands)) if operands[k] == operands[i]]
    return '/'.join(same)


def ir_name(op):
    if op in IR_NAME:
        return IR_NAME[op]
    return op.split(':')[0]


def allowed_inplace(rec):
    """changes permitted by the property: the explicitly in-place forms, on their own receiver"""
    return rec.get('inplace') and all(c['root'] == 'self' for c in rec['changes'])


def sig_of(rec, c):
    root = 'operand0' if c['root'] == 'self' else c['root'].replace('arg', 'operand')
    return f"mutation:{ir_name(rec['op'])}:{root}.{c['field']}"


def seeds_for(ctx, n, salt):
    base = ctx.seed * 1000003 + int(hashlib.sha256((ID + salt).encode()).hexdigest()[:8], 16)
    return [base + 7919 * k for k in range(n)]


def run_histories(ctx, n, salt):
    """list of (history, records) - deterministic for a given VERIF_SEED"""
    EO = ops_module()
    out = []
    for sd in seeds_for(ctx, n, salt):
        try:
            h, recs = EO.run_history(None, rng=random.Random(sd), length=40)
        except Exception as e:  # a crash of the harness itself on this history: noted, never a violation
            ctx.note(f'history seed {sd} could not be run: {type(e).__name__}: {e}'[:200])
            continue
        out.append((h, recs))
    return out


_CACHE = {}


def histories(ctx):
    key = (ctx.seed, ctx.tier, ctx.search)
    if key not in _CACHE:
        _CACHE[key] = run_histories(ctx, ctx.n(150, 2500), 'hist')
    return _CACHE[key]


def correspondence(ctx):
    EO = ops_module()
    runs = histories(ctx)
    agg = {}          # (ir function, observed roots) -> [count, example history, op]
    for h, recs in runs:
        for r in recs:
            if r['status'] == 'SKIP' or r['op'] in ('-', '<full-diff>'):
                continue
            ok = r['status'] == 'ok'
            kinds = ''.join(EO.OPS[r['op']].operands) if r['op'] in EO.OPS else ''
            ctx.count('monitor', key=(r['op'], kinds), nontrivial=ok,
                      bucket=[f"fn={r['fn'].split('.')[0]}", 'returned' if ok else r['status'], 'changed' if r['changes'] else 'unchanged'],
                      sample={'op': r['op'], 'status': r['status'], 'changes': [c['desc'] for c in r['changes']][:4]})
            roots = tuple(sorted({'/'.join(c.get('roots') or [c['root']]) for c in r['changes']}))
            k = (ir_name(r['op']), roots)
            if k not in agg:
                agg[k] = [0, {'history': h, 'op': r['op'], 'step': r['i']}, r['op']]
            agg[k][0] += 1
    cases = []
    for (fn, roots), (cnt, inp, op) in sorted(agg.items()):
        cases.append({'line': sx('obs', fn, list(roots)), 'impl': 'within', 'input': inp,
                      'key': (fn, roots), 'nontrivial': True,
                      'bucket': ['mutated=' + (','.join(roots) or 'none'), f'calls={min(cnt, 1000) // 10 * 10}+']})
    ctx.compare('effects', 'C06', cases)
    try:
        info = core.run_driver('C06', [sx('info')] + [sx('verdict', ir_name(o)) for o in
                                                      ['Score.__setitem__', 'Chord.set_part:inplace', 'Note.o',
                                                       'grid.grid_to_melody', 'Metric.apply_to_melody:noexpand']])
        ctx.note('effect table: ' + ' | '.join(info))
    except Exception as e:  # noqa
        ctx.note(f'driver info unavailable: {e}'[:200])


def check_history(inp):
    """oracle `history`: replay; the property holds iff no step changes a pre-existing object (explicitly in-place
    forms excepted, on their receiver)"""
    EO = ops_module()
    h = inp['history'] if 'history' in inp else inp
    _, recs = EO.run_history(h)
    bad = []
    for r in recs:
        if r['changes'] and not allowed_inplace(r):
            for c in r['changes']:
                bad.append(f"step {r['i']} {r['op']}: {c['desc']} ({c['cls']}) {c['old']} -> {c['new']}")
    if not bad:
        return None
    return {'observed': bad[:6], 'expected': 'no object that existed before a call differs after it'}


ORACLES = {'history': check_history}


def oracle(ctx):
    EO = ops_module()
    todo = []
    # inputs at which the observed effects left the declared write set
    for s, inp in ctx.suspects:
        if s == 'effects' and inp and inp.get('history'):
            todo.append((inp['history'], None))
    runs = histories(ctx)
    if ctx.search:
        runs = runs + run_histories(ctx, ctx.n(60, 600), 'search')
    seen = {}
    for h, recs in [(h, None) for h, _ in todo] + runs:
        if recs is None:
            _, recs = EO.run_history(h)
        for r in recs:
            if r['status'] == 'SKIP' or r['op'] in ('-',):
                continue
            ctx.count('oracle', key=(r['op'], tuple(r['operands'])), nontrivial=r['status'] == 'ok',
                      bucket='inplace-form' if r.get('inplace') else 'operation')
            if not r['changes'] or allowed_inplace(r):
                continue
            for c in r['changes']:
                sig = sig_of(r, c)
                if sig in seen:
                    seen[sig][1] += 1
                    continue
                seen[sig] = [(h, r, c), 1]
    for sig, ((h, r, c), cnt) in seen.items():
        try:
            small = EO.minimise(h, EO.fails_with(r['op'], c['desc']), compact=True)
        except Exception:  # noqa
            small = h
        res = None
        try:
            res = check_history({'history': small})
        except Exception:  # noqa
            pass
        if res is None:
            small = h
            res = check_history({'history': h}) or {'observed': [c['desc']], 'expected': 'unchanged'}
        ctx.fail(sig, {'history': small, 'operation': r['op'], 'field': c['desc'], 'class': c['cls'],
                       'seen_in_histories': cnt},
                 res['observed'], res['expected'], oracle='history',
                 what=f"{r['op']} changes {c['desc']} of a pre-existing {c['cls']}")
