"""C19 — voice leading and counterpoint only re-voice."""
import sys, os, json, subprocess
sys.dont_write_bytecode = True
from fractions import Fraction
import core, gen, sound
from core import sx, enc_note, enc_chord, enc_score, enc_melody, py_res

ID = 'C19'
LEAN_MODULES = ['MV.Props.C19']
LEAN_HELPERS = ['MV.Lemmas.VoiceLeading', 'MV.Lemmas.Parsimonious', 'MV.Lemmas.Progression', 'MV.Model.VoiceLeading', 'MV.Model.Counterpoint',
                'MV.Model.Render', 'MV.Model.Pitch', 'MV.Model.Rel', 'MV.Model.Basic', 'MV.Model.Types',
                'MV.Lemmas.Scale', 'MV.Lemmas.Ext', 'MV.Props.C01', 'MV.Props.C02']
DRIVERS = ['C19']
SRC_TIE = ['SrcPvl']   # py2lean source images of Chord / Score.get_parsimonious_voice_leading, find_optimal_octaves (with recursive_correct_octave), get_corrected_note, … proved equal to the model (MV/Props/TieSrcPvl.lean)
GEN = ['Tables', 'Library']
RULE = ('streams: pvl (pairs of random chords incl. modifiers x direction), spvl (progressions x from_first x directions), '
        'octaves / init / pitchsol / sgn / getscore (random progressions, 1-4 chords, 2-4 parts some absent, first notes of '
        'all systems with values beyond the system size, fixed-voice sets, type sets, random dvals), vprop/vopt/rprop/ropt/'
        'random (the REAL voices_optim / optimize_rules / random_optim driven by a scripted RandomState, model fed the same '
        'draws), callsol (the real optimiser end to end with its own RandomState, solution captured by a subclass, model '
        'rebuilds the score), counterpoint melody level (parse_relative_to_absolute, get_array(_fixed), project_on_rhythm, '
        'convert_array_to_melody, create_counterpoint with observed deltas); non-trivial = the result differs from the '
        'input or an error branch is hit; distinct = distinct request line')
TRUSTED = ['hand-written models MV/Model/VoiceLeading.lean, MV/Model/Counterpoint.lean tied to the code by the streams above',
           'random draws, accept/reject decisions (float scores), the winning delta of the counterpoint scorer and Python '
           'set iteration order are oracles of the model; theorems quantify over all of them',
           'numpy RandomState(seed) determinism (reproducibility is exercised, not proved)',
           'score-level counterpoint (project_on_one_chord + project_on_score) is covered by the oracle only']
ASSUMPTIONS = ['part names in normal form name__k, no drum parts, chord degree 0..6, |val|,|octave|,|pitch| < 2^15 (np.int16)',
               'parsimonious theorems: candidate chord plain (no modifiers) triad or seventh chord; with modifiers the bass '
               'bound and the direction are known findings',
               'counterpoint domain: parts written in standard notes s h r l, every part as long as its chord']

KINDS_VL = ['s', 'c', 'b', 'h', 'a', 'r', 'l']
SYS = {'s': 7, 'h': 12, 'a': 12}
PARTS = ['cello__0', 'viola__0', 'violin__0', 'flute__0']


# ----------------------------------------------------------------------------- helpers (encoding / showing)

def show_head(c):
    return f'({int(c.element)} "{c.extension}" {int(c.tonality.degree)} {c.tonality.mode} {int(c.tonality.octave)} {int(c.octave)})'


def show_heads(s):
    return '(' + ' '.join(show_head(c) for c in s.chords) + ')'


def show_mat(m):
    return '(' + ' '.join('(' + ' '.join(str(int(x)) for x in row) + ')' for row in m) + ')'


def show_score(s):
    from musiclang import Chord, Score
    if isinstance(s, Chord):
        s = Score([s])
    return enc_score(s).s


def show_melody(m):
    return core._sx1(enc_melody(m))


def show_opt_ints(l):
    return '(' + ' '.join('None' if x is None else str(int(x)) for x in l) + ')'


def enc_cfg(cfg):
    return ['cfg', cfg['types'], cfg['fixed'], [1 if b else 0 for b in cfg['change']]]


def mat(m):
    return [[int(x) for x in row] for row in m]


def set_orders(score):
    """the iteration order of `set(instruments) - set(chord.instruments)` (same expression as the library)"""
    instruments = score.instruments
    return [list(set(instruments) - set(ch.instruments)) for ch in score.chords]


def make_vl(cfg, cls=None, **kw):
    from musiclang.transform.composing import VoiceLeading
    cls = cls or VoiceLeading
    change = cfg['change']
    return cls(types=list(cfg['types']), fixed_voices=list(cfg['fixed']), change_octave_fixed=list(change), **kw)


def dump_note(n):
    amp = n.amp
    amp = core.frac_str(Fraction(*amp.as_integer_ratio()) if isinstance(amp, float) else Fraction(amp))
    return [n.type, int(n.val), int(n.octave), core.frac_str(n.duration), n.mode, n.accident, amp, sorted(n.tags)]


def load_note(d):
    from musiclang import Note, Silence, Continuation
    t, v, o, dur, mode, acc, amp, tags = d
    dur = core.to_frac(dur)
    if t == 'r':
        return Silence(dur)
    if t == 'l':
        return Continuation(dur)
    amp = core.to_frac(amp)
    amp = int(amp) if amp.denominator == 1 else float(amp)
    return Note(t, v, o, dur, mode=mode, accident=acc, amp=amp, tags=set(tags))


def dump_score(score):
    """jsonable form of a score (the text form cannot name every value, e.g. `a24`)"""
    return [{'elem': int(c.element), 'ext': c.extension, 'deg': int(c.tonality.degree), 'mode': c.tonality.mode,
             'toct': int(c.tonality.octave), 'oct': int(c.octave),
             'parts': [[p, [dump_note(n) for n in m.notes]] for p, m in c.score.items()]} for c in score.chords]


def load_score(data):
    from musiclang import Chord, Tonality, Melody, Score
    chords = []
    for d in data:
        c = Chord(d['elem'], extension=d['ext'], tonality=Tonality(d['deg'], d['mode'], d['toct']), octave=d['oct'])
        c.score = {p: Melody([load_note(n) for n in notes]) for p, notes in d['parts']}
        chords.append(c)
    return Score(chords)


def score_of(inp):
    s = inp['score']
    return sound.load_score(s) if isinstance(s, str) else load_score(s)


# ----------------------------------------------------------------------------- generators

def rand_first_note(rng, chord, wide=True):
    from musiclang import Note, Silence, Continuation
    k = rng.choice(['s', 's', 'c', 'c', 'b', 'b', 'h', 'a', 'r', 'l'])
    d = rng.choice([Fraction(1), Fraction(1, 2), Fraction(2), Fraction(3, 2)])
    if k == 'r':
        return Silence(d)
    if k == 'l':
        return Continuation(d)
    n = SYS.get(k) or len(chord.chord_pitches)
    lo, hi = (-n - 2, 2 * n + 1) if (wide and rng.random() < 0.3) else (0, n - 1)
    note = Note(k, rng.randint(lo, hi), rng.randint(-1, 1), d)
    if k == 's' and rng.random() < 0.08:
        note.val = rng.randrange(7)
        note.accident = rng.choice(gen.ACCS)
    if k in 'sh' and rng.random() < 0.08:
        note.mode = rng.choice(gen.MODES)
    if rng.random() < 0.2:
        note = getattr(note, rng.choice(['pp', 'mf', 'ff']))
    return note


def rand_vl_score(rng, n_chords=None, plain=None, parts=None, p_absent=0.15):
    """progression for the optimiser: every part starts with a note of one of the optimiser's systems"""
    from musiclang import Score, Melody
    n_chords = n_chords or rng.choice([1, 2, 2, 3, 3, 4])
    parts = parts or PARTS[:rng.randint(2, 4)]
    plain = rng.random() < 0.6 if plain is None else plain
    chords = []
    for i in range(n_chords):
        c, _ = gen.rand_chord(rng, ext=(rng.choice(gen.PLAIN_INVERTIBLE) if plain else None), octaves=(-2, 2), max_mods=2)
        sc = {}
        for p in parts:
            if rng.random() < p_absent and len(sc) + (len(parts) - parts.index(p) - 1) >= 1 and i > 0:
                continue
            notes = [rand_first_note(rng, c)]
            for _ in range(rng.randint(0, 2)):
                notes.append(rand_first_note(rng, c, wide=False))
            sc[p] = Melody(notes)
        chords.append(c(**sc))
    return Score(chords)


def rand_cfg(rng, score, p_fixed=0.6):
    ins = score.instruments
    fixed = []
    if rng.random() < p_fixed:
        fixed = rng.sample(ins, rng.randint(1, min(2, len(ins))))
    x = rng.random()
    if x < 0.5:
        change = [True] * len(fixed)
    elif x < 0.75:
        change = [False] * len(fixed)
    else:
        change = [rng.random() < 0.5 for _ in fixed]
    types = ['b', 'c', 's', 'h'] if rng.random() < 0.7 else rng.sample(['b', 'c', 's', 'h', 'a'], rng.randint(1, 4))
    return {'types': types, 'fixed': fixed, 'change': change}


def all_present(score, names):
    return all(n in ch.score for ch in score.chords for n in names)


def rand_dvals(rng, shape, lo=-3, hi=3):
    return [[rng.randint(lo, hi) for _ in range(shape[1])] for _ in range(shape[0])]


def as_dvals(dv, shape):
    """a solution matrix as the optimiser holds it: int16 at the start (np.zeros(..., dtype=np.int16)), the dtype of the
    accepted proposal afterwards (the crossing score breaks argsort ties in a dtype-dependent way, so the dtype is
    kept when a run is continued)"""
    import numpy as np
    if isinstance(dv, np.ndarray):
        return dv.copy()
    return np.asarray(dv, dtype=np.int16).reshape(shape)


class ScriptedRG:
    """stands for np.random.RandomState: returns the prepared arrays in order"""

    def __init__(self, randoms=(), randints=()):
        self.randoms = list(randoms)
        self.randints = list(randints)

    def random(self, shape):
        import numpy as np
        a = np.asarray(self.randoms.pop(0), dtype=float).reshape(shape)
        return a

    def randint(self, lo, hi, shape):
        import numpy as np
        a = np.asarray(self.randints.pop(0), dtype=int).reshape(shape)
        assert a.size == 0 or (a.min() >= lo and a.max() < hi)
        return a


def bools_to_random(b):
    """`rg.random() < proba` is True for 0.0 (proba > 0) and False for 2.0"""
    return [[0.0 if x else 2.0 for x in row] for row in b]


def vl_input(score, cfg, **extra):
    return {'score': dump_score(score), 'cfg': cfg, **extra}


# ----------------------------------------------------------------------------- correspondence

def corr_parsimonious(ctx):
    rng = ctx.rng
    cases = []
    for i in range(ctx.n(500, 6000)):
        plain = rng.random() < 0.55
        a, ta = gen.rand_chord(rng, ext=(rng.choice(gen.PLAIN_INVERTIBLE) if plain else None))
        b, tb = gen.rand_chord(rng, ext=(rng.choice(gen.PLAIN_INVERTIBLE) if (plain or rng.random() < 0.3) else None))
        for d in (None, 'up', 'down'):
            impl = py_res(lambda: a.get_parsimonious_voice_leading(b, direction=d), show_head)
            cases.append({'line': sx('pvl', enc_chord(a, ext_text=ta), enc_chord(b, ext_text=tb), d),
                          'impl': impl, 'input': {'a': a.to_code(), 'b': b.to_code(), 'dir': d},
                          'bucket': [f'dir={d}', 'plain' if '(' not in tb + '[' and '[' not in tb and '{' not in tb else 'mods',
                                     f'fig={core.split_ext(tb)[0]}', 'err' if impl.startswith('ERR') else 'ok'],
                          'nontrivial': True})
    ctx.compare('pvl', 'C19', cases)
    cases = []
    from musiclang import Score
    for i in range(ctx.n(120, 2000)):
        n = rng.randint(1, 5)
        plain = rng.random() < 0.7
        chords = [gen.rand_chord(rng, ext=(rng.choice(gen.PLAIN_INVERTIBLE) if plain else None), max_mods=2)[0] for _ in range(n)]
        s = Score(chords)
        ff = rng.random() < 0.3
        x = rng.random()
        if x < 0.3:
            dirs, spec = None, '-'
        elif x < 0.6:
            dirs = rng.choice(['up', 'down'])
            spec = ['all', dirs]
        else:
            m = n - 1 if rng.random() < 0.85 else rng.randint(0, n + 1)
            dirs = [rng.choice([None, 'up', 'down']) for _ in range(m)]
            spec = ['list'] + dirs
        impl = py_res(lambda: s.get_parsimonious_voice_leading(from_first=ff, directions=dirs), show_heads)
        cases.append({'line': sx('spvl', enc_score(s), ff, spec), 'impl': impl,
                      'input': {'score': [c.to_code() for c in chords], 'from_first': ff, 'directions': dirs},
                      'bucket': [f'n={n}', f'ff={ff}', 'err' if impl.startswith('ERR') else 'ok'], 'nontrivial': n > 1})
    ctx.compare('spvl', 'C19', cases)
    # Python's round on the quotients the code forms
    cases = []
    for num in range(-60, 61):
        cases.append({'line': sx('round', num, 12), 'impl': str(round(num / 12)), 'input': {'num': num}, 'bucket': 'round'})
    ctx.compare('round', 'C19', cases)


def state_show(vl):
    ins = '(' + ' '.join(vl.instruments) + ')'
    kinds = '(' + ' '.join('(' + ' '.join(str(t) for t in row) + ')' for row in vl.type) + ')'
    cands = '(' + ' '.join(show_mat(row) for row in vl.candidates) + ')'
    return f'({ins} {kinds} {show_mat(vl.val)} {show_mat(vl.octave)} {show_mat(vl.pitch)} {show_mat(vl.dvalsmask)} {cands})'


def corr_optimiser(ctx):
    import numpy as np
    rng = ctx.rng
    c_oct, c_init, c_ps, c_sgn, c_gs, c_vp, c_vo, c_rp, c_ro, c_rd, c_norm = ([] for _ in range(11))
    for it in range(ctx.n(110, 1200)):
        malformed = rng.random() < 0.08
        score = rand_vl_score(rng)
        cfg = rand_cfg(rng, score)
        if malformed:
            # a first note outside the optimiser's systems, or a fixed voice that does not exist
            from musiclang import Note
            x = rng.random()
            if x < 0.6:
                ch = rng.choice(score.chords)
                p = rng.choice(list(ch.score))
                ch.score[p].notes[0] = Note(rng.choice(['d', 'x', 'su', 'hd', 'cu']), rng.randint(0, 3), 0, 1)
            else:
                cfg['fixed'] = cfg['fixed'] + ['tuba__0']
                cfg['change'] = cfg['change'] + [True]
        text = str(score)
        enc = enc_score(score)
        ecfg = enc_cfg(cfg)
        orders = set_orders(score)
        inp = vl_input(score, cfg)
        tags = [f'chords={len(score.chords)}', f'parts={len(score.instruments)}', f'fixed={len(cfg["fixed"])}',
                'malformed' if malformed else 'valid']
        # find_optimal_octaves
        vl = make_vl(cfg)
        impl = py_res(lambda: vl.find_optimal_octaves(score), show_score)
        moved = (not impl.startswith('ERR')) and impl != show_score(score)
        c_oct.append({'line': sx('octaves', ecfg, 900, enc), 'impl': impl, 'input': inp,
                      'bucket': tags + ['moved' if moved else ('err' if impl.startswith('ERR') else 'same')],
                      'nontrivial': moved or impl.startswith('ERR')})
        # normalize_instruments
        c_norm.append({'line': sx('normalize', enc, orders), 'impl': py_res(lambda: score.normalize_instruments(), show_score),
                       'input': inp, 'bucket': ['absent' if any(orders) else 'full'], 'nontrivial': any(orders)})
        # init
        vl = make_vl(cfg)
        impl = py_res(lambda: (vl.init(score), vl)[1], state_show)
        c_init.append({'line': sx('init', ecfg, enc, orders), 'impl': impl, 'input': inp,
                       'bucket': tags + ['err' if impl.startswith('ERR') else 'ok'], 'nontrivial': True})
        if impl.startswith('ERR'):
            continue
        shape = vl.pitch.shape
        dv = rand_dvals(rng, shape)
        dva = np.asarray(dv, dtype=np.int16).reshape(shape)
        c_ps.append({'line': sx('pitchsol', ecfg, enc, orders, dv), 'impl': py_res(lambda: vl.get_pitch_solution(dva), show_mat),
                     'input': {**inp, 'dvals': dv}, 'bucket': tags, 'nontrivial': True})
        c_sgn.append({'line': sx('sgn', ecfg, enc, orders, dv),
                      'impl': py_res(lambda: np.sign(vl.get_movement(vl.get_pitch_solution(dva)) * vl.dvalsmask[:, :-1]), show_mat),
                      'input': {**inp, 'dvals': dv}, 'bucket': tags, 'nontrivial': shape[1] > 1})
        impl = py_res(lambda: vl.get_score(score, dva), show_score)
        c_gs.append({'line': sx('getscore', ecfg, enc, orders, dv), 'impl': impl, 'input': {**inp, 'dvals': dv},
                     'bucket': tags, 'nontrivial': impl != show_score(score)})
        # one iteration and a few iterations of voices_optim with scripted draws
        mshape = (shape[0], max(shape[1] - 1, 0))
        max_norm = rng.choice([3, 3, 1, 2, 0])
        k = rng.randint(1, 4)
        draws = [([[rng.random() < 0.5 for _ in range(mshape[1])] for _ in range(mshape[0])],
                  [[rng.random() < 0.5 for _ in range(mshape[1])] for _ in range(mshape[0])]) for _ in range(k)]

        def run_voices(dv0, ds, n_iter):
            v = make_vl(cfg)
            v.init(score)
            v.rg = ScriptedRG(randoms=[bools_to_random(b) for d in ds for b in d])
            return v.voices_optim(as_dvals(dv0, shape), max_iter=n_iter, max_norm=max_norm)

        u1, u2 = draws[0]
        # the proposal itself: captured from the argument of eval_solution
        def proposal():
            v = make_vl(cfg)
            v.init(score)
            v.rg = ScriptedRG(randoms=[bools_to_random(u1), bools_to_random(u2)])
            seen = []
            orig = v.eval_solution
            v.eval_solution = lambda d: (seen.append(np.array(d)), orig(d))[1]
            v.voices_optim(dva.copy(), max_iter=1, max_norm=max_norm)
            return seen[1]
        impl = py_res(proposal, show_mat)
        c_vp.append({'line': sx('vprop', ecfg, enc, orders, dv, mat(u1), mat(u2), max_norm), 'impl': impl,
                     'input': {**inp, 'dvals': dv, 'u1': mat(u1), 'u2': mat(u2), 'max_norm': max_norm},
                     'bucket': tags + [f'max_norm={max_norm}', 'err' if impl.startswith('ERR') else 'ok'],
                     'nontrivial': impl != show_mat(dv)})
        if not impl.startswith('ERR'):
            cur = dva.copy()
            accepts = []
            for d in draws:
                nxt = run_voices(cur, [d], 1)
                accepts.append(not np.array_equal(nxt, cur))
                cur = nxt
            impl = py_res(lambda: run_voices(dv, draws, k), show_mat)
            c_vo.append({'line': sx('vopt', ecfg, enc, orders, dv, max_norm, [[mat(a), mat(b)] for a, b in draws], accepts),
                         'impl': impl, 'input': {**inp, 'dvals': dv, 'max_norm': max_norm},
                         'bucket': tags + [f'k={k}', f'accepted={sum(accepts)}'], 'nontrivial': any(accepts)})
        # optimize_rules
        mnr = rng.choice([3, 1, 2])
        deltas = [[[rng.randint(-mnr, mnr) if rng.random() < 0.4 else 0 for _ in range(shape[1])] for _ in range(shape[0])]
                  for _ in range(k)]

        def run_rules(dv0, ds, n_iter):
            v = make_vl(cfg)
            v.init(score)
            v.rg = ScriptedRG(randoms=[[[0.0] * shape[1]] * shape[0] for _ in ds], randints=ds)
            return v.optimize_rules(as_dvals(dv0, shape), max_iter_rules=n_iter, max_norm_rules=mnr)

        def rules_proposal():
            v = make_vl(cfg)
            v.init(score)
            v.rg = ScriptedRG(randoms=[[[0.0] * shape[1]] * shape[0]], randints=[deltas[0]])
            seen = []
            orig = v.crossing_and_unisson_score
            v.crossing_and_unisson_score = lambda d: (seen.append(np.array(d)), orig(d))[1]
            v.optimize_rules(dva.copy(), max_iter_rules=1, max_norm_rules=mnr)
            return seen[1]
        impl = py_res(rules_proposal, show_mat)
        c_rp.append({'line': sx('rprop', ecfg, enc, orders, dv, deltas[0], mnr), 'impl': impl,
                     'input': {**inp, 'dvals': dv, 'delta': deltas[0], 'max_norm': mnr}, 'bucket': tags,
                     'nontrivial': impl != show_mat(dv)})
        cur = dva.copy()
        accepts = []
        for d in deltas:
            nxt = run_rules(cur, [d], 1)
            accepts.append(not np.array_equal(nxt, cur))
            cur = nxt
        impl = py_res(lambda: run_rules(dv, deltas, k), show_mat)
        c_ro.append({'line': sx('ropt', ecfg, enc, orders, dv, mnr, deltas, accepts), 'impl': impl,
                     'input': {**inp, 'dvals': dv, 'max_norm': mnr}, 'bucket': tags + [f'k={k}', f'accepted={sum(accepts)}'],
                     'nontrivial': any(accepts)})
        # random_optim: the chosen index observed through argmin of the real scores
        mi = rng.randint(1, 4)
        rs = [rand_dvals(rng, shape) for _ in range(mi - 1)]

        def run_random():
            v = make_vl(cfg)
            v.init(score)
            v.rg = ScriptedRG(randints=rs)
            sols = [dva + np.asarray(r).reshape(shape) for r in rs] + [dva]
            best = int(np.argmin([v.eval_solution(s) for s in sols]))
            return best, v.random_optim(dva.copy(), max_iter=mi, max_norm=3)
        try:
            best, res = run_random()
            impl = show_mat(res)
        except Exception as e:
            best, impl = 0, 'ERR:' + core.canon_err(e)
        c_rd.append({'line': sx('random', ecfg, enc, orders, dv, mi, rs, best), 'impl': impl,
                     'input': {**inp, 'dvals': dv}, 'bucket': tags + [f'max_iter={mi}'], 'nontrivial': mi > 1})
    ctx.compare('octaves', 'C19', c_oct)
    ctx.compare('normalize', 'C19', c_norm)
    ctx.compare('init', 'C19', c_init)
    ctx.compare('pitchsol', 'C19', c_ps)
    ctx.compare('sgn', 'C19', c_sgn)
    ctx.compare('getscore', 'C19', c_gs)
    ctx.compare('vprop', 'C19', c_vp)
    ctx.compare('vopt', 'C19', c_vo)
    ctx.compare('rprop', 'C19', c_rp)
    ctx.compare('ropt', 'C19', c_ro)
    ctx.compare('random', 'C19', c_rd)


def capturing_class():
    from musiclang.transform.composing import VoiceLeading

    class Capturing(VoiceLeading):
        captured = None

        def get_score(self, score, dvals):
            import numpy as np
            self.captured = (score, np.array(dvals))
            return super().get_score(score, dvals)
    return Capturing


def corr_end_to_end(ctx):
    rng = ctx.rng
    Cap = capturing_class()
    cases = []
    for it in range(ctx.n(90, 1500)):
        score = rand_vl_score(rng, n_chords=rng.choice([2, 2, 3, 3, 4]))
        cfg = rand_cfg(rng, score)
        if not all_present(score, [f for f, c in zip(cfg['fixed'], cfg['change']) if not c]):
            continue
        method = rng.choice(['voices_and_rules', 'voices_and_rules', 'voices', 'rules', 'random'])
        seed = rng.randrange(10 ** 6)
        kw = dict(seed=seed, method=method, max_iter=rng.choice([5, 20, 60]), max_iter_rules=rng.choice([5, 20]),
                  max_norm=rng.choice([1, 2, 3]))
        vl = make_vl(cfg, cls=Cap, **kw)
        try:
            out = vl(score)
            impl = show_score(out)
        except Exception as e:
            impl = 'ERR:' + core.canon_err(e)
            out = None
        if vl.captured is None:
            continue
        inter, sol = vl.captured
        orders = set_orders(inter)
        cases.append({'line': sx('callsol', enc_cfg(cfg), 900, enc_score(score), orders, mat(sol)), 'impl': impl,
                      'input': vl_input(score, cfg, **kw), 'bucket': [f'method={method}', f'chords={len(score.chords)}',
                                                                      f'fixed={len(cfg["fixed"])}'],
                      'nontrivial': impl != show_score(score)})
    ctx.compare('callsol', 'C19', cases)


def rand_cp_melody(rng, n=(1, 5), kinds=('s', 's', 's', 'h', 'r', 'l', 'su', 'sd', 'a')):
    from musiclang import Note, Silence, Continuation, Melody
    notes = []
    for _ in range(rng.randint(*n)):
        d = rng.choice([Fraction(1), Fraction(1, 2), Fraction(3, 2), Fraction(2), Fraction(1, 3)])
        k = rng.choice(kinds)
        if k == 'r':
            notes.append(Silence(d))
        elif k == 'l':
            notes.append(Continuation(d))
        else:
            hi = {'s': 6, 'h': 11, 'a': 11}.get(k, 4)
            nt = Note(k, rng.randint(0, hi), rng.randint(-1, 1), d)
            if rng.random() < 0.2:
                nt = getattr(nt, rng.choice(['pp', 'ff']))
            notes.append(nt)
    return Melody(notes)


def corr_counterpoint(ctx):
    from musiclang.transform.composing import counterpoint as CP, project as PR
    rng = ctx.rng
    c1, c2, c3, c4, c5, c6 = [], [], [], [], [], []
    for it in range(ctx.n(200, 3000)):
        bad = rng.random() < 0.1
        kinds = ('s', 's', 's', 'h', 'r', 'l', 'su', 'sd', 'a') + (('c', 'b', 'x', 'hu') if bad else ())
        m = rand_cp_melody(rng, kinds=kinds)
        text = str(m)
        em = enc_melody(m)
        impl = py_res(lambda: PR.parse_relative_to_absolute(m), show_melody)
        c1.append({'line': sx('parserel', em), 'impl': impl, 'input': {'melody': text},
                   'bucket': ['err' if impl.startswith('ERR') else 'ok'], 'nontrivial': impl != show_melody(m)})
        c2.append({'line': sx('getarray', em), 'impl': py_res(lambda: CP.get_array(m), show_opt_ints), 'input': {'melody': text},
                   'bucket': 'getarray'})
        c2.append({'line': sx('getarrayfixed', em), 'impl': py_res(lambda: CP.get_array_fixed(m), show_opt_ints),
                   'input': {'melody': text}, 'bucket': 'getarrayfixed'})
        r = rand_cp_melody(rng, kinds=('s', 's', 'r', 'l', 'h'))
        impl = py_res(lambda: PR.project_on_rhythm(r, m), show_melody)
        c3.append({'line': sx('projrhythm', enc_melody(r), em), 'impl': impl, 'input': {'rhythm': str(r), 'melody': text},
                   'bucket': ['err' if impl.startswith('ERR') else 'ok'], 'nontrivial': True})
        arr = [(rng.randint(-10, 14) if (n.is_note or rng.random() < 0.05) and rng.random() < 0.97 else None) for n in m.notes]
        if rng.random() < 0.05:
            arr = arr[:-1]
        c4.append({'line': sx('convert', em, arr), 'impl': py_res(lambda: CP.convert_array_to_melody(m, arr), show_melody),
                   'input': {'melody': text, 'array': arr}, 'bucket': 'convert', 'nontrivial': True})
    # create_counterpoint: the winning deltas are read off the real result and given to the model
    for it in range(ctx.n(120, 2000)):
        nf = rng.choice([0, 1, 1, 1, 2])
        nv = rng.randint(1, 2)
        kinds = ('s', 's', 's', 'h', 'r', 'l', 'su', 'sd')
        fixed = [rand_cp_melody(rng, kinds=kinds) for _ in range(nf)]
        voices = [rand_cp_melody(rng, kinds=kinds) for _ in range(nv)]
        try:
            res = CP.create_counterpoint([f.copy() for f in fixed], [v.copy() for v in voices])
            impl = '(' + ' '.join(show_melody(x) for x in res) + ')'
            deltas = []
            for v, x in zip(voices, res):
                before = CP.get_array(PR.parse_relative_to_absolute(v))
                after = CP.get_array(x)
                deltas.append([0 if a is None or b is None else b - a for a, b in zip(before, after)])
        except Exception as e:
            impl = 'ERR:' + core.canon_err(e)
            deltas = [[0] * len(v.notes) for v in voices]
        c5.append({'line': sx('cp', [enc_melody(f) for f in fixed], [enc_melody(v) for v in voices], deltas), 'impl': impl,
                   'input': {'fixed': [str(f) for f in fixed], 'voices': [str(v) for v in voices]},
                   'bucket': [f'fixed={nf}', f'voices={nv}', 'err' if impl.startswith('ERR') else 'ok'], 'nontrivial': True})
    ctx.compare('parserel', 'C19', c1)
    ctx.compare('getarray', 'C19', c2)
    ctx.compare('projrhythm', 'C19', c3)
    ctx.compare('convert', 'C19', c4)
    ctx.compare('cp', 'C19', c5)


def correspondence(ctx):
    corr_parsimonious(ctx)
    corr_optimiser(ctx)
    corr_end_to_end(ctx)
    corr_counterpoint(ctx)
    import srctie
    srctie.run(ctx, SRC_TIE, quick=150, thorough=4000)


# ----------------------------------------------------------------------------- the property itself (oracles)

def pcs(l):
    return sorted({int(p) % 12 for p in l})


def has_mods(text):
    return any(ch in text for ch in '([{')


def eval_chord(code):
    import musiclang.library as L
    return eval(code, {k: getattr(L, k) for k in dir(L) if not k.startswith('_')})


def check_pvl(inp):
    """one step of parsimonious voice leading: same chord, bass within a fifth, requested direction"""
    a, b, d = eval_chord(inp['a']), eval_chord(inp['b']), inp['dir']
    fig = core.split_ext(b.extension)[0]
    try:
        out = a.get_parsimonious_voice_leading(b, direction=d)
    except Exception as e:
        if fig in ('5', '9', '11', '13') and type(e) is Exception:
            return None     # the function states its domain (triads and seventh chords) by raising
        return {'observed': f'{type(e).__name__}: {e}', 'expected': 'a re-voiced chord'}
    bad = []
    fo, mo = core.split_ext(out.extension)[0], core.split_ext(out.extension)[1:]
    fam = ['', '6', '64'] if fig in ('', '6', '64') else ['7', '65', '43', '2']
    if (out.element, out.tonality.degree, out.tonality.mode) != (b.element, b.tonality.degree, b.tonality.mode):
        bad.append('root/tonality changed')
    if fo not in fam or [sorted(x) for x in mo] != [sorted(x) for x in core.split_ext(b.extension)[1:]]:
        bad.append('figure family or modifiers changed')
    if pcs(out.chord_pitches) != pcs(b.chord_pitches) or pcs(out.chord_extension_pitches) != pcs(b.chord_extension_pitches):
        bad.append('pitch classes changed')
    if {k: str(v) for k, v in out.score.items()} != {k: str(v) for k, v in b.score.items()}:
        bad.append('parts changed')
    move = int(out.bass_pitch - a.bass_pitch)
    if abs(move) > 7:
        bad.append('bass moved more than a fifth')
    if (d == 'up' and move < 0) or (d == 'down' and move > 0):
        bad.append('wrong direction')
    if not bad:
        return None
    return {'observed': {'result': out.to_code(), 'bass_move': move, 'problems': bad},
            'expected': 'same root, tonality, modifiers and pitch classes; |bass move| <= 7; direction respected'}


def pvl_signature(inp, r):
    b = eval_chord(inp['b'])
    cls = 'candidate-with-modifiers' if has_mods(b.extension) else 'plain-candidate'
    probs = r['observed']['problems'] if isinstance(r['observed'], dict) else ['exception']
    kind = 'bass_move' if 'bass moved more than a fifth' in probs and len(probs) == 1 else \
        'direction' if set(probs) <= {'wrong direction', 'bass moved more than a fifth'} else 'chord'
    return f'pvl_{kind}:{cls}'


def check_spvl(inp):
    """progression level: first chord kept, every later chord is a re-voicing of its source"""
    from musiclang import Score
    chords = [eval_chord(c) for c in inp['score']]
    s = Score(chords)
    out = s.get_parsimonious_voice_leading(from_first=inp['from_first'], directions=inp['directions'])
    bad = []
    if len(out.chords) != len(chords):
        bad.append('length')
    elif out.chords[0].to_code() != chords[0].to_code() or str(out.chords[0]) != str(chords[0]):
        bad.append('first chord changed')
    else:
        dirs = inp['directions']
        dirs = [dirs] * (len(chords) - 1) if (dirs is None or isinstance(dirs, str)) else dirs
        prev = chords[0]
        for i in range(1, len(chords)):
            step = check_pvl({'a': prev.to_code(), 'b': chords[i].to_code(), 'dir': dirs[i - 1]})
            want = prev.get_parsimonious_voice_leading(chords[i], direction=dirs[i - 1])
            if want.to_code() != out.chords[i].to_code():
                bad.append(f'chord {i} is not the step from its predecessor')
            if step is not None and not has_mods(chords[i].extension):
                bad.append(f'chord {i}: {step["observed"]}')
            if not inp['from_first']:
                prev = out.chords[i]
    return None if not bad else {'observed': bad, 'expected': 'first chord kept, each chord the parsimonious step of the previous'}


def note_pitch(ch, n):
    if n.type in ('r', 'l'):
        return None
    return int(ch.to_pitch(n))


def structure_diff(before, after, cfg):
    """what may not change: progression (up to the chord octave), parts, onsets, durations, note systems;
    only the first note of a part may change its value/octave"""
    bad = []
    if len(before.chords) != len(after.chords):
        return ['number of chords']
    unshifted = {f for f, c in zip(cfg['fixed'], cfg['change']) if not c}
    for j, (c0, c1) in enumerate(zip(before.chords, after.chords)):
        if (c0.element, c0.extension, c0.tonality.degree, c0.tonality.mode, c0.tonality.octave) != \
                (c1.element, c1.extension, c1.tonality.degree, c1.tonality.mode, c1.tonality.octave):
            bad.append(f'chord {j} changed: {c0.to_code()} -> {c1.to_code()}')
        if list(c0.score) != list(c1.score):
            bad.append(f'chord {j} parts: {list(c0.score)} -> {list(c1.score)}')
            continue
        shift = c1.octave - c0.octave
        for p in c0.score:
            n0, n1 = c0.score[p].notes, c1.score[p].notes
            if [(n.type, n.duration) for n in n0] != [(n.type, n.duration) for n in n1]:
                bad.append(f'chord {j} {p}: rhythm or note systems {c0.score[p]} -> {c1.score[p]}')
                continue
            for i, (a, b) in enumerate(zip(n0, n1)):
                rest0 = (a.mode, a.accident, a.amp, sorted(a.tags), a.tempo, a.pedal)
                rest1 = (b.mode, b.accident, b.amp, sorted(b.tags), b.tempo, b.pedal)
                if rest0 != rest1:
                    bad.append(f'chord {j} {p} note {i}: attributes changed')
                if i > 0 and (a.val, a.octave) != (b.val, b.octave):
                    if not (p in unshifted and a.val == b.val and b.octave - a.octave == -shift):
                        bad.append(f'chord {j} {p} note {i}: a later note changed {a} -> {b}')
    return bad


def system_ok(ch, n):
    """the note lies in the system its type names (pitch classes of the chord's candidates)"""
    if n.type in ('r', 'l', 'h', 'a'):
        return True
    p = note_pitch(ch, n)
    if n.type == 's':
        if n.accident is not None or n.mode is not None:
            return True
        return p % 12 in pcs(ch.scale_pitches)
    if n.type == 'c':
        return p % 12 in pcs(ch.chord_pitches)
    if n.type == 'b':
        return p % 12 in pcs(ch.chord_extension_pitches)
    return True


def vl_domain(score, cfg):
    """inputs the optimiser accepts: fixed voices exist, voices kept with change_octave_fixed=False are present in
    every chord, every part starts with a note of one of the systems b c s h a (or a rest / continuation), and
    accidentals sit on values 0..6"""
    ins = score.instruments
    if any(f not in ins for f in cfg['fixed']):
        return False
    if not all_present(score, [f for f, c in zip(cfg['fixed'], cfg['change']) if not c]):
        return False
    for ch in score.chords:
        for m in ch.score.values():
            if not m.notes or m.notes[0].type not in KINDS_VL:
                return False
            n = m.notes[0]
            if n.accident is not None and not 0 <= n.val <= 6:
                return False
    return True


VL_CLASSES = ('crash', 'structure', 'bass', 'note_system', 'fixed_abs', 'fixed', 'repro')


def vl_findings(inp):
    """the optimiser only re-voices.  Returns {class: [messages]} (empty = the property holds):
    crash / structure / bass range / note systems / fixed voices (absolute notes of kept voices apart) / reproducible"""
    score = score_of(inp)
    cfg = inp['cfg']
    kw = {k: inp[k] for k in ('seed', 'method', 'max_iter', 'max_iter_rules', 'max_norm') if k in inp}
    try:
        vl_obj = make_vl(cfg, **kw)
        out = vl_obj(score)
    except Exception as e:
        if not vl_domain(score, cfg):
            return {}       # outside the optimiser's input domain: rejected, not re-voiced
        return {'crash': [f'{type(e).__name__}: {e}']}
    from musiclang import Chord, Score
    if isinstance(out, Chord):
        out = Score([out])
    res = {}
    bad = structure_diff(score, out, cfg)
    if bad:
        return {'structure': bad}
    for j, (c0, c1) in enumerate(zip(score.chords, out.chords)):
        if not (-6 < c1.bass_pitch <= 6):
            res.setdefault('bass', []).append(f'chord {j}: bass {int(c1.bass_pitch)} not within half an octave of middle C')
        for p in c1.score:
            n1 = c1.score[p].notes[0]
            if not system_ok(c1, n1):
                res.setdefault('note_system', []).append(f'chord {j} {p}: {n1} left its note system')
        shift = c1.octave - c0.octave
        for f, change in zip(cfg['fixed'], cfg['change']):
            if f not in c0.score:
                continue
            for a, b in zip(c0.score[f].notes, c1.score[f].notes):
                pa, pb = note_pitch(c0, a), note_pitch(c1, b)
                if pa is None:
                    continue
                want = pa + (12 * shift if (change and a.type != 'a') else 0)
                if pb != want:
                    cls = 'fixed_abs' if (a.type == 'a' and not change and (pb - pa) % 12 == 0) else 'fixed'
                    res.setdefault(cls, []).append(f'fixed voice {f} chord {j}: pitch {pa} -> {pb}, expected {want} '
                                                   f'[type={a.type} change_octave_fixed={bool(change)}]')
    if not res:
        # reproducible for a given seed: a fresh optimiser with the same seed, AND the same optimiser object used a
        # second time (seed C19-1: the RNG was no longer re-seeded per run, only visible when an instance is re-used)
        again = make_vl(cfg, **kw)(score)
        if str(again) != str(out):
            res['repro'] = ['not reproducible for the same seed (fresh optimiser)']
        else:
            reused = vl_obj(score)
            if str(reused) != str(out):
                res['repro'] = ['not reproducible for the same seed (same optimiser object called twice)']
    return res


def make_vl_oracle(cls):
    def fn(inp):
        msgs = vl_findings(inp).get(cls)
        if not msgs:
            return None
        return {'observed': msgs[:12], 'expected': 'only first-note value/octave of non-fixed voices and chord octaves change; '
                                                   'bass in (-6, 6]; fixed voices keep their pitches; same seed, same result'}
    fn.__doc__ = f'optimiser oracle, class {cls}'
    return fn


def vl_signature(inp, cls, msgs):
    method = inp.get('method', 'voices_and_rules')
    if cls == 'crash':
        n = len(score_of(inp).chords)
        if n == 1 and msgs[0].startswith('ValueError') and method in ('voices', 'voices_and_rules'):
            return 'vl_crash:single-chord:method=voices'
        return 'vl_crash:' + msgs[0].split(':')[0]
    if cls == 'fixed_abs':
        return 'vl_fixed:absolute-note:change_octave_fixed=False'
    if cls == 'fixed':
        return f'vl_fixed:method={method}'
    return {'bass': 'vl_bass_range', 'note_system': 'vl_note_system', 'repro': 'vl_repro', 'structure': 'vl_structure'}[cls]


def check_repro_process(inp):
    """same seed in a fresh interpreter gives the same score"""
    score = score_of(inp)
    cfg = inp['cfg']
    kw = {k: inp[k] for k in ('seed', 'method', 'max_iter', 'max_iter_rules', 'max_norm') if k in inp}
    try:
        here = str(make_vl(cfg, **kw)(score))
    except Exception:
        return None     # a crash is reported by the optimiser oracle, not here
    prog = ('import sys, json; sys.dont_write_bytecode = True\n'
            'sys.path.insert(0, %r)\nimport sound\nfrom props.C19 import score_of\nfrom musiclang.transform.composing import VoiceLeading\n'
            'inp = json.loads(sys.stdin.read()); cfg = inp["cfg"]\n'
            'kw = {k: inp[k] for k in ("seed", "method", "max_iter", "max_iter_rules", "max_norm") if k in inp}\n'
            'vl = VoiceLeading(types=cfg["types"], fixed_voices=cfg["fixed"], change_octave_fixed=cfg["change"], **kw)\n'
            'print(str(vl(score_of(inp))))\n') % os.path.join(core.VERIF, 'harness')
    p = subprocess.run([sys.executable, '-c', prog], input=json.dumps(inp), capture_output=True, text=True, timeout=300,
                       env=dict(os.environ, PYTHONHASHSEED='7'))
    there = p.stdout.rstrip('\n')
    if p.returncode == 0 and there == here.rstrip('\n'):
        return None
    return {'observed': (there or p.stderr)[-600:], 'expected': here[-600:]}


def sounding(score):
    return {p: [(o, d) for (_, o, d, _) in evs] for p, evs in sound.spec_sound(score).items()}


def check_cp(inp):
    """counterpoint keeps the progression, the parts, every sounding onset and duration and the fixed parts' pitches"""
    from musiclang.transform.composing import create_counterpoint_on_score
    score = score_of(inp)
    try:
        if inp.get('moving') is not None:
            # the moving parts named explicitly, in the caller's order (seed C19-6 extracted them sorted and wrote them
            # back unsorted), as a list or a tuple
            mv = list(inp['moving'])
            out = create_counterpoint_on_score(score, list(inp['fixed']), tuple(mv) if inp.get('moving_tuple') else mv)
        elif inp.get('via') == 'method':
            out = score.get_counterpoint(list(inp['fixed']))
        else:
            out = create_counterpoint_on_score(score, fixed_parts=list(inp['fixed']))
    except Exception as e:
        return {'observed': f'{type(e).__name__}: {e}', 'expected': 'a score'}
    bad = []
    if [c.to_code() for c in out.chords] != [c.to_code() for c in score.chords]:
        bad.append('progression changed')
    if sorted(out.instruments) != sorted(score.instruments):
        bad.append(f'parts {sorted(score.instruments)} -> {sorted(out.instruments)}')
    if not bad:
        if sounding(out) != sounding(score):
            bad.append('a sounding onset or duration changed')
        s0, s1 = sound.spec_sound(score), sound.spec_sound(out)
        for f in inp['fixed']:
            if [(p, o, d) for p, o, d, _ in s0[f]] != [(p, o, d) for p, o, d, _ in s1[f]]:
                bad.append(f'fixed part {f} changed')
    return None if not bad else {'observed': bad, 'expected': 'same progression, parts, onsets, durations; fixed parts untouched'}


ORACLES = {'pvl': check_pvl, 'spvl': check_spvl, 'repro_process': check_repro_process, 'cp': check_cp,
           **{f'vl_{c}': make_vl_oracle(c) for c in VL_CLASSES}}

WITNESS_D11 = {'score': '(I % I.M)(cello__0=s0.o(-1), violin__0=s4, viola__0=s2)+ (V % I.M)(cello__0=s0.o(-1), violin__0=s4, viola__0=s2)'
                        '+ (IV % I.M)(cello__0=s0.o(-1), violin__0=s4, viola__0=s2)',
               'cfg': {'types': ['b', 'c', 's', 'h'], 'fixed': ['cello__0'], 'change': [True]}, 'method': 'random', 'seed': 0}
WITNESS_ABS = {'score': '(I % I.M).o(2)(cello__0=s0, violin__0=a0 + a4)+ (V % I.M)(cello__0=s0, violin__0=a7)',
               'cfg': {'types': ['b', 'c', 's', 'h'], 'fixed': ['violin__0'], 'change': [False]}, 'method': 'voices_and_rules',
               'seed': 3, 'max_iter': 5, 'max_iter_rules': 5}
WITNESS_SINGLE = {'score': '(I % I.M)(cello__0=s0, violin__0=s1)', 'cfg': {'types': ['b', 'c', 's', 'h'], 'fixed': [], 'change': []},
                  'method': 'voices_and_rules', 'seed': 34}
WITNESS_PVL = [
    # the witnesses of the Lean counter-example theorems pvl_step_full_fails / pvl_bound_fails_with_modifiers
    {'a': "(I % III.M)", 'b': "(II['(sus2)'] % I.m)", 'dir': 'up'},
    {'a': "(I % VI.b.M.o(-1))", 'b': "(I['(m6)'] % I.M)", 'dir': 'up'},
    {'a': "(II['9(m6)'] % II.b.dorian.o(2)).o(-1)", 'b': "(VII['64(#11){-1}{-3}'] % II.aeolian.o(-1)).o(-1)", 'dir': None},
    {'a': "(VI['65[m3]{-1}'] % IV.mm.o(2)).o(1)", 'b': "(III['6[M6][m3]'] % VI.dorian.o(2))", 'dir': 'up'},
]


def rand_cp_score(rng):
    from musiclang import Score, Silence, Melody
    chords = []
    parts = ['piano__0', 'violin__0', 'cello__0'][:rng.randint(2, 3)]
    for _ in range(rng.randint(1, 3)):
        c, _t = gen.rand_chord(rng, ext=rng.choice(gen.PLAIN_INVERTIBLE), octaves=(-1, 1))
        sc = {p: rand_cp_melody(rng, n=(1, 4), kinds=('s', 's', 's', 'h', 'r', 'l')) for p in parts}
        D = max(m.duration for m in sc.values())
        sc = {p: (m + Silence(D - m.duration) if m.duration < D else m) for p, m in sc.items()}
        chords.append(c(**sc))
    return Score(chords), parts


def oracle(ctx):
    rng = ctx.rng
    # ---- parsimonious voice leading: suspects, witnesses, every plain candidate figure x direction, random
    todo = [i for s, i in ctx.suspects if s == 'pvl' and i] + list(WITNESS_PVL)
    from musiclang import Chord, Tonality
    for fig in gen.PLAIN_INVERTIBLE:
        for mode in gen.MODES:
            for elem in range(7):
                b = Chord(elem, extension=fig, tonality=Tonality(rng.randrange(12), mode, rng.randint(-1, 1)), octave=rng.randint(-1, 1))
                a, _ = gen.rand_chord(rng, ext=rng.choice(gen.PLAIN_INVERTIBLE))
                todo.append({'a': a.to_code(), 'b': b.to_code(), 'dir': rng.choice([None, 'up', 'down'])})
    for _ in range(ctx.n(300, 4000)):
        a, _ = gen.rand_chord(rng)
        b, _ = gen.rand_chord(rng, ext=(rng.choice(gen.PLAIN_INVERTIBLE) if rng.random() < 0.5 else None))
        todo.append({'a': a.to_code(), 'b': b.to_code(), 'dir': rng.choice([None, 'up', 'down'])})
    for inp in todo:
        try:
            b = eval_chord(inp['b'])
        except Exception:
            continue
        ctx.count('oracle', key='pvl' + str(inp), bucket=['pvl', 'pvl:mods' if has_mods(b.extension) else 'pvl:plain'])
        r = check_pvl(inp)
        if r:
            ctx.fail(pvl_signature(inp, r), inp, r['observed'], r['expected'], oracle='pvl')
    todo = [i for s, i in ctx.suspects if s == 'spvl' and i and isinstance(i.get('directions'), (str, type(None), list))]
    for _ in range(ctx.n(60, 800)):
        n = rng.randint(2, 5)
        chords = [gen.rand_chord(rng, ext=rng.choice(gen.PLAIN_INVERTIBLE))[0].to_code() for _ in range(n)]
        x = rng.random()
        dirs = None if x < 0.3 else rng.choice(['up', 'down']) if x < 0.6 else [rng.choice([None, 'up', 'down']) for _ in range(n - 1)]
        todo.append({'score': chords, 'from_first': rng.random() < 0.3, 'directions': dirs})
    for inp in todo:
        ctx.count('oracle', key='spvl' + str(inp), bucket='spvl')
        try:
            r = check_spvl(inp)
        except AssertionError:
            continue
        except Exception as e:
            r = {'observed': f'{type(e).__name__}: {e}', 'expected': 'a progression'}
        if r:
            ctx.fail('spvl:progression', inp, r['observed'], r['expected'], oracle='spvl')
    # ---- the optimiser
    todo = [WITNESS_D11, WITNESS_SINGLE, WITNESS_ABS]
    for s, i in ctx.suspects:
        if i and 'cfg' in i and 'score' in i:
            todo.append({k: v for k, v in i.items() if k in ('score', 'cfg', 'seed', 'method', 'max_iter', 'max_iter_rules', 'max_norm')})
    for _ in range(ctx.n(140, 2000)):
        score = rand_vl_score(rng, n_chords=rng.choice([1, 2, 2, 3, 3, 4]))
        cfg = rand_cfg(rng, score)
        if not all_present(score, [f for f, c in zip(cfg['fixed'], cfg['change']) if not c]):
            continue
        todo.append(vl_input(score, cfg, seed=rng.randrange(10 ** 6),
                             method=rng.choice(['voices_and_rules', 'voices_and_rules', 'voices', 'rules', 'random']),
                             max_iter=rng.choice([5, 20, 60]), max_iter_rules=rng.choice([5, 20]), max_norm=rng.choice([1, 2, 3])))
    for inp in todo:
        try:
            score = score_of(inp)
        except Exception:
            continue
        ctx.count('oracle', key='vl' + str(inp), bucket=['vl', f'vl:method={inp.get("method")}', f'vl:chords={len(score.chords)}',
                                                         f'vl:fixed={len(inp["cfg"]["fixed"])}'])
        try:
            found = vl_findings(inp)
        except Exception as e:     # a malformed suspect the library rejects before the optimiser runs
            continue
        for cls, msgs in found.items():
            ctx.fail(vl_signature(inp, cls, msgs), inp, msgs[:12], 'the optimiser only re-voices', oracle=f'vl_{cls}')
    for inp in [i for i in todo[3:] if i.get('method') != 'random' and len(score_of(i).chords) > 1][:ctx.n(3, 20)]:
        ctx.count('oracle', key='repro' + str(inp), bucket='repro_process')
        r = check_repro_process(inp)
        if r:
            ctx.fail('vl_repro:process', inp, r['observed'], r['expected'], oracle='repro_process')
    # ---- counterpoint on its input domain
    for _ in range(ctx.n(60, 1000)):
        score, parts = rand_cp_score(rng)
        inp = {'score': dump_score(score), 'fixed': [parts[0]] if rng.random() < 0.8 else parts[:2]}
        x = rng.random()
        if x < 0.35:
            mv = [p for p in parts if p not in inp['fixed']]
            rng.shuffle(mv)
            inp.update(moving=mv, moving_tuple=rng.random() < 0.3)
        elif x < 0.5:
            inp['via'] = 'method'
        ctx.count('oracle', key='cp' + str(inp), bucket=['cp', f'cp:chords={len(score.chords)}',
                                                         'cp:' + ('explicit moving parts' if 'moving' in inp else inp.get('via', 'function'))])
        r = check_cp(inp)
        if r:
            ctx.fail('cp:' + (r['observed'][0].split(' ')[0] if isinstance(r['observed'], list) else 'crash'), inp,
                     r['observed'], r['expected'], oracle='cp')
