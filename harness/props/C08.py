"""C08 — the music21 / MusicXML export sounds the same as the MIDI rendering."""
import sys, os, tempfile
sys.dont_write_bytecode = True
from fractions import Fraction
import core, gen, sound
from core import sx, enc_score, enc_chord, enc_note, enc_ton, py_res, frac_str

ID = 'C08'
LEAN_MODULES = ['MV.Props.C08']
LEAN_HELPERS = ['MV.Lemmas.Mxl', 'MV.Lemmas.MxlSim', 'MV.Model.Mxl', 'MV.Model.MxlSound', 'MV.Model.Render', 'MV.Model.Pitch', 'MV.Model.Rel',
                'MV.Model.Basic']
DRIVERS = ['C08']
GEN = ['Tables', 'Library', 'Mxl']
SRC_TIE = ['SrcSpell']   # py2lean source images of get_note_spelling / tonality_to_music21_key proved equal to the model (MV/Props/TieSrcSpell.lean)
RULE = ('random scores: 1-4 chords in all nine modes x 12 tonics, 1-3 parts (two of them sharing one music21 Part as '
        'voices), parts of unequal lengths and absent from some chords, rests and continuations anywhere (first position, '
        'after rests, across chords, in chains, after absences), all pitched note systems incl. relative notes, dynamics; '
        'every sounding pitch in the notation range MIDI 24..120; streams: export (every element of every voice: kind, '
        'MIDI number, offset, quarterLength, tie), export-norepeat, export-malformed (unreferenced relative notes, drum and '
        'pattern notes), spell (get_note_spelling on stratified (mode, tonic, scale cell) x octave), vsound / rsound (the '
        'two denotations used by the theorems against the harness readers), key; non-trivial = a continuation, rest, '
        'absent part, short part or relative note occurs; distinct = distinct score text')
TRUSTED = ['hand-written model of to_mxl.py (MV/Model/Mxl.lean) tied by the streams export / export-norepeat / '
           'export-malformed / spell / key',
           'music21: Note(name+octave) -> pitch.ps, Voice.append offsets, Duration(quarterLength), tie marks, '
           'nameWithOctave -> Note round trip (exercised by every stream, not proved)',
           'the denotation of the MIDI side is what the note matrix sounds per track (harness/sound.impl_sound, '
           'modelled as soundR; its equality with to_events is C03)',
           'dynamics marks and lyrics are not modelled (zero duration, outside the claim)',
           'source tie SrcSpell: the spec bindings of harness/srcgroups/SrcSpell.py (Note(name + str(octave)) kept as the pair '
           '(name, octave), Note(pc) / .octave = o as the pitch class with its octave, .duration outside the spelling, '
           'note_to_pitch_result and Tonality.scale_pitches bound to the model functions tied by C01)']
ASSUMPTIONS = ['notation range: every sounding pitch has a spelled octave >= 0 (MIDI number >= 24); below it music21 '
               'reads "C-1" as C-flat 1 and rejects "Eb-1"',
               'tonality degree in 0..11, chord degree in 0..6, durations > 0 with denominators <= 1000',
               'scores are well referenced: every relative note has an earlier sounded note of its part with no '
               'absence of the part in between (after an absence the MIDI renderer forgets the reference)',
               'no drum and no pattern-placeholder notes (outside the claim); default no_repeat=False']

LOW, HIGH = -36, 60          # matrix pitches; MIDI numbers 24..120
PARTS = ('piano__0', 'violin__0', 'piano__1')

# ----------------------------------------------------------------------------- reading the real export

_m21 = None


def m21():
    """music21 is slow to import: once per check"""
    global _m21
    if _m21 is None:
        import music21
        _m21 = music21
    return _m21


def q(x):
    """music21 offsets/lengths are exact dyadic floats or Fractions"""
    return Fraction(x) if not isinstance(x, float) else Fraction(x).limit_denominator(10 ** 6)


def read_voice(v):
    M = m21()
    out = []
    for e in v:
        if isinstance(e, M.note.Note):
            out.append(('N', int(round(e.pitch.ps)), q(e.offset), q(e.quarterLength), e.tie.type if e.tie is not None else None))
        elif isinstance(e, M.note.Rest):
            out.append(('R', None, q(e.offset), q(e.quarterLength), None))
        elif isinstance(e, M.dynamics.Dynamic):
            continue
        else:
            out.append(('?' + type(e).__name__, None, q(e.offset), q(getattr(e, 'quarterLength', 0)), None))
    return out


def read_m21(m, names):
    """{musiclang part name: elements of its voice}; voices of one instrument share a music21 Part"""
    M = m21()
    by_ins = {}
    for nm in names:
        by_ins.setdefault(nm.split('__')[0], []).append(nm)
    parts = list(m.parts)
    if len(parts) != len(by_ins):
        raise AssertionError(f'{len(parts)} music21 parts for instruments {list(by_ins)}')
    out = {}
    for part, (ins, nms) in zip(parts, by_ins.items()):
        voices = list(part.getElementsByClass(M.stream.Voice))
        if len(voices) != len(nms):
            raise AssertionError(f'{len(voices)} voices for {nms}')
        for nm, v in zip(nms, voices):
            if q(v.offset) != 0:
                raise AssertionError('voice not at offset 0')
            out[nm] = read_voice(v)
    return out


def read_export(score, **kw):
    return read_m21(score.to_music21(**kw), sound.part_names(score))


def show_elems(els):
    o = []
    for k, ps, off, d, tie in els:
        if k == 'N':
            o.append(f'(N {ps} {frac_str(off)} {frac_str(d)} {tie if tie else "-"})')
        elif k == 'R':
            o.append(f'(R {frac_str(off)} {frac_str(d)})')
        else:
            o.append(f'({k} {frac_str(off)} {frac_str(d)})')
    return '(' + ' '.join(o) + ')'


def show_export(score):
    def f(ex):
        return '(' + ' '.join(f'({p} {show_elems(ex[p])})' for p in sound.part_names(score)) + ')'
    return f


def merge_ties(els):
    """what a voice sounds: [(MIDI number, onset, duration)].  A note prolongs its predecessor when the
    predecessor carries a tie start/continue and has the same pitch; a rest ends the sounding note."""
    evs, open_ev, tied = [], None, False
    for k, ps, off, d, tie in els:
        if k != 'N':
            open_ev, tied = None, False
            continue
        if open_ev is not None and tied and evs[open_ev][0] == ps:
            p, o, dd = evs[open_ev]
            evs[open_ev] = (p, o, dd + d)
        else:
            evs.append((ps, off, d))
            open_ev = len(evs) - 1
        tied = tie in ('start', 'continue')
    return evs


def show_evs(evs):
    return '(' + ' '.join(f'({p} {frac_str(o)} {frac_str(d)})' for p, o, d in evs) + ')'


def midi_sound(score):
    """{part: [(MIDI number, onset, duration)]} the rendered note events per part"""
    return {p: [(pp + 60, o, d) for pp, o, d, v in evs] for p, evs in sound.impl_sound(score).items()}

# ----------------------------------------------------------------------------- domain of the claim


def notes_of(score):
    return [n for c in score.chords for m in c.score.values() for n in m.notes]


def in_claim(score, zero_ok=False):
    """no drum / pattern notes, well referenced, positive durations, notation range"""
    ns = notes_of(score)
    if any(n.type in ('d', 'x') for n in ns) or any(Fraction(n.duration) < 0 or (Fraction(n.duration) == 0 and not zero_ok) for n in ns):
        return False
    if not sound.well_referenced(score):
        return False
    try:
        sp = sound.spec_sound(score)
    except Exception:
        return False
    return all(LOW <= p <= HIGH for evs in sp.values() for p, o, d, v in evs)


def exporter_in_range(score):
    """range filter for scores outside the claim: the pitches the exporter itself will spell (its reference
    pitch is not reset by absences and not moved by drum notes, unlike the MIDI renderer's)"""
    from musiclang.write.out.to_midi import note_to_pitch_result
    for part in sound.part_names(score):
        last = None
        for ch in score.chords:
            if part not in ch.score:
                continue
            for n in ch.score[part].notes:
                if not n.is_note:
                    continue
                try:
                    last = note_to_pitch_result(n, ch, last_pitch=last)
                except Exception:
                    break           # the export raises here; nothing later is spelled
                if last is None or not (LOW <= last <= HIGH):
                    return False
            else:
                continue
            break
    return True


def gap_cont_parts(score):
    """parts in which a continuation directly follows the padding of a short part while the MIDI renderer still
    holds a note (the one place where export and MIDI rendering are known to differ, see known_findings.json)"""
    bad = []
    for part in sound.part_names(score):
        gap, sounding = False, False     # gap: the exporter padded; sounding: the renderer has an open note
        hit = False
        for ch in score.chords:
            if part not in ch.score:
                gap, sounding = False, False
                continue
            notes = ch.score[part].notes
            for n in notes:
                if n.type == 'l':
                    if gap and sounding:
                        hit = True
                elif n.type == 'r':
                    sounding = False
                    gap = False
                else:
                    sounding = True
                    gap = False
            if sum((Fraction(n.duration) for n in notes), Fraction(0)) < sound.chord_duration(ch):
                gap = True
        if hit:
            bad.append(part)
    return bad


def features(s):
    f = []
    ns = notes_of(s)
    if any(n.type == 'l' for n in ns):
        f.append('cont')
    if any(n.type == 'r' for n in ns):
        f.append('rest')
    if any(n.is_relative for n in ns):
        f.append('relative')
    names = sound.part_names(s)
    if any(p not in c.score for c in s.chords for p in names):
        f.append('absent')
    if any(len({sum(n.duration for n in m.notes) for m in c.score.values()}) > 1 for c in s.chords):
        f.append('short')
    for c in s.chords:
        for m in c.score.values():
            t = [n.type for n in m.notes]
            if any(a == 'l' and b == 'l' for a, b in zip(t, t[1:])):
                f.append('chain')
            if t and t[0] == 'l':
                f.append('cont-first')
            if any(a == 'r' and b == 'l' for a, b in zip(t, t[1:])):
                f.append('cont-after-rest')
    return sorted(set(f))


def mode_class(s):
    ms = {c.tonality.mode for c in s.chords}
    return 'tabled' if ms <= {'M', 'm', 'mm'} else 'church'


def rand_score(ctx, claim=True, kinds=None, p_amp=0.3, **kw):
    rng = ctx.rng
    last = None
    for _ in range(300):
        k = kinds or (gen.NONREL + (gen.REL if rng.random() < 0.5 else []))
        opts = dict(p_rest=0.2, p_cont=0.3, vals=(0, 8), octs=(-1, 1), p_amp=p_amp)
        opts.update(kw)
        s = gen.rand_score(rng, n_chords=(1, 4), parts=PARTS[:rng.randint(1, 3)], p_absent=0.2, kinds=k,
                           equal_parts=rng.random() < 0.4, **opts)
        if rng.random() < 0.5:
            s = tie_over_chords(rng, s)
        if rng.random() < 0.35:
            s = tabled_modes(rng, s)
        if rng.random() < 0.15 and not claim:
            s = zero_anchors(rng, s)
        last = s
        if not claim or in_claim(s):
            return s
    return last


def zero_anchors(rng, s):
    """zero-length notes (the empty figure `n`) placed in front of relative notes: they sound nothing but give the
    relative note its reference pitch — the idiom the library's own grupetto realisation produces
    (`note.n + su1 + ...`; seed C08-7 skipped them in the MusicXML export before the reference was updated)"""
    from musiclang import Score, Note, Melody
    chords = []
    for ch in s.chords:
        c = ch.copy()
        for part, m in list(c.score.items()):
            notes = []
            for n in m.notes:
                if n.is_relative and rng.random() < 0.5:
                    notes.append(Note(rng.choice(['s', 's', 'h', 'c']), rng.randint(0, 6), rng.choice([0, 0, 1, -1]), 0))
                notes.append(n)
            c.score[part] = Melody(notes)
        chords.append(c)
    return Score(chords)


def tabled_modes(rng, s):
    """the same score in the three modes that have a spelling table"""
    from musiclang import Score, Tonality
    chords = []
    for ch in s.chords:
        c = ch.copy()
        c.tonality = Tonality(ch.tonality.degree, rng.choice(['M', 'm', 'mm']), ch.tonality.octave)
        chords.append(c)
    return Score(chords)


def tie_over_chords(rng, s):
    """make continuations across chord changes (and right after absences / short parts) frequent: the first note of
    a part in a later chord becomes a continuation of the same duration"""
    from musiclang import Score, Continuation, Melody
    chords = []
    for i, ch in enumerate(s.chords):
        sc = {}
        for p, m in ch.score.items():
            notes = list(m.notes)
            if i > 0 and notes and rng.random() < 0.4:
                notes[0] = Continuation(notes[0].duration)
            sc[p] = Melody(notes)
        c = ch.copy()
        c.score = sc
        chords.append(c)
    return Score(chords)

# ----------------------------------------------------------------------------- correspondence


def canon_key(out):
    """model: the text handed to music21.key.Key; compared as (tonic pitch class, mode)"""
    letter = {'c': 0, 'd': 2, 'e': 4, 'f': 5, 'g': 7, 'a': 9, 'b': 11}
    pc = letter[out[0].lower()] + out[1:].count('#') - out[1:].count('b')
    return f'{pc % 12} {"major" if out[0].isupper() else "minor"}'


def spell_cases(ctx, n_random, octaves):
    from musiclang import Chord, Tonality, Note
    from musiclang.write.out.to_mxl import get_note_spelling
    from musiclang.write.out.to_midi import note_to_pitch_result
    rng = ctx.rng
    cases = []

    def add(c, n, last, bucket):
        try:
            p = note_to_pitch_result(n, c, last_pitch=last)
        except Exception:
            p = 0
        if p is None or not (LOW <= p <= HIGH):
            return

        def show(r):
            return f'{int(round(r[0].pitch.ps))} {int(r[1])}'
        cases.append({'line': sx('spell', enc_chord(c, with_parts=False), enc_note(n), last),
                      'impl': py_res(lambda: get_note_spelling(n, c, last_pitch=last), show),
                      'input': {'chord': str(c), 'note': str(n), 'last': last}, 'bucket': bucket,
                      'nontrivial': True})
    # every cell of every mode (tabled or not): scale degree idx of tonic t, in several octaves
    for mode in gen.MODES:
        for t in range(12):
            for idx in range(7):
                for o in octaves:
                    c = Chord(0, tonality=Tonality(t, mode, 0))
                    add(c, Note('s', idx, o, 1), None, [f'cell:{mode}', 'kind=s'])
    for _ in range(n_random):
        c, _t = gen.rand_chord(rng, octaves=(-1, 1))
        n = gen.rand_note(rng, kinds=gen.NONREL + gen.REL, vals=(-8, 10), octs=(-2, 2))
        last = rng.randint(-30, 40) if rng.random() < 0.9 else None
        add(c, n, last, [f'mode={c.tonality.mode}', f'kind={n.type}', 'last=None' if last is None else 'last=int'])
    return cases


def correspondence(ctx):
    from musiclang.write.out.to_mxl import tonality_to_music21_key
    from musiclang import Tonality
    m21()
    ex, exn, vs, rs = [], [], [], []
    for i in range(ctx.n(150, 4000)):
        s = rand_score(ctx)
        enc = enc_score(s)
        ft = features(s)
        text = str(s)
        bk = ft + [f'chords={len(s.chords)}', f'modes={mode_class(s)}']
        ex.append({'line': sx('export', enc, 0), 'impl': py_res(lambda: read_export(s), show_export(s)),
                   'input': {'score': text}, 'bucket': bk, 'nontrivial': bool(ft), 'key': text})
        part = ctx.rng.choice(sound.part_names(s))
        vs.append({'line': sx('vsound', enc, part), 'impl': py_res(lambda: merge_ties(read_export(s)[part]), show_evs),
                   'input': {'score': text, 'part': part}, 'bucket': bk, 'nontrivial': bool(ft), 'key': text + part})
        rs.append({'line': sx('rsound', enc, part), 'impl': py_res(lambda: midi_sound(s)[part], show_evs),
                   'input': {'score': text, 'part': part}, 'bucket': bk, 'nontrivial': bool(ft), 'key': text + part})
    for i in range(ctx.n(40, 1000)):
        s = rand_score(ctx, p_amp=0.0, kinds=gen.NONREL, vals=(0, 2), octs=(0, 0))   # many repeated pitches
        text = str(s)
        ft = features(s)
        exn.append({'line': sx('export', enc_score(s), 1), 'impl': py_res(lambda: read_export(s, no_repeat=True), show_export(s)),
                    'input': {'score': text, 'no_repeat': True}, 'bucket': ft, 'nontrivial': True, 'key': text})
    mal = []
    for i in range(ctx.n(40, 800)):
        s = rand_score(ctx, claim=False, kinds=gen.NONREL + gen.REL + ['d', 'x'])
        text = str(s)
        kinds = sorted({n.type for n in notes_of(s)} & {'d', 'x'}) + (['unreferenced'] if not sound.well_referenced(s) else [])
        if not exporter_in_range(s):
            continue
        mal.append({'line': sx('export', enc_score(s), 0), 'impl': py_res(lambda: read_export(s), show_export(s)),
                    'input': {'score': text}, 'bucket': kinds or ['plain'], 'nontrivial': bool(kinds), 'key': text})
    ctx.compare('export', 'C08', ex)
    ctx.compare('export-norepeat', 'C08', exn)
    ctx.compare('export-malformed', 'C08', mal)
    ctx.compare('vsound', 'C08', vs)
    ctx.compare('rsound', 'C08', rs)
    ctx.compare('spell', 'C08', spell_cases(ctx, ctx.n(300, 6000), (0,) if ctx.tier == 'quick' else (-2, 0, 1, 3)))
    keys = []
    for mode in gen.MODES:
        for t in range(12):
            ton = Tonality(t, mode)

            def show(k):
                return f'{k.tonic.pitchClass} {k.mode}'
            keys.append({'line': sx('key', enc_ton(ton)), 'impl': py_res(lambda: tonality_to_music21_key(ton), show),
                         'canon': canon_key, 'input': {'tonality': str(ton)}, 'bucket': [mode], 'nontrivial': True})
    ctx.compare('key', 'C08', keys)
    # kernel-level streams of the source tie (DESIGN §9.6): real function vs model, real function vs generated source image
    import srctie
    srctie.run(ctx, SRC_TIE)

# ----------------------------------------------------------------------------- oracle (the property itself)


def load(inp):
    return sound.load_score(inp['score'])


def check_sound(inp):
    """the export has, for every part, notes with the MIDI number, onset and tied duration of the rendered note
    events, rests everywhere else (a gap-free sequence of notes and rests as long as the score)"""
    s = load(inp)
    exp = midi_sound(s)
    try:
        got = read_export(s)
    except Exception as e:
        return {'observed': f'export raises {type(e).__name__}: {e}', 'expected': 'export succeeds', 'class': 'raises:' + type(e).__name__}
    total = sum((sound.chord_duration(c) for c in s.chords), Fraction(0))
    for part in sound.part_names(s):
        els = got.get(part)
        if els is None:
            return {'observed': f'no voice for {part}', 'expected': 'one voice per part', 'class': 'no-voice', 'part': part}
        t = Fraction(0)
        for k, ps, off, d, tie in els:
            if k not in ('N', 'R') or off != t:
                return {'observed': f'{part}: element {k} at {off}, voice filled up to {t}', 'expected': 'notes and rests laid end to end',
                        'class': 'layout', 'part': part}
            t += d
        if t != total:
            return {'observed': f'{part}: voice lasts {t}', 'expected': f'score lasts {total}', 'class': 'length', 'part': part}
        ev = merge_ties(els)
        if ev != exp[part]:
            return {'observed': {part: [str(x) for x in ev if x not in exp[part]][:6]},
                    'expected': {part: [str(x) for x in exp[part] if x not in ev][:6]}, 'class': 'events', 'part': part}
    return None


def check_strip(inp):
    """music21's own reading of the ties (stripTies) gives the rendered note events"""
    M = m21()
    s = load(inp)
    exp = midi_sound(s)
    m = s.to_music21().stripTies()
    got = read_m21(m, sound.part_names(s))
    for part in sound.part_names(s):
        ev = [(ps, off, d) for k, ps, off, d, tie in got[part] if k == 'N']
        if ev != exp[part]:
            return {'observed': {part: [str(x) for x in ev if x not in exp[part]][:6]},
                    'expected': {part: [str(x) for x in exp[part] if x not in ev][:6]}, 'class': 'events', 'part': part}
    return None


def check_roundtrip(inp):
    """to_musicxml -> file -> music21.converter.parse: per instrument the same sounding notes"""
    M = m21()
    s = load(inp)
    exp = {}
    for part, evs in midi_sound(s).items():
        exp.setdefault(part.split('__')[0], []).extend(evs)
    with tempfile.TemporaryDirectory() as d:
        path = os.path.join(d, 'x.mxl')
        try:
            s.to_musicxml(path)
        except Exception as e:
            return {'observed': f'to_musicxml raises {type(e).__name__}: {e}', 'expected': 'file written', 'class': 'raises:' + type(e).__name__}
        m = M.converter.parse(path)
    parts = list(m.parts)
    if len(parts) != len(exp):
        return {'observed': f'{len(parts)} parts', 'expected': f'{len(exp)} instruments', 'class': 'parts'}
    for part, (ins, evs) in zip(parts, exp.items()):
        # the file has measures; notes cut at bar lines are tied.  Read every voice in time order and merge ties
        voices = {}
        for n in part.recurse().getElementsByClass(M.note.Note):
            v = n.getContextByClass(M.stream.Voice)
            voices.setdefault(str(v.id) if v is not None else '-', []).append(
                (q(n.getOffsetInHierarchy(part)), int(round(n.pitch.ps)), q(n.quarterLength), n.tie.type if n.tie is not None else None))
        got = []
        for vid, ns in voices.items():
            ns.sort(key=lambda x: x[0])
            cur, tied = None, False
            for off, ps, d, tie in ns:
                if cur is not None and tied and cur[0] == ps and cur[1] + cur[2] == off:
                    cur = (ps, cur[1], cur[2] + d)
                else:
                    if cur is not None:
                        got.append(cur)
                    cur = (ps, off, d)
                tied = tie in ('start', 'continue')
            if cur is not None:
                got.append(cur)
        got.sort()
        if got != sorted(evs):
            return {'observed': {ins: [str(x) for x in got if x not in evs][:6]},
                    'expected': {ins: [str(x) for x in sorted(evs) if x not in got][:6]}, 'class': 'events', 'part': ins}
    return None


def check_anchor(inp):
    """scores with zero-length notes (the empty figure `n`, used as pitch anchors in front of relative notes): the
    sequence of sounding pitches of every part is the same in the export and in the rendering.  Only the pitches are
    compared here: how a zero-length note itself is laid out / tied in the export is not claimed (the property speaks of
    notes that sound), what the relative notes after it sound is."""
    s = load(inp)
    exp = midi_sound(s)
    try:
        got = read_export(s)
    except Exception as e:
        return {'observed': f'export raises {type(e).__name__}: {e}', 'expected': 'export succeeds', 'class': 'raises:' + type(e).__name__}
    for part in sound.part_names(s):
        a = [ps for ps, off, d in merge_ties(got.get(part, [])) if d > 0]
        b = [ps for ps, off, d in exp[part] if d > 0]
        if a != b:
            return {'observed': {part: a}, 'expected': {part: b}, 'class': 'anchor-pitches', 'part': part}
    return None


ORACLES = {'sound': check_sound, 'strip': check_strip, 'roundtrip': check_roundtrip, 'anchor': check_anchor}

WITNESSES = [
    # D4 (a) (fixed): modes without a spelling table
    '(I % I.dorian)(piano__0=s0 + s1)',
    '(IV % III.b.locrian)(piano__0=s0 + s2.o(-1) + h3 + c1 + b2)',
    # D4 (b) (fixed): continuations in the first chord / after a rest earlier in the chord
    '(I % I.M)(piano__0=s0 + l)',
    '(I % I.M)(piano__0=s0)+ (I % I.M)(piano__0=s0 + r + s1 + l)',
    # D4 (c) (fixed): a part shorter than its chord
    '(I % I.M)(piano__0=s0 + s1, violin__0=s4)+ (I % I.M)(piano__0=s2, violin__0=s4)',
    # chains, across chords, after absences, two voices in one music21 Part
    '(I % I.M)(piano__0=s0 + l + l + s1 + l.e + l.e3, piano__1=s4.h + l.h + l.w)',
    '(I % I.m)(piano__0=s0.h + l)+ (V % I.m)(piano__0=l + l.h + su1 + l)',
    '(I % I.M)(piano__0=s0, violin__0=s2)+ (I % I.M)(violin__0=s2)+ (I % I.M)(piano__0=l + s1 + l, violin__0=l.h + l)',
    '(I % VI.mm)(piano__0=l + r + l + s6 + l + r + l)',
    # B# / Cb / F## cells
    '(I % II.b.m)(piano__0=s6 + s6.o(-1) + s6.o(1))',
    '(I % IV.s.M)(piano__0=s3 + s3.o(1))+ (I % VI.b.m)(piano__0=s6 + l)',
]

# the one place where the repaired exporter still differs from the MIDI rendering (known finding)
GAP_WITNESS = '(I % I.M)(piano__0=s0, violin__0=s4.h)+ (I % I.M)(piano__0=l, violin__0=s4)'


def signature(name, s, res):
    cls = res.get('class', 'events')
    part = res.get('part')
    if name == 'sound' and cls == 'events' and part in gap_cont_parts(s):
        return 'sound:continuation-after-padded-gap'
    ft = features(s)
    return f'{name}:{cls}:modes={mode_class(s)}:' + '+'.join(ft)


def run(ctx, name, text, bucket=None):
    inp = {'score': text}
    try:
        s = load(inp)
    except Exception:
        return
    if not in_claim(s, zero_ok=(name == 'anchor')):
        return
    if name != 'sound' and gap_cont_parts(s):
        return          # the known finding is reported once, by the `sound` oracle
    ft = features(s)
    ctx.count('oracle', key=name + text, bucket=[name] + ft + [f'modes={mode_class(s)}'] + (bucket or []), nontrivial=bool(ft))
    try:
        r = ORACLES[name](inp)
    except Exception as e:
        r = {'observed': f'{type(e).__name__}: {e}', 'expected': 'oracle evaluates', 'class': 'oracle-error'}
    if r:
        ctx.fail(signature(name, s, r), inp, r['observed'], r['expected'], oracle=name)


def enumerated():
    """smallest scores first: every mode x tonic with all seven degrees, two chromatic notes, a tie and a rest"""
    out = []
    deg = ['I', 'II', 'III', 'IV', 'V', 'VI', 'VII']
    names = {0: 'I', 1: 'II.b', 2: 'II', 3: 'III.b', 4: 'III', 5: 'IV', 6: 'IV.s', 7: 'V', 8: 'VI.b', 9: 'VI', 10: 'VII.b', 11: 'VII'}
    for mode in gen.MODES:
        for t in range(12):
            d = deg[(t + len(mode)) % 7]
            out.append(f'({d} % {names[t]}.{mode})(piano__0=s0 + s1 + l + s2 + s3.e + r.e + s4 + s5 + s6.o(-1) + l + h1 + h6.o(1))')
    return out


def oracle(ctx):
    m21()
    todo = list(WITNESSES) + [GAP_WITNESS]
    for st, i in ctx.suspects:
        if i and 'score' in i:
            todo.append(i['score'])
    for text in todo:
        run(ctx, 'sound', text, ['witness'])
        run(ctx, 'strip', text, ['witness'])
    for text in enumerated():
        run(ctx, 'sound', text, ['enumerated'])
    for _ in range(ctx.n(250, 6000)):
        s = rand_score(ctx)
        text = str(s)
        run(ctx, 'sound', text)
        if ctx.rng.random() < (0.2 if ctx.tier == 'quick' else 0.5):
            run(ctx, 'strip', text)
    for _ in range(ctx.n(120, 2500)):
        s = zero_anchors(ctx.rng, rand_score(ctx, claim=False))
        if any(n.duration == 0 for n in notes_of(s)):
            run(ctx, 'anchor', str(s), ['zero-length anchors'])
    # file round trip (slow): simple durations only, music21 cannot write every tuplet
    simple = [Fraction(4), Fraction(2), Fraction(1), Fraction(1, 2), Fraction(1, 4), Fraction(3), Fraction(3, 2)]
    for text in (WITNESSES[:6] if ctx.tier == 'quick' else WITNESSES):
        run(ctx, 'roundtrip', text, ['witness'])
    for _ in range(ctx.n(6, 300)):
        s = rand_score(ctx, durs=simple)
        if gap_cont_parts(s):
            continue
        run(ctx, 'roundtrip', str(s))
