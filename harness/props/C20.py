"""C20 — equality is an equivalence and agrees with hashing (notes, tonalities, chords, melodies, scores)."""
import sys
sys.dont_write_bytecode = True
import json
from fractions import Fraction
import core, gen
from core import sx, SX, py_res, frac_str

ID = 'C20'
LEAN_MODULES = ['MV.Props.C20']
LEAN_HELPERS = ['MV.Lemmas.Equality', 'MV.Model.Equality', 'MV.Model.Pitch', 'MV.Model.Rel', 'MV.Model.Basic',
                'MV.Model.Types']
DRIVERS = ['C20']
GEN = ['Tables', 'Library', 'Dynamics']
SRC_TIE = ['SrcTonality', 'SrcOps',   # py2lean source images of Tonality.__eq__ / Note.__eq__ proved equal to the model
           'SrcEq']                   # … and of the __eq__ / hash keys / copies / printed forms of melodies, chords, scores, notes, tonalities
RULE = ('families of objects of one kind built from a random base by changing exactly one field (kind, value, octave, '
        'duration, mode, accidental, amplitude, tags, tempo, pedal, extension spelling / figure, tonality spelling / '
        'degree / mode / octave, chord octave, part order / name / content, chord order) plus rebuilt copies; a case is '
        'non-trivial when the two objects are not the same description; distinct = distinct request line')
TRUSTED = ['model of __eq__ / __hash__ key / copy / to_code / __repr__ of Note, Melody, Tonality, Chord, Score and of '
           'NoteInMask / ChordInMask / TonalityInMask is hand-written (MV/Model/Equality.lean) and tied to the code by the '
           'streams eq / code / copy / mask / misc',
           'Python: hash(str) and hash(tuple) are functions of the value and equal values hash equally; set / dict lookup '
           'compares hashes first, then calls stored == probe; dict == dict is order-insensitive',
           'CPython: set(s) of a set without deleted slots iterates like s (model default of copy); any other order is an '
           'explicit input of the model (noteCopyWith)',
           'amp_figure is computed with floats by the code and with exact rationals by the model; agreement is proved on '
           'the generated table (8 dynamics, integer amplitudes 0..127)']
ASSUMPTIONS = ['objects of the same kind only (the statement); chords carry a tonality and a degree in 0..6',
               'inside melodies a note of kind r / l is a Silence / Continuation instance (the library symbols r, l)',
               'copy clause: durations with denominator <= 1000 (Note.__init__ rounds the others, DESIGN section 8)',
               'hash collisions of distinct keys are ignored (CPython: hash(-1) == hash(-2); the generators never produce '
               'the value -2 in a note value or octave)']

MODES = gen.MODES
ACCS = gen.ACCS
KINDS = ['s', 'h', 'c', 'b', 'a', 'd', 'x', 'r', 'l', 'su', 'sd', 'hu', 'hd', 'cu', 'cd', 'bu', 'bd']
TAGS = ['accent', 'mordant', 'staccato', 'a', 'b', 'c', 'interpolate', 'trill', 'roll', 'x1', 'x2', 'label']
DYN = ['ppp', 'pp', 'p', 'mp', 'mf', 'f', 'ff', 'fff']
PARTS = ['piano__0', 'violin__0', 'cello__0', 'flute__1', 'piano__1']

# ----------------------------------------------------------------------------- descriptions <-> objects
# Every object is generated as a JSON description ("j"); the real object is built from it.  The
# description is what goes to replay files.


def dyn_amp(name):
    return {'ppp': 120 * 0.16, 'pp': 120 * 0.26, 'p': 120 * 0.36, 'mp': 120 * 0.5, 'mf': 120 * 0.65, 'f': 120 * 0.8,
            'ff': 120 * 0.9, 'fff': 120 * 0.95}[name]


def note_from_j(j):
    from musiclang import Note, Silence, Continuation
    dur = Fraction(j['dur'])
    cls = j.get('cls', 'Note')
    if cls == 'Silence':
        n = Silence(dur, tempo=j.get('tempo'), pedal=j.get('pedal'))
    elif cls == 'Continuation':
        n = Continuation(dur, tempo=j.get('tempo'), pedal=j.get('pedal'))
    else:
        n = Note(j['type'], j['val'], j['oct'], dur, mode=j.get('mode'), accident=j.get('acc'), amp=j.get('amp', 66),
                 tempo=j.get('tempo'), pedal=j.get('pedal'))
    for op in j.get('tagops', []):           # through the library API: add_tag / remove_tag return copies
        n = n.add_tag(op[1:]) if op[0] == '+' else n.remove_tag(op[1:])
    if cls != 'Note':                         # states reached by oabs / melody.<mode> on the library's r and l
        n.val, n.octave, n.mode, n.accident = j['val'], j['oct'], j.get('mode'), j.get('acc')
        n.amp = j.get('amp', 66)
        n.tempo = j.get('tempo')
    if n.duration != dur:                     # denominators > 1000 (reached by chaining .t7.t7.t7): bypass the constructor
        n.duration = dur
    via = j.get('dur_via')
    if via and dur.denominator == 1:
        # the same whole-number duration given through the public setters as a plain int (seed C20-6 kept the int,
        # and the printed form that melody / chord equality and hashing go through spells int and Fraction differently)
        n = n.set_duration(int(dur)) if via == 'set_int' else n.set_duration(1).augment(int(dur))
    return n


def melody_from_j(j):
    from musiclang import Melody
    return Melody([note_from_j(n) for n in j['notes']])


def ton_from_j(j):
    from musiclang import Tonality
    t = Tonality(j['deg'], j['mode'], j['oct'])
    if j.get('tags'):
        t = t.add_tags(list(j['tags']))      # tags are no part of a tonality's identity (seed C20-5 printed them, and the
    return t                                 # hash is the hash of the printed form)


def chord_from_j(j):
    from musiclang import Chord
    return Chord(j['elem'], extension=j['ext'], tonality=ton_from_j(j['ton']), octave=j['oct'],
                 score={name: melody_from_j(m) for name, m in j['parts']})


def score_from_j(j):
    from musiclang import Score
    return Score([chord_from_j(c) for c in j['chords']])


FROM_J = {'note': note_from_j, 'melody': melody_from_j, 'tonality': ton_from_j, 'chord': chord_from_j,
          'score': score_from_j}

# ----------------------------------------------------------------------------- encoding for the driver (tags in iteration order)


def enc_note(n):
    amp = n.amp
    return SX(sx('n', n.type, int(n.val), int(n.octave), Fraction(n.duration), n.mode, n.accident,
                 Fraction(*amp.as_integer_ratio()) if isinstance(amp, float) else Fraction(amp),
                 list(n.tags), n.tempo, n.pedal))


def enc_melody(m):
    return [enc_note(n) for n in m.notes]


def enc_ton(t):
    return SX(sx('t', int(t.degree), t.mode, int(t.octave)))


def enc_chord(c, ext_text):
    parts = [[k, enc_melody(m)] for k, m in c.score.items()]
    return SX(sx('c', int(c.element), core.enc_ext(ext_text), enc_ton(c.tonality), int(c.octave), parts))


def enc_score(s, exts):
    return SX(sx('s', *[enc_chord(c, e) for c, e in zip(s.chords, exts)]))


def enc(kind, obj, j):
    if kind == 'note':
        return enc_note(obj)
    if kind == 'melody':
        return enc_melody(obj)
    if kind == 'tonality':
        return enc_ton(obj)
    if kind == 'chord':
        return enc_chord(obj, j['ext'])
    return enc_score(obj, [c['ext'] for c in j['chords']])


def cls_atom(n):
    return {'Note': 'note', 'Silence': 'silence', 'Continuation': 'continuation'}[type(n).__name__]


def esc(s):
    return s.replace('\n', '\\n').replace('\t', '\\t')


def b01(b):
    if b is not True and b is not False:
        raise TypeError(f'not a bool: {b!r}')
    return '1' if b else '0'

# ----------------------------------------------------------------------------- random descriptions


def rdur(rng):
    x = rng.random()
    if x < 0.35:
        return '1'
    if x < 0.85:
        from musiclang.write.constants import STR_TO_DURATION
        return frac_str(Fraction(STR_TO_DURATION[rng.choice(gen.DURS + ['n', 'w5', 't7', 'wd', 'td'])]))
    return frac_str(Fraction(rng.randint(1, 40), rng.choice([1, 2, 3, 4, 5, 6, 7, 8, 9, 11, 16, 24, 125, 999])))


def ramp(rng):
    x = rng.random()
    if x < 0.5:
        return 66
    if x < 0.8:
        return dyn_amp(rng.choice(DYN))
    return rng.randint(0, 127)


def rtagops(rng):
    x = rng.random()
    if x < 0.6:
        return []
    tags = rng.sample(TAGS, rng.choice([1, 1, 2, 2, 3]))
    return ['+' + t for t in tags]


def rnote_j(rng, kinds=KINDS, in_melody=False):
    k = rng.choice(kinds)
    j = {'cls': 'Note', 'type': k, 'val': rng.choice(VALS), 'oct': rng.choice([0, 0, 0, 1, -1, 2, -3]),
         'dur': rdur(rng), 'mode': rng.choice(MODES) if rng.random() < 0.25 else None,
         'acc': rng.choice(ACCS) if rng.random() < 0.25 else None, 'amp': ramp(rng), 'tagops': rtagops(rng),
         'tempo': rng.choice([60, 120, 90]) if rng.random() < 0.15 else None,
         'pedal': rng.choice([True, False]) if rng.random() < 0.15 else None}
    if rng.random() < 0.08:
        j['dur'] = str(rng.choice([5, 7, 8, 12, 2, 3]))
        j['dur_via'] = rng.choice(['set_int', 'set_int', 'augment_int'])
    if k in ('r', 'l') and (in_melody or rng.random() < 0.7):
        j['cls'] = 'Silence' if k == 'r' else 'Continuation'
        if rng.random() < 0.7:                # the plain library symbol
            j.update(val=0, oct=0, mode=None, acc=None, amp=66)
        if k == 'l':
            j['tempo'] = None
    return j


VALS = [v for v in range(-9, 13) if v != -2]      # hash(-1) == hash(-2) in CPython: -2 is never generated,
OCTS = [-3, -1, 0, 1, 2, 3]                       # so distinct generated keys have distinct hashes
NOTE_FIELDS = ['type', 'val', 'oct', 'dur', 'mode', 'acc', 'amp', 'tags', 'tempo', 'pedal']
NOTE_COMPARED = {'type', 'val', 'oct', 'dur', 'mode'}


def other(rng, old, choices):
    c = [x for x in choices if x != old]
    return rng.choice(c)


def vary_note(rng, j, field):
    """a description differing from j in exactly `field`"""
    v = dict(j)
    if field == 'type':
        if j['cls'] != 'Note':
            return None
        v['type'] = other(rng, j['type'], [k for k in KINDS if k not in ('r', 'l')])
    elif field == 'val':
        v['val'] = other(rng, j['val'], VALS)
    elif field == 'oct':
        v['oct'] = other(rng, j['oct'], OCTS)
    elif field == 'dur':
        v['dur'] = other(rng, j['dur'], ['1', '1/2', '2', '3/2', '1/3', '7/9', '1/4', '0', '4'])
        if rng.random() < 0.35:
            # a legal duration closer than the 1/1000 resolution to the original one (1/3 vs 333/1000 or 167/500): still a
            # different duration (seed C20-8 compared durations with a tolerance, which breaks transitivity and the hash)
            d = Fraction(j['dur'])
            near = [q for q in (Fraction(k, 1000) for k in (int(d * 1000) - 1, int(d * 1000), int(d * 1000) + 1, int(d * 1000) + 2))
                    if q > 0 and 0 < abs(q - d) < Fraction(1, 1000)]
            near += [q for q in (Fraction(k, 500) for k in (int(d * 500), int(d * 500) + 1)) if q > 0 and 0 < abs(q - d) < Fraction(1, 1000)]
            if near:
                v['dur'] = frac_str(rng.choice(near))
    elif field == 'mode':
        v['mode'] = other(rng, j['mode'], MODES + [None])
    elif field == 'acc':
        v['acc'] = other(rng, j['acc'], ACCS + [None])
    elif field == 'amp':
        v['amp'] = other(rng, j['amp'], [66, 70, 30, 100, dyn_amp('f'), dyn_amp('pp'), 0, 127])
    elif field == 'tags':
        ops = list(j['tagops'])
        cur = [o[1:] for o in ops]
        x = rng.random()
        if cur and x < 0.3:
            ops = ops[:-1]
        elif len(cur) >= 2 and x < 0.6:
            ops = ops[::-1]                   # same set, other insertion order
        else:
            ops = ops + ['+' + rng.choice([t for t in TAGS if t not in cur])]
        v['tagops'] = ops
    elif field == 'tempo':
        if j['cls'] == 'Continuation':
            return None
        v['tempo'] = other(rng, j['tempo'], [None, 60, 120, 140])
    elif field == 'pedal':
        v['pedal'] = other(rng, j['pedal'], [None, True, False])
    return v


def rmelody_j(rng, n=(1, 4)):
    return {'notes': [rnote_j(rng, in_melody=True) for _ in range(rng.randint(*n))]}


def vary_melody(rng, j, field):
    notes = [dict(n) for n in j['notes']]
    if not notes and field != 'append':
        return None
    if field == 'drop':
        if len(notes) < 2:
            return None
        notes.pop(rng.randrange(len(notes)))
    elif field == 'append':
        notes.append(rnote_j(rng, in_melody=True))
    elif field == 'swap':
        if len(notes) < 2:
            return None
        i = rng.randrange(len(notes) - 1)
        notes[i], notes[i + 1] = notes[i + 1], notes[i]
    else:
        i = rng.randrange(len(notes))
        if field == 'type' and notes[i]['cls'] != 'Note':
            return None
        v = vary_note(rng, notes[i], field)
        if v is None:
            return None
        notes[i] = v
    return {'notes': notes}


MELODY_FIELDS = NOTE_FIELDS + ['drop', 'append', 'swap']


def rton_j(rng, wide=False):
    return {'deg': rng.randint(-14, 26) if wide else rng.randrange(12), 'mode': rng.choice(MODES),
            'oct': rng.choice([0, 0, 1, -1, 2])}


def vary_ton(rng, j, field):
    v = dict(j)
    if field == 'deg':
        v['deg'] = j['deg'] + other(rng, 0, [1, -1, 2, 5, 7, 11])
    elif field == 'mode':
        v['mode'] = other(rng, j['mode'], MODES)
    elif field == 'oct':
        v['oct'] = j['oct'] + other(rng, 0, [1, -1, 2])
    elif field == 'respell':                  # same absolute degree, other (degree, octave) spelling
        k = rng.choice([1, -1, 2])
        v['deg'] = j['deg'] + 12 * k
        v['oct'] = j['oct'] - k
    elif field == 'tags':
        v['tags'] = other(rng, sorted(j.get('tags', [])), [[], ['pivot'], ['a', 'label']])
    return v


TON_FIELDS = ['deg', 'mode', 'oct', 'respell', 'tags']


def rext(rng):
    for _ in range(50):
        text = gen.rand_ext_text(rng, max_mods=3, p_plain=0.35)
        try:
            from musiclang import Chord, Tonality
            c = Chord(0, extension=text, tonality=Tonality(0))
            c.extension_notes
            if core.split_ext(c.extension)[0] not in gen.FIGS:
                continue
            return text
        except Exception:
            continue
    return ''


def rchord_j(rng, nparts=(0, 3), wide_ton=False):
    names = rng.sample(PARTS, rng.randint(*nparts))
    return {'elem': rng.randrange(7), 'ext': rext(rng), 'ton': rton_j(rng, wide=wide_ton), 'oct': rng.choice([0, 0, 1, -1]),
            # a part may hold an empty melody (what a zero-length slice or a filter leaves behind): seed C20-4
            'parts': [[nm, rmelody_j(rng, n=((0, 0) if rng.random() < 0.06 else (1, 3)))] for nm in names]}


CHORD_FIELDS = ['elem', 'ext-respell', 'ext-fig', 'ext-5', 'ton-deg', 'ton-mode', 'ton-oct', 'ton-respell', 'ton-tags', 'oct',
                'part-order', 'part-rename', 'part-drop', 'part-add', 'part-note']


def vary_chord(rng, j, field):
    v = json.loads(json.dumps(j))
    if field == 'elem':
        v['elem'] = other(rng, j['elem'], range(7))
    elif field == 'ext-respell':
        fig, repl, add, rem = core.split_ext(j['ext'])
        toks = ['(' + r + ')' for r in repl] + ['[' + a + ']' for a in add] + ['{' + r + '}' for r in rem]
        if len(toks) < 2:
            return None
        t2 = toks[:]
        rng.shuffle(t2)
        if t2 == toks:
            t2 = toks[::-1]
        v['ext'] = fig + ''.join(t2)
        if v['ext'] == j['ext']:
            return None
    elif field == 'ext-fig':
        fig, repl, add, rem = core.split_ext(j['ext'])
        if repl or add or rem:
            return None
        v['ext'] = other(rng, fig, ['', '6', '64', '7', '65', '43', '2', '9'])
    elif field == 'ext-5':
        if j['ext'] not in ('', '5'):
            return None
        v['ext'] = '5' if j['ext'] == '' else ''
    elif field.startswith('ton-'):
        v['ton'] = vary_ton(rng, j['ton'], field[4:])
    elif field == 'oct':
        v['oct'] = j['oct'] + other(rng, 0, [1, -1, 2])
    elif field == 'part-order':
        if len(j['parts']) < 2:
            return None
        v['parts'] = v['parts'][1:] + v['parts'][:1]
    elif field == 'part-rename':
        if not j['parts']:
            return None
        i = rng.randrange(len(j['parts']))
        v['parts'][i][0] = rng.choice([p for p in PARTS + ['harp__0'] if p not in [x[0] for x in j['parts']]])
    elif field == 'part-drop':
        if not j['parts']:
            return None
        v['parts'].pop(rng.randrange(len(j['parts'])))
    elif field == 'part-add':
        free = [p for p in PARTS if p not in [x[0] for x in j['parts']]]
        if not free:
            return None
        v['parts'].append([rng.choice(free), rmelody_j(rng, n=(1, 2))])
    elif field == 'part-note':
        if not j['parts']:
            return None
        i = rng.randrange(len(j['parts']))
        m = vary_melody(rng, j['parts'][i][1], rng.choice(MELODY_FIELDS))
        if m is None:
            return None
        v['parts'][i][1] = m
    return v


def rscore_j(rng, n=(0, 3)):
    return {'chords': [rchord_j(rng, nparts=(0, 2)) for _ in range(rng.randint(*n))]}


SCORE_FIELDS = ['chord-drop', 'chord-add', 'chord-swap', 'chord-field']


def vary_score(rng, j, field):
    v = json.loads(json.dumps(j))
    n = len(j['chords'])
    if field == 'chord-drop':
        if n == 0:
            return None
        v['chords'].pop(rng.randrange(n))
    elif field == 'chord-add':
        v['chords'].append(rchord_j(rng, nparts=(0, 2)))
    elif field == 'chord-swap':
        if n < 2:
            return None
        v['chords'][0], v['chords'][1] = v['chords'][1], v['chords'][0]
    else:
        if n == 0:
            return None
        i = rng.randrange(n)
        c = vary_chord(rng, j['chords'][i], rng.choice(CHORD_FIELDS))
        if c is None:
            return None
        v['chords'][i] = c
    return v


RAND = {'note': lambda rng: rnote_j(rng), 'melody': rmelody_j, 'tonality': lambda rng: rton_j(rng, wide=rng.random() < 0.3),
        'chord': lambda rng: rchord_j(rng, wide_ton=rng.random() < 0.15), 'score': rscore_j}
VARY = {'note': vary_note, 'melody': vary_melody, 'tonality': vary_ton, 'chord': vary_chord, 'score': vary_score}
FIELDS = {'note': NOTE_FIELDS, 'melody': MELODY_FIELDS, 'tonality': TON_FIELDS, 'chord': CHORD_FIELDS,
          'score': SCORE_FIELDS}
OP = {'note': 'n', 'melody': 'm', 'tonality': 't', 'chord': 'c', 'score': 's'}


def family(rng, kind, nvar):
    """[(field, description)]: a base ('base'), nvar single-field variants, one identical rebuild ('same')"""
    base = RAND[kind](rng)
    out = [('base', base), ('same', json.loads(json.dumps(base)))]
    fields = FIELDS[kind]
    for _ in range(nvar):
        f = rng.choice(fields)
        v = VARY[kind](rng, base, f)
        if v is not None:
            out.append((f, v))
    return out

# ----------------------------------------------------------------------------- correspondence


def triple_impl(a, b):
    eq = py_res(lambda: a == b, b01)
    hk = py_res(lambda: hash(a) == hash(b), b01)
    mem = py_res(lambda: a in {b}, b01)
    return f'eq={eq} hk={hk} in={mem}'


def stream_eq(ctx, n_fam):
    rng = ctx.rng
    cases, codes = [], []
    for kind in ['note', 'melody', 'tonality', 'chord', 'score']:
        for _ in range(n_fam[kind]):
            fam = family(rng, kind, 6)
            objs = [(f, j, FROM_J[kind](j)) for f, j in fam]
            encs = [enc(kind, o, j) for _, j, o in objs]
            base_f, base_j, base_o = objs[0]
            for i, (f, j, o) in enumerate(objs[1:], 1):
                for (x, xe, y, ye, tag) in ((base_o, encs[0], o, encs[i], 'ab'), (o, encs[i], base_o, encs[0], 'ba')):
                    if tag == 'ba' and rng.random() < 0.5:
                        continue
                    impl = triple_impl(x, y)
                    cases.append({'line': sx(OP[kind] + 'eq', xe, ye), 'impl': impl,
                                  'input': {'oracle': 'equiv', 'inp': {'kind': kind, 'objs': [base_j, j]}},
                                  'bucket': [f'kind={kind}', f'{kind}:field={f}', f'{kind}:{impl.split(" ")[0]}'],
                                  'nontrivial': f != 'same'})
            # two variants against each other (not only against the base)
            if len(objs) >= 4:
                (f1, j1, o1), (f2, j2, o2) = objs[2], objs[3]
                impl = triple_impl(o1, o2)
                cases.append({'line': sx(OP[kind] + 'eq', encs[2], encs[3]), 'impl': impl,
                              'input': {'oracle': 'equiv', 'inp': {'kind': kind, 'objs': [j1, j2]}},
                              'bucket': [f'kind={kind}', f'{kind}:field=variant-vs-variant', f'{kind}:{impl.split(" ")[0]}']})
            # printed forms (= hash keys of melody / tonality / chord; compared text of melodies)
            for (f, j, o), e in list(zip(objs, encs))[:3]:
                codes.append({'line': sx(OP[kind] + 'code', e), 'impl': py_res(lambda: esc(repr(o))),
                              'input': {'oracle': 'equiv', 'inp': {'kind': kind, 'objs': [j]}},
                              'bucket': [f'kind={kind}'], 'nontrivial': True})
    ctx.compare('eq', 'C20', cases)
    ctx.compare('code', 'C20', codes)


def stream_copy(ctx, n):
    rng = ctx.rng
    cases = []
    for _ in range(n['note']):
        j = rnote_j(rng)
        x = rng.random()
        if x < 0.15:
            j['dur'] = frac_str(Fraction(rng.randint(1, 5000), rng.choice([1001, 1024, 21952, 3000, 7919])))
        if x > 0.85 and len(j['tagops']) >= 2:
            j['tagops'] = j['tagops'] + ['-' + j['tagops'][0][1:]]     # a deleted slot in the tag set
        o = note_from_j(j)
        c = o.copy()
        impl = py_res(lambda: f'eq={b01(o == c)} meq={b01(o.to_melody() == c.to_melody())} dur={frac_str(c.duration)} '
                              f'code={esc(repr(c))}')
        cases.append({'line': sx('ncopy', cls_atom(o), enc_note(o), list(c.tags)), 'impl': impl,
                      'input': {'oracle': 'copy', 'inp': {'kind': 'note', 'obj': j}},
                      'bucket': ['kind=note', f'cls={cls_atom(o)}', impl.split(' ')[0],
                                 'bigden' if o.duration.denominator > 1000 else 'den<=1000',
                                 'tags-reordered' if list(c.tags) != list(o.tags) else 'tags-kept']})
    for _ in range(n['melody']):
        j = rmelody_j(rng)
        if rng.random() < 0.2:
            for nj in j['notes']:
                if len(nj['tagops']) >= 2:
                    nj['tagops'] = nj['tagops'] + ['-' + nj['tagops'][0][1:]]
        o = melody_from_j(j)
        c = o.copy()
        impl = py_res(lambda: f'eq={b01(o == c)} code={esc(repr(c))}')
        cases.append({'line': sx('mcopy', enc_melody(o), [list(nn.tags) for nn in c.notes]), 'impl': impl,
                      'input': {'oracle': 'copy', 'inp': {'kind': 'melody', 'obj': j}},
                      'bucket': ['kind=melody', impl.split(' ')[0]]})
    for kind, k in (('tonality', 't'), ('chord', 'c'), ('score', 's')):
        for _ in range(n[kind]):
            j = RAND[kind](rng)
            o = FROM_J[kind](j)
            c = o.copy()
            if kind == 'tonality':
                impl = py_res(lambda: f'eq={b01(o == c)} ton={int(c.degree)} {c.mode} {int(c.octave)}')
            else:
                impl = py_res(lambda: f'eq={b01(o == c)} code={py_res(lambda: esc(repr(c)))}')
            cases.append({'line': sx(k + 'copy', enc(kind, o, j)), 'impl': impl,
                          'input': {'oracle': 'copy', 'inp': {'kind': kind, 'obj': j}},
                          'bucket': [f'kind={kind}', impl.split(' ')[0]]})
    ctx.compare('copy', 'C20', cases)


def mask_impl(kind, descs, flags, probe):
    from musiclang.transform.mask import NoteInMask, ChordInMask, TonalityInMask
    objs = [FROM_J[kind](d) for d in descs]
    p = FROM_J[kind](probe)
    if kind == 'note':
        return NoteInMask(objs, ignore_octave=flags[0], ignore_rythm=flags[1])(p)
    if kind == 'chord':
        return ChordInMask(objs, ignore_octave=flags[0])(p)
    from musiclang import Chord
    return TonalityInMask(objs, ignore_octave=flags[0])(Chord(0, tonality=p))


def stream_mask(ctx, n):
    rng = ctx.rng
    cases = []
    for kind in ('note', 'tonality', 'chord'):
        for _ in range(n[kind]):
            if kind == 'chord':
                base = rchord_j(rng, nparts=(0, 2), wide_ton=rng.random() < 0.1)
                fam = [('base', base)] + [(f, vary_chord(rng, base, f)) for f in rng.sample(CHORD_FIELDS, 4)]
                fam = [(f, v) for f, v in fam if v is not None]
            elif kind == 'tonality':
                base = rton_j(rng, wide=rng.random() < 0.08)
                fam = [('base', base)] + [(f, vary_ton(rng, base, f)) for f in
                                          [rng.choice(['deg', 'mode', 'oct', 'deg', 'oct', 'mode', 'respell']) for _ in range(4)]]
                fam = [(f, v) for f, v in fam if rng.random() < 0.85 or 0 <= v['deg'] < 12]
            else:
                # standalone notes of kind r / l are the library's Silence / Continuation here (model domain note)
                base = rnote_j(rng, in_melody=True)
                fam = [('base', base)] + [(f, vary_note(rng, base, f)) for f in [rng.choice(NOTE_FIELDS) for _ in range(5)]]
                fam = [(f, v) for f, v in fam if v is not None]
            descs = [j for _, j in fam]
            if not descs:
                continue          # every member of a wide-degree family was filtered out (seen once in a thorough run)
            members = rng.sample(descs, min(len(descs), rng.randint(1, 3)))
            probe = rng.choice(descs)
            flags = [rng.random() < 0.3, rng.random() < 0.3] if kind == 'note' else [rng.random() < 0.3]
            impl = py_res(lambda: mask_impl(kind, members, flags, probe), b01)
            objs = [FROM_J[kind](d) for d in members]
            p = FROM_J[kind](probe)
            line = sx(OP[kind] + 'mask', [enc(kind, o, d) for o, d in zip(objs, members)], *flags, enc(kind, p, probe))
            cases.append({'line': line, 'impl': impl,
                          'input': {'oracle': 'mask', 'inp': {'kind': kind, 'members': members, 'flags': flags, 'probe': probe}},
                          'bucket': [f'kind={kind}', f'{kind}:flags={"".join(b01(f) for f in flags)}', f'{kind}:{impl}']})
    ctx.compare('mask', 'C20', cases)


def stream_misc(ctx, n):
    """tonality spellings (s / b / o chains) and Fraction.limit_denominator"""
    rng = ctx.rng
    cases = []
    for _ in range(n):
        j = rton_j(rng, wide=rng.random() < 0.2)
        ops = [rng.choice(['s', 'b', 's', 'b', ('o', rng.randint(-2, 2))]) for _ in range(rng.randint(1, 6))]

        def run():
            t = ton_from_j(j)
            for op in ops:
                t = t.s if op == 's' else t.b if op == 'b' else t.o(op[1])
            return f'{int(t.degree)} {t.mode} {int(t.octave)}'
        cases.append({'line': sx('tspell', enc_ton(ton_from_j(j)), [op if isinstance(op, str) else ['o', op[1]] for op in ops]),
                      'impl': py_res(run), 'input': {'ton': j, 'ops': ops}, 'bucket': ['op=tspell']})
    for _ in range(n):
        q = Fraction(rng.randint(-3000, 90000), rng.choice([rng.randint(1, 1000), rng.randint(1001, 100000), 21952, 1001]))
        m = rng.choice([1000, 1000, 1000, 8, 1, 37])
        cases.append({'line': sx('limit', q, m), 'impl': frac_str(q.limit_denominator(m)), 'input': {'q': frac_str(q), 'max': m},
                      'bucket': ['op=limit', 'den>max' if q.denominator > m else 'den<=max'],
                      'nontrivial': q.denominator > m})
    ctx.compare('misc', 'C20', cases)


def correspondence(ctx):
    stream_eq(ctx, {'note': ctx.n(150, 2400), 'melody': ctx.n(90, 1400), 'tonality': ctx.n(90, 1800),
                    'chord': ctx.n(90, 1400), 'score': ctx.n(40, 600)})
    stream_copy(ctx, {'note': ctx.n(300, 4800), 'melody': ctx.n(150, 2400), 'tonality': ctx.n(60, 800),
                      'chord': ctx.n(120, 1800), 'score': ctx.n(50, 700)})
    stream_mask(ctx, {'note': ctx.n(250, 4000), 'tonality': ctx.n(150, 2400), 'chord': ctx.n(150, 2400)})
    stream_misc(ctx, ctx.n(200, 6000))
    # kernel-level streams of the source tie (DESIGN §9.6)
    import srctie
    srctie.run(ctx, SRC_TIE, kernels=['teq', 'neq'] + list(srctie.GROUPS['SrcEq']['kernels']))

# ----------------------------------------------------------------------------- the property itself (oracle)
# Stated on the real objects only; nothing below uses the Lean model.


def _try(f):
    try:
        return True, f()
    except Exception as e:  # noqa
        return False, f'{type(e).__name__}: {e}'


def walk_notes(kind, j):
    if kind == 'note':
        return [j]
    if kind == 'melody':
        return list(j['notes'])
    if kind == 'chord':
        return [n for _, m in j['parts'] for n in m['notes']]
    if kind == 'score':
        return [n for c in j['chords'] for n in walk_notes('chord', c)]
    return []


def walk_tons(kind, j):
    if kind == 'tonality':
        return [j]
    if kind == 'chord':
        return [j['ton']]
    if kind == 'score':
        return [c['ton'] for c in j['chords']]
    return []


def hash_class(kind, ja, jb, detail):
    """narrow class of an `a == b but hash differs / raises` failure"""
    if kind == 'score':
        return 'unhashable' if 'TypeError' in str(detail) and 'unhashable' in str(detail) else 'other'
    if 'KeyError' in str(detail) and any(not (0 <= t['deg'] < 12) for j in (ja, jb) for t in walk_tons(kind, j)):
        return 'tonality-degree-outside-0..11'
    if kind == 'chord':
        na, nb = [p[0] for p in ja['parts']], [p[0] for p in jb['parts']]
        if na != nb and sorted(na) == sorted(nb):      # the same part names, listed in another order
            return 'part-order'
    return 'other'


def check_equiv(inp):
    """oracle `equiv`: reflexive, symmetric, transitive on 1..3 objects of one kind; equal objects have equal hashes
    and are interchangeable as set members and dict keys"""
    kind = inp['kind']
    js = inp['objs']
    objs = [FROM_J[kind](j) for j in js]
    n = len(objs)
    for i, o in enumerate(objs):
        ok, r = _try(lambda: o == o)
        if not (ok and r is True):
            return {'observed': f'x == x -> {r}', 'expected': True, 'sig': f'refl:{kind}', 'at': [i]}
    eqm = {}
    for i in range(n):
        for k in range(n):
            if i != k:
                ok, r = _try(lambda: objs[i] == objs[k])
                if not ok or r not in (True, False):
                    return {'observed': f'a == b -> {r}', 'expected': 'a bool', 'sig': f'eq-raises:{kind}', 'at': [i, k]}
                eqm[(i, k)] = r
    for i in range(n):
        for k in range(i + 1, n):
            if eqm[(i, k)] != eqm[(k, i)]:
                return {'observed': f'a == b is {eqm[(i, k)]}, b == a is {eqm[(k, i)]}', 'expected': 'same answer',
                        'sig': f'symm:{kind}', 'at': [i, k]}
    if n == 3:
        for a, b, c in ((0, 1, 2), (0, 2, 1), (1, 0, 2)):
            if eqm[(a, b)] and eqm[(b, c)] and not eqm[(a, c)]:
                return {'observed': 'a == b and b == c but not a == c', 'expected': 'transitive', 'sig': f'trans:{kind}',
                        'at': [a, b, c]}
    pairs = [(i, i) for i in range(n)] + [(i, k) for i in range(n) for k in range(i + 1, n) if eqm[(i, k)]]
    for i, k in pairs:
        a, b = objs[i], objs[k]
        ok, r = _try(lambda: (hash(a), hash(b)))
        if not ok or r[0] != r[1]:
            cls = hash_class(kind, js[i], js[k], r)
            return {'observed': f'a == b but hash: {r}', 'expected': 'hash(a) == hash(b)', 'sig': f'hash:{kind}:{cls}',
                    'at': [i, k]}
        ok, r = _try(lambda: (a in {b}, b in {a}, {a: 1}.get(b), len({a, b})))
        if not ok or r != (True, True, 1, 1):
            return {'observed': f'(a in {{b}}, b in {{a}}, {{a: 1}}.get(b), len({{a, b}})) = {r}', 'expected': (True, True, 1, 1),
                    'sig': f'member:{kind}', 'at': [i, k]}
    return None


def copy_class(kind, j, o, c):
    notes = walk_notes(kind, j)
    if kind == 'note' and j['cls'] != 'Note' and (j['val'] != 0 or j['oct'] != 0 or j.get('mode') is not None):
        return 'silence-or-continuation-with-value-octave-or-mode'
    if kind != 'note' and any(len(nj.get('tagops', [])) >= 2 for nj in notes):
        # same tags, printed in another order?
        import re
        norm = lambda s: re.sub(r'\{[^{}]*\}', lambda m: '{' + ', '.join(sorted(m.group(0)[1:-1].split(', '))) + '}', s)
        try:
            if repr(o) != repr(c) and norm(repr(o)) == norm(repr(c)):
                return 'tag-set-order'
        except Exception:
            pass
    return 'other'


def srepr(x):
    """printed form for a report; printing itself can raise (an un-normalised tonality degree has no name)"""
    try:
        return esc(repr(x))
    except Exception as e:
        return f'<unprintable: {type(e).__name__}: {e}>'


def check_copy(inp):
    """oracle `copy`: an object equals its copy (and, where hashable, hashes like it)"""
    kind = inp['kind']
    j = inp['obj']
    if any(Fraction(nj['dur']).denominator > 1000 for nj in walk_notes(kind, j)):
        return None           # outside the documented resolution of durations (ASSUMPTIONS)
    o = FROM_J[kind](j)
    ok, c = _try(lambda: o.copy())
    if not ok:
        return {'observed': f'copy() -> {c}', 'expected': 'a copy', 'sig': f'copy-raises:{kind}'}
    ok, r = _try(lambda: (o == c, c == o))
    if not ok or r != (True, True):
        return {'observed': f'(x == x.copy(), x.copy() == x) = {r}; x = {srepr(o)[:300]}, copy = {srepr(c)[:300]}',
                'expected': (True, True), 'sig': f'copy:{kind}:{copy_class(kind, j, o, c)}'}
    return None


def tdesc(t):
    return f'Tonality({t.degree}, {t.mode!r}, {t.octave})'


def check_enharmonic(inp):
    """oracle `enharmonic`: two spellings (chains of .s / .b / .o(k) from library-style tonalities) that name the same
    absolute pitch class + octave and the same mode are equal, hash equally, and different ones are unequal"""
    def spell(d):
        t = ton_from_j(d['ton'])
        semis = 0
        for op in d['ops']:
            if op == 's':
                t, semis = t.s, semis + 1
            elif op == 'b':
                t, semis = t.b, semis - 1
            else:
                t, semis = t.o(op[1]), semis + 12 * op[1]
        return t, d['ton']['deg'] + 12 * d['ton']['oct'] + semis, d['ton']['mode']
    (ta, pa, ma), (tb, pb, mb) = spell(inp['a']), spell(inp['b'])
    want = (pa == pb and ma == mb)
    ok, r = _try(lambda: ta == tb)
    if not ok or r is not want:
        return {'observed': f'{tdesc(ta)} == {tdesc(tb)} -> {r}', 'expected': want, 'sig': 'enharmonic:eq'}
    if want and all(0 <= int(t.degree) < 12 for t in (ta, tb)):   # out-of-range degrees: oracle `equiv` (known finding)
        ok, r = _try(lambda: hash(ta) == hash(tb) and ta in {tb})
        if not ok or r is not True:
            return {'observed': f'equal spellings {tdesc(ta)}, {tdesc(tb)}: same hash and member -> {r}', 'expected': True,
                    'sig': 'enharmonic:hash'}
    return None


def check_mask(inp):
    """oracle `mask`: NoteIn / ChordIn / TonalityIn select an element iff it equals one of the listed ones
    (after the mask's own octave / rhythm normalisation)"""
    kind, members, flags, probe = inp['kind'], inp['members'], inp['flags'], inp['probe']
    objs = [FROM_J[kind](d) for d in members]
    p = FROM_J[kind](probe)
    if kind == 'note':
        norm = lambda x: (x.o(-x.octave) if flags[0] else x)
        norm2 = lambda x: (norm(x).set_duration(1) if flags[1] else norm(x))
        want = any(norm2(m) == norm2(p) for m in objs)
    elif kind == 'chord':
        norm2 = lambda x: (x.o(-x.octave) if flags[0] else x)
        want = any(norm2(m) == norm2(p) for m in objs)
    else:
        if flags[0]:
            return None       # ignore_octave of TonalityIn doubles the element's octave: mask semantics, not equality (C18)
        want = any(m == p for m in objs)
    ok, r = _try(lambda: mask_impl(kind, members, flags, probe))
    if ok and r is want:
        return None
    cls = 'other'
    if kind in ('chord', 'tonality'):
        eqs = [(m, d) for m, d in zip(objs, members) if (norm2(m) == norm2(p) if kind == 'chord' else m == p)]
        cls = hash_class(kind, probe, eqs[0][1], r) if eqs else hash_class(kind, probe, members[0], r)
        if not ok and 'KeyError' in str(r) and cls == 'other' and any(not (0 <= t['deg'] < 12) for d in members for t in walk_tons(kind, d)):
            cls = 'tonality-degree-outside-0..11'
    return {'observed': f'mask -> {r}', 'expected': f'{want} (an equal element is listed: {want})', 'sig': f'mask:{kind}-in:{cls}'}


ORACLES = {'equiv': check_equiv, 'copy': check_copy, 'enharmonic': check_enharmonic, 'mask': check_mask}


def N(type, val=0, oct=0, dur='1', **kw):
    return {'cls': 'Note', 'type': type, 'val': val, 'oct': oct, 'dur': dur, 'mode': None, 'acc': None, 'amp': 66, 'tagops': [],
            'tempo': None, 'pedal': None, **kw}


def T(deg, mode='M', oct=0):
    return {'deg': deg, 'mode': mode, 'oct': oct}


def C(elem=0, ext='', ton=None, oct=0, parts=()):
    return {'elem': elem, 'ext': ext, 'ton': ton or T(0), 'oct': oct, 'parts': [list(p) for p in parts]}


def M(*notes):
    return {'notes': list(notes)}


def witnesses():
    """fixed inputs evaluated first on every run: the D12 witnesses (the repaired one included) and the
    defects found while building this check"""
    s0, s1 = N('s', 0), N('s', 1)
    R = lambda **kw: {**N('r'), 'cls': 'Silence', **kw}
    L = lambda **kw: {**N('l'), 'cls': 'Continuation', **kw}
    two = C(parts=[('piano__0', M(s0)), ('violin__0', M(s1))])
    two_swapped = C(parts=[('violin__0', M(s1)), ('piano__0', M(s0))])
    tagged = N('s', 0, tagops=['+accent', '+mordant', '+trill', '-accent'])
    return [
        ('equiv', {'kind': 'note', 'objs': [s0, N('s', 0, amp=dyn_amp('f')), N('s', 0, acc='min')]}),      # D12, repaired
        ('equiv', {'kind': 'note', 'objs': [s0, N('s', 0, tagops=['+accent']), N('s', 0, tempo=90, pedal=True)]}),
        ('mask', {'kind': 'note', 'members': [s0], 'flags': [False, False], 'probe': N('s', 0, amp=dyn_amp('f'))}),
        ('equiv', {'kind': 'chord', 'objs': [two, two_swapped]}),
        ('mask', {'kind': 'chord', 'members': [two], 'flags': [False], 'probe': two_swapped}),
        ('equiv', {'kind': 'tonality', 'objs': [T(12), T(0, 'M', 1)]}),
        ('equiv', {'kind': 'tonality', 'objs': [T(-1, 'm'), T(11, 'm', -1)]}),
        ('mask', {'kind': 'tonality', 'members': [T(12)], 'flags': [False], 'probe': T(0, 'M', 1)}),
        ('equiv', {'kind': 'chord', 'objs': [C(ton=T(12)), C(ton=T(0, 'M', 1))]}),
        ('equiv', {'kind': 'score', 'objs': [{'chords': [two]}]}),
        ('equiv', {'kind': 'score', 'objs': [{'chords': []}]}),
        ('copy', {'kind': 'note', 'obj': R(oct=1)}),
        ('copy', {'kind': 'note', 'obj': R(mode='lydian')}),
        ('copy', {'kind': 'note', 'obj': L(oct=-1)}),
        ('copy', {'kind': 'melody', 'obj': M(tagged)}),
        ('copy', {'kind': 'chord', 'obj': C(parts=[('piano__0', M(tagged))])}),
        ('copy', {'kind': 'score', 'obj': {'chords': [C(parts=[('piano__0', M(tagged))])]}}),
        ('enharmonic', {'a': {'ton': T(0), 'ops': ['s']}, 'b': {'ton': T(2), 'ops': ['b']}}),
        ('enharmonic', {'a': {'ton': T(11), 'ops': ['s']}, 'b': {'ton': T(0), 'ops': [['o', 1]]}}),
        ('enharmonic', {'a': {'ton': T(0, 'm'), 'ops': ['b']}, 'b': {'ton': T(11, 'm'), 'ops': [['o', -1]]}}),
        ('enharmonic', {'a': {'ton': T(12), 'ops': []}, 'b': {'ton': T(0), 'ops': [['o', 1]]}}),
        ('enharmonic', {'a': {'ton': T(12), 'ops': []}, 'b': {'ton': T(0), 'ops': []}}),
        ('enharmonic', {'a': {'ton': T(-1, 'm'), 'ops': ['s']}, 'b': {'ton': T(0, 'm'), 'ops': []}}),
    ]


def run_oracle(ctx, name, inp, bucket):
    ctx.count('oracle', key=json.dumps(inp, sort_keys=True, default=str), bucket=bucket)
    try:
        r = ORACLES[name](inp)
    except Exception as e:
        if bucket != 'suspect':   # a generated input the oracle cannot evaluate is a harness defect: exit 2, never silence
            raise
        ctx.note(f'oracle {name}: cannot evaluate suspect {str(inp)[:200]}: {type(e).__name__}: {e}')
        return
    if r:
        sig = r.get('sig', name)
        seen = ctx.__dict__.setdefault('_c20_sigs', {})
        seen[sig] = seen.get(sig, 0) + 1
        if seen[sig] <= 5:        # the run keeps at most 500 failures: never let one class crowd out another
            ctx.fail(sig, inp, r['observed'], r['expected'], oracle=name)


def oracle(ctx):
    rng = ctx.rng
    # 1 suspects of the correspondence run
    for _stream, s in ctx.suspects:
        if isinstance(s, dict) and s.get('oracle') in ORACLES:
            run_oracle(ctx, s['oracle'], s['inp'], 'suspect')
    # 2 fixed witnesses
    for name, inp in witnesses():
        run_oracle(ctx, name, inp, f'witness:{name}')
    # 3 enumerated small inputs: every single-field difference of a few small notes, pairwise and in triples
    small = [N('s', 0), N('h', 3, 1, '1/2'), N('su', 1), {**N('r'), 'cls': 'Silence'}, N('d', 2, 1), N('x', 0)]
    for base in small:
        vs = [base]
        for f in NOTE_FIELDS:
            for _ in range(2):
                v = vary_note(rng, base, f)
                if v is not None:
                    vs.append(v)
        for i in range(len(vs)):
            run_oracle(ctx, 'copy', {'kind': 'note', 'obj': vs[i]}, 'enum:copy')
            for k in range(i + 1, len(vs)):
                run_oracle(ctx, 'equiv', {'kind': 'note', 'objs': [vs[i], vs[k]]}, 'enum:pair')
        for _ in range(ctx.n(40, 600)):
            run_oracle(ctx, 'equiv', {'kind': 'note', 'objs': rng.sample(vs, 3)}, 'enum:triple')
        for v in vs[1:]:
            run_oracle(ctx, 'mask', {'kind': 'note', 'members': [base], 'flags': [False, False], 'probe': v}, 'enum:mask')
    # every spelling of the twelve degrees reached by one or two accidentals
    for d in range(12):
        for mode in ('M', 'm'):
            a = {'ton': T(d, mode), 'ops': ['s']}
            b = {'ton': T((d + 2) % 12, mode, (d + 2) // 12), 'ops': ['b']}
            c = {'ton': T((d + 1) % 12, mode, (d + 1) // 12), 'ops': []}
            for x, y in ((a, b), (a, c), (b, c), (a, {'ton': T(d, mode), 'ops': []})):
                run_oracle(ctx, 'enharmonic', {'a': x, 'b': y}, 'enum:enharmonic')
    # 4 random families
    sizes = {'note': ctx.n(150, 2400), 'melody': ctx.n(100, 1600), 'tonality': ctx.n(100, 2000), 'chord': ctx.n(80, 1200),
             'score': ctx.n(30, 480)}
    for kind, nf in sizes.items():
        for _ in range(nf):
            fam = family(rng, kind, 5)
            descs = [j for _, j in fam]
            fields = [f for f, _ in fam]
            for f, j in fam[:3]:
                run_oracle(ctx, 'copy', {'kind': kind, 'obj': j}, f'rand:copy:{kind}')
            for i in range(1, len(descs)):
                run_oracle(ctx, 'equiv', {'kind': kind, 'objs': [descs[0], descs[i]]}, f'rand:pair:{kind}:{fields[i]}')
            for _ in range(3):
                if len(descs) >= 3:
                    run_oracle(ctx, 'equiv', {'kind': kind, 'objs': rng.sample(descs, 3)}, f'rand:triple:{kind}')
            if kind in ('note', 'tonality', 'chord'):
                members = rng.sample(descs, min(len(descs), 2))
                flags = [rng.random() < 0.3, rng.random() < 0.3] if kind == 'note' else [rng.random() < 0.3]
                run_oracle(ctx, 'mask', {'kind': kind, 'members': members, 'flags': flags, 'probe': rng.choice(descs)},
                           f'rand:mask:{kind}')
    for _ in range(ctx.n(300, 6000)):
        def rs():
            return {'ton': rton_j(rng, wide=rng.random() < 0.3),
                    'ops': [rng.choice(['s', 'b', 's', 'b', ['o', rng.randint(-1, 1)]]) for _ in range(rng.randint(0, 5))]}
        a = rs()
        x = rng.random()
        if x < 0.3:
            b = rs()
        elif x < 0.6:
            b = {'ton': a['ton'], 'ops': a['ops'] + rng.choice([['s', 'b'], ['b', 's'], ['s'], [['o', 0]]])}
        else:         # the same absolute degree written with another (degree, octave) pair, e.g. Tonality(12) / Tonality(0).o(1)
            k = rng.choice([1, -1, 2])
            b = {'ton': {'deg': a['ton']['deg'] + 12 * k, 'mode': a['ton']['mode'], 'oct': a['ton']['oct'] - k},
                 'ops': a['ops'] + rng.choice([[], [], ['s', 'b']])}
        run_oracle(ctx, 'enharmonic', {'a': a, 'b': b}, 'rand:enharmonic')
