"""C14 — turning pitches and timed notes into notation is lossless.

Correspondence: `Chord.parse` (and parse-then-read-back), `Fraction.limit_denominator`, `_parse_voice`,
`infer_score_with_chords_durations` against the Lean model MV/Model/Import.lean (+ Pitch.lean).
Oracle (independent of the model): the property itself on the real objects —
  roundtrip : chord.to_pitch(chord.parse(p)) == p, scale note iff pitch class in the documented scale,
              value and octave normalised;
  import    : every part of every bar lasts exactly the bar length and the library's own rendering
              (note matrix, ties merged) of the imported score is, voice by voice, the input notes.
"""
import sys
sys.dont_write_bytecode = True
from fractions import Fraction
import core, gen, sound
from core import sx, enc_chord, py_res, frac_str, SX

ID = 'C14'
LEAN_MODULES = ['MV.Props.C14']
LEAN_HELPERS = ['MV.Lemmas.Parse', 'MV.Lemmas.ImportNote', 'MV.Lemmas.ImportLoop', 'MV.Lemmas.ImportTrim',
                'MV.Lemmas.ImportDur', 'MV.Lemmas.ImportBar', 'MV.Lemmas.ImportPlay', 'MV.Lemmas.ImportVoice',
                'MV.Lemmas.ImportDict', 'MV.Lemmas.ImportFold', 'MV.Lemmas.ImportGroups', 'MV.Lemmas.ImportBarDicts',
                'MV.Lemmas.ImportTrack', 'MV.Lemmas.ImportStep', 'MV.Lemmas.ImportScore', 'MV.Lemmas.ImportGrid',
                'MV.Lemmas.ImportDecide', 'MV.Lemmas.Scale', 'MV.Lemmas.Ext', 'MV.Lemmas.Window', 'MV.Lemmas.Asc',
                'MV.Props.C01', 'MV.Props.C02', 'MV.Model.Import', 'MV.Model.Render', 'MV.Model.Pitch', 'MV.Model.Rel',
                'MV.Model.Basic', 'MV.Model.Types']
DRIVERS = ['C14']
GEN = ['Tables', 'Library']
SRC_TIE = ['SrcOps', 'SrcImport']   # py2lean source images proved equal to the model: Chord.parse (MV/Props/TieOps.lean); _parse_voice,
                                      # infer_score_with_chords_durations, Item.array / frommatrix, Note.augment (MV/Props/TieSrcImport.lean)
RULE = ('parse: every mode x degree with random tonic/octaves x all pitches -60..67 (+ random far pitches); '
        'import: 1-4 bars (equal or mixed lengths 2, 3, 4, 3/2, 5/4), 1-4 monophonic voices on 1-2 tracks, notes on '
        'grids 1/1..1/8 (and /3, /5, /7), gaps, notes crossing 1-3 bar lines, silent bars, silent voices; plus a '
        'malformed stream (overlaps, zero/negative lengths, notes outside the bars, unsorted input, denominators '
        '> 1000, drum instruments, missing instruments, chord/bar length mismatch); non-trivial = at least one note '
        'crosses a bar line or a bar is silent for some voice; distinct = distinct request line')
TRUSTED = ['hand-written model of to_musiclang._parse_voice / infer_score_with_chords_durations and of '
           'Fraction.limit_denominator (MV/Model/Import.lean), tied by the streams pvoice / import / limden',
           'Chord.parse model (MV/Model/Pitch.lean) tied by the streams parse / reparse',
           'the denotation `sound` used by the theorems is the per-track reading of the note matrix of '
           'MV/Model/Render.lean (tied to to_midi.get_notes by C03), ties merged as harness/sound.py impl_sound does']
ASSUMPTIONS = ['chord degree in 0..6', 'track and voice ids are small non-negative ints (Python set iteration of '
               'such ints is ascending)', 'instrument names contain no "__" and do not start with "drum" at score level',
               'all times lie on a common grid 1/g with g <= 1000 (Note durations are limited to denominators <= 1000 '
               'library-wide, note.LIMIT_DENOM)', 'voices are monophonic, every note lies inside the bars, '
               'the sequence is sorted by onset (what midi_parser delivers), chords[i].duration == bar length i',
               'distinct (track, voice) pairs get distinct part names (true whenever `instruments` is non-empty and '
               'a track has one channel)']

MODES = gen.MODES

# ----------------------------------------------------------------------------- building inputs


def F(x, d=1):
    return Fraction(x) / d


def mk_chord(ch, dur=None):
    """ch = (elem, ext, deg, mode, toct, coct)"""
    from musiclang import Chord, Tonality
    el, ext, deg, mode, toct, coct = ch
    c = Chord(el, extension=ext, tonality=Tonality(deg, mode, toct), octave=coct)
    if dur is not None:
        c = c.set_duration(F(dur))
    return c


def build(inp):
    """items (sorted by onset unless inp['order']=='raw'), chords with durations, instruments, bars"""
    from musiclang.analyze.item import Item
    items = []
    for v in inp['voices']:
        for (s, e, p, vel) in v['notes']:
            items.append(Item('n', F(s), F(e), vel=int(vel), pitch=int(p), track=int(v['track']),
                              channel=int(v['channel']), voice=int(v['voice'])))
    if inp.get('order') != 'raw':
        items.sort(key=lambda x: x.start)
    if inp.get('via') == 'matrix':
        # the same timed notes through the matrix form (Item.array() rows -> Item.frommatrix), the entry point voice
        # separation uses (seed C14-6 swapped channel and voice there)
        items = Item.frommatrix([tuple(it.array()) for it in items])
    lens = [F(x) for x in inp['lens']]
    clens = [F(x) for x in inp.get('chord_lens', inp['lens'])]
    chords = [mk_chord(tuple(ch), L) for ch, L in zip(inp['chords'], clens)]
    bars, t = [], F(0)
    for L in lens:
        bars.append((t, t + L))
        t += L
    instruments = {int(k): v for k, v in inp['instruments']}
    return items, chords, instruments, bars


def enc_item(it):
    return SX(sx('i', F(it.start), F(it.end), int(it.vel), int(it.pitch), int(it.track), int(it.channel), int(it.voice)))


def show_note(n):
    amp = n.amp
    amp = Fraction(*amp.as_integer_ratio()) if isinstance(amp, float) else Fraction(amp)
    return f'({n.type} {int(n.val)} {int(n.octave)} {frac_str(n.duration)} {frac_str(amp)})'


def show_melody(m):
    notes = m.notes if hasattr(m, 'notes') else m
    return '(' + ' '.join(show_note(n) for n in notes) + ')'


def show_score(score):
    out = []
    for c in score.chords:
        t = c.tonality
        head = f'({int(c.element)} {int(t.degree)} {t.mode} {int(t.octave)} {int(c.octave)})'
        parts = ' '.join(f'({k} {show_melody(m)})' for k, m in c.score.items())
        out.append(f'({head} {parts})')
    return '(' + ' '.join(out) + ')'


def run_import(inp):
    from musiclang.analyze.to_musiclang import infer_score_with_chords_durations
    items, chords, instruments, bars = build(inp)
    return infer_score_with_chords_durations(items, chords, instruments, bars)


def import_line(inp):
    items, chords, instruments, bars = build(inp)
    return sx('import', [enc_item(i) for i in items], [enc_chord(c) for c in chords],
              [[k, v] for k, v in instruments.items()], [[a, b] for a, b in bars])

# ----------------------------------------------------------------------------- generators


def rand_chord_tuple(rng, far=False):
    o = (-3, 3) if far else (-1, 1)
    return (rng.randrange(7), rng.choice(gen.PLAIN_INVERTIBLE + ['9', '']), rng.randrange(12), rng.choice(MODES),
            rng.randint(*o), rng.randint(*o))


BAR_LENS = [2, 3, 4, Fraction(3, 2), Fraction(5, 4)]
GRIDS = [1, 1, 2, 2, 3, 4, 4, 5, 7, 8]


def gen_import(rng, max_bars=4, max_voices=4):
    nb = rng.randint(1, max_bars)
    if rng.random() < 0.35:
        lens = [rng.choice(BAR_LENS) for _ in range(nb)]
    else:
        lens = [rng.choice(BAR_LENS)] * nb
    total = sum(F(x) for x in lens)
    chords = [rand_chord_tuple(rng) for _ in range(nb)]
    nv = rng.randint(1, max_voices)
    two_tracks = rng.random() < 0.5
    voices = []
    for vi in range(nv):
        track = vi % 2 if two_tracks else 0
        voice = vi // 2 if two_tracks else vi
        g = rng.choice(GRIDS)
        style = rng.random()
        t = F(0)
        notes = []
        if rng.random() < 0.12:
            pass            # a voice that never plays
        else:
            if rng.random() < 0.4:
                t = F(rng.randint(0, int(total * g)), g)
            while t < total:
                if rng.random() < 0.35:
                    t += F(rng.randint(1, 3 * g), g)        # a gap (may skip whole bars)
                    if t >= total:
                        break
                if style < 0.3:
                    d = F(rng.randint(1, 2 * g), g)
                elif style < 0.7:
                    d = F(rng.randint(1, 5 * g), g)
                else:
                    d = F(rng.randint(2 * g, 11 * g), g)      # long notes: several bar lines
                d = min(d, total - t)
                notes.append((t, t + d, rng.randint(24, 100), rng.randint(1, 127)))
                t += d
                if rng.random() < 0.1:
                    break
        voices.append({'track': track, 'voice': voice, 'channel': track, 'notes': notes})
    instruments = [[0, rng.choice(['piano', 'violin', 'flute'])], [1, rng.choice(['cello', 'harp', 'piano'])]]
    if rng.random() < 0.15:
        instruments = instruments[:1] if not two_tracks else instruments
    return jsonify({'lens': lens, 'chords': chords, 'voices': voices, 'instruments': instruments})


def gen_malformed(rng):
    inp = unjson(gen_import(rng, max_bars=3, max_voices=3))
    kind = rng.choice(['overlap', 'zero', 'outside', 'raw', 'bigden', 'drum', 'noinstr', 'mismatch', 'short'])
    voices = inp['voices']
    v = rng.choice(voices)
    total = sum(inp['lens'])
    if kind == 'overlap' and v['notes']:
        i = rng.randrange(len(v['notes']))
        s, e, p, vel = v['notes'][i]
        v['notes'].insert(i + 1, (s + (e - s) / 2, e + Fraction(1, 2), p + 3, vel))
    elif kind == 'zero' and v['notes']:
        i = rng.randrange(len(v['notes']))
        s, e, p, vel = v['notes'][i]
        v['notes'][i] = (s, s if rng.random() < 0.6 else s - Fraction(1, 2), p, vel)
    elif kind == 'outside':
        v['notes'].append((total + rng.randint(0, 2), total + 3, 60, 64))
    elif kind == 'raw':
        inp['order'] = 'raw'
        rng.shuffle(v['notes'])
    elif kind == 'bigden' and v['notes']:
        i = rng.randrange(len(v['notes']))
        s, e, p, vel = v['notes'][i]
        v['notes'][i] = (s, s + (e - s) * Fraction(1000, rng.choice([1003, 2001, 7919])), p, vel)
    elif kind == 'drum':
        inp['instruments'] = [[0, 'piano'], [1, 'piano']]
        inp['drum'] = True
    elif kind == 'noinstr':
        inp['instruments'] = []
    elif kind == 'mismatch':
        inp['chord_lens'] = [rng.choice(BAR_LENS) for _ in inp['lens']]
    elif kind == 'short':
        inp['lens'] = inp['lens'][:-1] if len(inp['lens']) > 1 else inp['lens']
        inp['chord_lens'] = inp['lens'] + [2]
        inp['chords'] = inp['chords'] + [rand_chord_tuple(rng)]
    inp['malformed'] = kind
    return jsonify(inp)


def jsonify(inp):
    out = dict(inp)
    out['lens'] = [frac_str(x) for x in inp['lens']]
    if 'chord_lens' in inp:
        out['chord_lens'] = [frac_str(x) for x in inp['chord_lens']]
    out['chords'] = [list(c) for c in inp['chords']]
    out['voices'] = [{**v, 'notes': [[frac_str(s), frac_str(e), int(p), int(vel)] for s, e, p, vel in v['notes']]}
                     for v in inp['voices']]
    return out


def unjson(inp):
    out = dict(inp)
    out['lens'] = [F(x) for x in inp['lens']]
    if 'chord_lens' in inp:
        out['chord_lens'] = [F(x) for x in inp['chord_lens']]
    out['chords'] = [tuple(c) for c in inp['chords']]
    out['voices'] = [{**v, 'notes': [(F(s), F(e), int(p), int(vel)) for s, e, p, vel in v['notes']]}
                     for v in inp['voices']]
    return out


def features(inp):
    """distribution keys of an import input"""
    u = unjson(inp)
    bounds, t = [], F(0)
    for L in u['lens']:
        bounds.append((t, t + L))
        t += L
    ft = [f'bars={len(bounds)}', f'voices={len(u["voices"])}']
    crossing = 0
    held_only = False
    silent_bar = False
    for v in u['voices']:
        for (s, e, p, vel) in v['notes']:
            k = sum(1 for (a, b) in bounds if s < a < e)
            crossing = max(crossing, k)
            for (a, b) in bounds:
                if s < a < e and not any(a <= s2 < b for (s2, _, _, _) in v['notes']):
                    held_only = True
        for (a, b) in bounds:
            if not any(s < b and e > a for (s, e, _, _) in v['notes']):
                silent_bar = True
    if crossing:
        ft.append(f'cross={min(crossing, 3)}')
    if held_only:
        ft.append('tie-into-bar-without-onset')
    if silent_bar:
        ft.append('silent-bar')
    if all(not any(s < b and e > a for v in u['voices'] for (s, e, _, _) in v['notes']) for (a, b) in bounds[-1:]):
        ft.append('empty-last-bar')
    if len(set(u['lens'])) > 1:
        ft.append('mixed-lengths')
    dens = {F(x).denominator for v in u['voices'] for n in v['notes'] for x in n[:2]}
    ft.append(f'grid<={max(dens | {1})}')
    return ft

# ----------------------------------------------------------------------------- oracles


def expected_voices(inp):
    u = unjson(inp)
    return sorted([(p - 60, s, e - s, vel) for (s, e, p, vel) in v['notes']] for v in u['voices'] if v['notes'])


def check_import(inp):
    """oracle `import`: bars of exactly the bar length; rendering == the input notes, voice by voice"""
    u = unjson(inp)
    try:
        sc = run_import(inp)
    except Exception as e:
        return {'observed': f'{type(e).__name__}: {str(e)[:120]}', 'expected': 'a score', 'aspect': 'exception'}
    lens = u['lens']
    if len(sc.chords) > len(lens):
        return {'observed': f'{len(sc.chords)} bars', 'expected': f'<= {len(lens)} bars', 'aspect': 'barlen'}
    for i, ch in enumerate(sc.chords):
        if not ch.score:
            return {'observed': f'bar {i} has no part', 'expected': 'a bar of length ' + str(lens[i]), 'aspect': 'barlen'}
        for k, m in ch.score.items():
            d = sum((Fraction(n.duration) for n in m.notes), Fraction(0))
            if d != lens[i]:
                return {'observed': f'bar {i} part {k} lasts {d}', 'expected': str(lens[i]), 'aspect': 'barlen'}
    got = sorted(v for v in sound.impl_sound(sc).values() if v)
    exp = expected_voices(inp)
    if got != exp:
        bad_g = [str(x) for x in got if x not in exp][:3]
        bad_e = [str(x) for x in exp if x not in got][:3]
        return {'observed': bad_g, 'expected': bad_e, 'aspect': 'sound'}
    return None


def root_pitch(c):
    from musiclang import Note
    return int(c.to_pitch(Note('s', 0, 0, 1)))


def doc_scale_pcs(ch):
    """pitch classes of the documented chord scale, from the interval patterns (not the library tables)"""
    from props.C01 import spec_scale
    el, ext, deg, mode, toct, coct = ch
    return {(deg + x) % 12 for x in spec_scale(mode)}


def check_roundtrip(inp):
    """oracle `roundtrip`: inp = dict(chord=(elem, ext, deg, mode, toct, coct), p=int)"""
    ch = tuple(inp['chord'])
    c = mk_chord(ch)
    p = inp['p']
    try:
        n = c.parse(p)
        back = c.to_pitch(n)
    except Exception as e:
        return {'observed': f'{type(e).__name__}: {e}', 'expected': f'a note sounding {p}'}
    if back is None or int(back) != p:
        return {'observed': f'{n.type}{n.val} o{n.octave} sounds {back}', 'expected': p}
    in_scale = p % 12 in doc_scale_pcs(ch)
    if (n.type == 's') != in_scale or n.type not in ('s', 'h'):
        return {'observed': f'type {n.type}', 'expected': 's' if in_scale else 'h'}
    size = 7 if n.type == 's' else 12
    root = root_pitch(c)
    if not (0 <= n.val < size) or not (0 <= p - root - 12 * n.octave < 12) or n.mode is not None or n.accident is not None:
        return {'observed': f'val {n.val} octave {n.octave} (root {root})', 'expected': 'normalised value and octave'}
    return None


ORACLES = {'import': check_import, 'roundtrip': check_roundtrip}

C0 = [0, '', 0, 'M', 0, 0]
WITNESSES = [
    # D6 (fixed by patches/D6-importer-held-notes.diff): a note of 6 over two bars of 3
    {'lens': ['3', '3'], 'chords': [C0, C0], 'instruments': [[0, 'piano']],
     'voices': [{'track': 0, 'voice': 0, 'channel': 0, 'notes': [['0', '6', 67, 80]]}]},
    # D6, stale tie: the tie of bar 0 -> 1 was used again in bar 2
    {'lens': ['4', '4', '4'], 'chords': [C0, C0, C0], 'instruments': [[0, 'piano']],
     'voices': [{'track': 0, 'voice': 0, 'channel': 0,
                 'notes': [['2', '5', 60, 80], ['6', '8', 62, 80], ['9', '10', 64, 80]]}]},
    # several bar lines, a second voice with a silent bar, mixed bar lengths
    {'lens': ['2', '3/2', '3', '2'], 'chords': [C0, [4, '7', 7, 'm', 0, 0], [1, '', 2, 'dorian', 1, -1], C0],
     'instruments': [[0, 'piano'], [1, 'violin']],
     'voices': [{'track': 0, 'voice': 0, 'channel': 0, 'notes': [['1/2', '7', 49, 33]]},
                {'track': 1, 'voice': 0, 'channel': 1, 'notes': [['0', '1', 72, 90], ['6', '17/2', 75, 91]]}]},
]


def import_signature(inp, r):
    ft = features(inp)
    cls = ('tie-into-bar-without-onset' if 'tie-into-bar-without-onset' in ft else
           'tie' if any(f.startswith('cross=') for f in ft) else
           'silent-bar' if 'silent-bar' in ft else 'plain')
    return f'import-{r.get("aspect", "sound")}:{cls}'

# ----------------------------------------------------------------------------- correspondence


def parse_cases(ctx):
    rng = ctx.rng
    cases = []
    chords = []
    for mode in MODES:
        for elem in range(7):
            chords.append((elem, rng.choice(gen.PLAIN_INVERTIBLE), rng.randrange(12), mode, rng.randint(-2, 2), rng.randint(-2, 2)))
    for _ in range(ctx.n(20, 600)):
        chords.append(rand_chord_tuple(rng, far=True))
    per = ctx.n(24, 128)
    for ch in chords:
        c = mk_chord(ch)
        enc = enc_chord(c, ext_text=ch[1])
        ps = list(range(-60, 68)) if per >= 128 else rng.sample(range(-60, 68), per) + [rng.randint(-400, 400)]
        pcs = doc_scale_pcs(ch)
        for p in ps:
            inp = {'chord': list(ch), 'p': p}
            cases.append({'line': sx('parse', enc, p),
                          'impl': py_res(lambda: c.parse(p), lambda n: f'{n.type} {int(n.val)} {int(n.octave)}'),
                          'input': inp, 'bucket': [f'mode={ch[3]}', 'in-scale' if p % 12 in pcs else 'chromatic'],
                          'nontrivial': True})
            cases.append({'line': sx('reparse', enc, p),
                          'impl': py_res(lambda: c.to_pitch(c.parse(p)), core.show_opt_int),
                          'input': inp, 'bucket': ['reparse'], 'nontrivial': True})
    return cases


def pvoice_cases(ctx):
    """`_parse_voice` alone: one voice, one bar, any pending tie, tick values, drums, overlaps"""
    from musiclang.analyze.item import Item
    from musiclang.analyze.to_musiclang import _parse_voice
    from musiclang import Continuation
    rng = ctx.rng
    cases = []
    for _ in range(ctx.n(1500, 15000)):
        g = rng.choice(GRIDS)
        bs = F(rng.randint(0, 8 * g), g) if rng.random() < 0.7 else F(0)
        L = F(rng.choice(BAR_LENS))
        be = bs + L
        tick = rng.choice([F(1), F(1), F(1), F(1, 2), F(2), F(1, 4)])
        ch = rand_chord_tuple(rng)
        c = mk_chord(ch)
        wild = rng.random() < 0.25
        notes = []
        cont = None
        t = bs
        if rng.random() < 0.35:
            cd = F(rng.randint(0 if wild else 1, 6 * g), g)
            cont = cd
            t = bs + cd / tick
        n = rng.randint(0 if cont is not None else 1, 4)
        for _k in range(n):
            if rng.random() < 0.4:
                t += F(rng.randint(1, 2 * g), g)
            if t >= be and not wild:
                break
            d = F(rng.randint(0 if wild else 1, 4 * g), g)
            s = t - F(rng.randint(0, g), g) if wild and rng.random() < 0.4 else t
            notes.append((s, s + d, rng.randint(30, 100), rng.randint(1, 127)))
            t = s + d
        drum = rng.random() < 0.12
        if not notes and cont is None:
            continue

        def call():
            its = [Item('n', s, e, vel=v, pitch=p) for s, e, p, v in notes]
            mel, ret = _parse_voice(its, c, bs, be, tick if tick.denominator != 1 else int(tick),
                                    None if cont is None else Continuation(cont), is_drum=drum)
            return show_melody(mel) + ' ' + ('-' if ret is None else show_note(ret))
        its = [SX(sx('i', s, e, v, p, 0, 0, 0)) for s, e, p, v in notes]
        line = sx('pvoice', its, enc_chord(c, ext_text=ch[1]), bs, be, tick, cont if cont is not None else '-', drum)
        crosses = bool(notes) and notes[-1][1] > be
        cases.append({'line': line, 'impl': py_res(call), 'input': {'pvoice': line},
                      'bucket': ['wild' if wild else 'mono', 'cont' if cont is not None else 'nocont',
                                 'drum' if drum else 'nodrum', f'tick={frac_str(tick)}', 'crosses' if crosses else 'inside',
                                 'empty' if not notes else f'notes={len(notes)}'],
                      'nontrivial': crosses or cont is not None})
    return cases


def limden_cases(ctx):
    rng = ctx.rng
    cases = []
    for _ in range(ctx.n(300, 5000)):
        q = Fraction(rng.randint(-5000, 5000), rng.randint(1, 20000))
        if rng.random() < 0.3:
            q = Fraction(rng.randint(1, 10 ** 6), rng.randint(1001, 10 ** 6))
        m = rng.choice([1000, 1000, 8, 1, 16, 100])
        cases.append({'line': sx('limden', q, m), 'impl': frac_str(q.limit_denominator(m)), 'input': {'q': frac_str(q), 'm': m},
                      'bucket': ['identity' if q.denominator <= m else 'approximated'], 'nontrivial': q.denominator > m})
    return cases


def import_case(inp):
    ft = features(inp)
    line = import_line(inp)
    return {'line': line, 'impl': py_res(lambda: run_import(inp), show_score), 'input': inp,
            'bucket': ft + ([f'malformed={inp["malformed"]}'] if 'malformed' in inp else []),
            'nontrivial': any(f.startswith('cross=') or f == 'silent-bar' for f in ft)}


def correspondence(ctx):
    ctx.compare('parse', 'C14', parse_cases(ctx))
    ctx.compare('limden', 'C14', limden_cases(ctx))
    ctx.compare('pvoice', 'C14', pvoice_cases(ctx))
    cases = [import_case(w) for w in WITNESSES]
    for _ in range(ctx.n(1200, 12000)):
        cases.append(import_case(gen_import(ctx.rng)))
    ctx.compare('import', 'C14', cases)
    cases = []
    for _ in range(ctx.n(300, 3000)):
        inp = gen_malformed(ctx.rng)
        if inp.get('drum'):
            continue        # drum parts are converted by Chord.__call__ (outside the model): pvoice covers is_drum
        cases.append(import_case(inp))
    ctx.compare('import-malformed', 'C14', cases)
    # kernel-level streams of the source tie (DESIGN §9.6)
    import srctie
    srctie.run(ctx, SRC_TIE)

# ----------------------------------------------------------------------------- oracle


def oracle(ctx):
    rng = ctx.rng
    # 1. witnesses and suspects
    todo = list(WITNESSES)
    for st, i in list(ctx.suspects) + list(getattr(ctx, 'kernel_suspects', [])):      # kernel stream `iscore` (SrcImport) uses the same inputs
        if i and 'voices' in i and 'malformed' not in i:
            todo.append({k: v for k, v in i.items() if k != 'kernel'})
    # 2. small enumerated inputs: one voice, one or two notes, two or three bars of 2 / 3, half-beat grid
    for L in (2, 3):
        for nb in (2, 3):
            total = L * nb
            for s2 in range(0, 2 * total):
                for e2 in range(s2 + 1, 2 * total + 1):
                    if (e2 - s2) % 3 == 1 and (s2 % 2 == 1):
                        continue        # thin the enumeration
                    notes = [[frac_str(F(s2, 2)), frac_str(F(e2, 2)), 60 + (s2 % 12), 70]]
                    if e2 + 1 < 2 * total and s2 % 3 == 0:
                        notes.append([frac_str(F(e2 + 1, 2)), frac_str(F(total)), 65, 71])
                    todo.append({'lens': [str(L)] * nb, 'chords': [C0] * nb, 'instruments': [[0, 'piano']],
                                 'voices': [{'track': 0, 'voice': 0, 'channel': 0, 'notes': notes}]})
    # 3. random
    for _ in range(ctx.n(1500, 20000)):
        todo.append(gen_import(rng))
        if rng.random() < 0.2:
            todo.append({**todo[-1], 'via': 'matrix'})
    for inp in todo:
        ft = features(inp)
        ctx.count('oracle', key=str(inp), bucket=['import'] + ft,
                  nontrivial=any(f.startswith('cross=') or f == 'silent-bar' for f in ft))
        r = check_import(inp)
        if r:
            ctx.fail(import_signature(inp, r), inp, r['observed'], r['expected'], oracle='import')
    # parse / read back
    pairs = []
    for st, i in ctx.suspects:
        if i and 'p' in i and 'chord' in i:
            pairs.append(i)
    for mode in MODES:
        for elem in range(7):
            ch = [elem, '', rng.randrange(12), mode, rng.randint(-2, 2), rng.randint(-2, 2)]
            for p in (range(-60, 68) if ctx.tier == 'thorough' or ctx.search else rng.sample(range(-60, 68), 30)):
                pairs.append({'chord': ch, 'p': p})
    for _ in range(ctx.n(400, 20000)):
        pairs.append({'chord': list(rand_chord_tuple(rng, far=True)), 'p': rng.randint(-300, 300)})
    for inp in pairs:
        ctx.count('oracle', key=str(inp), bucket=['roundtrip', f'mode={inp["chord"][3]}'])
        r = check_roundtrip(inp)
        if r:
            ctx.fail(f'roundtrip:{inp["chord"][3]}', inp, r['observed'], r['expected'], oracle='roundtrip')
