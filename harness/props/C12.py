"""C12 — time slicing returns exactly the requested window and pieces re-join."""
import sys
sys.dont_write_bytecode = True
from fractions import Fraction
import core, gen, sound
from core import sx, SX, enc_score, enc_chord, enc_melody, enc_ext, enc_ton, py_res, frac_str

ID = 'C12'
LEAN_MODULES = ['MV.Props.C12']
LEAN_HELPERS = ['MV.Lemmas.Slice', 'MV.Lemmas.SliceSound', 'MV.Model.Slice', 'MV.Model.Render', 'MV.Model.Pitch',
                'MV.Model.Basic']
DRIVERS = ['C12']
GEN = ['Tables', 'Library']
SRC_TIE = ['SrcSlice', 'SrcBetween']   # py2lean source images of get_melody_between (MV/Props/TieSlice.lean) and of get_chord_between / get_score_between / repeat_until_duration (MV/Props/TieSrcBetween.lean) proved equal to the model
RULE = ('random scores (1-4 chords, 1-3 parts, rests / continuations anywhere, relative notes, dynamics, a drums part '
        'now and then, 12% with one or two chords without parts (duration 0); 80% with every part as long as its chord) '
        'x windows [a, b) whose ends are drawn from note '
        'boundaries, chord boundaries, interior points with denominators 1,2,3,6,7, 0, the end and beyond the end; '
        'streams: slice (get_score_between), melody (get_melody_between incl. modulo), chord (get_chord_between incl. '
        'complete_if_missing), repeat (repeat_until_duration), malformed (b <= a, a < 0, a >= total, None bounds), '
        'offgrid (cut denominators 11..4001, where Note.__init__ rounds: ties the model of limit_denominator); '
        'non-trivial = the window cuts inside a note or on a boundary other than 0/total; distinct = distinct request')
TRUSTED = ['hand-written model of time_utils.py slicing and of Fraction.limit_denominator (MV/Model/Slice.lean) tied by the '
           'streams slice/melody/chord/repeat/malformed/offgrid',
           'the sound of a score is the note matrix of MV/Model/Render.lean (tied to to_midi.get_notes by C03) with '
           'continuations merged per track (MV/Lemmas/SliceSound.lean: soundGo, same fold as harness/sound.impl_sound)',
           'only kind, val, octave, duration, mode, accident, amp of a note are compared (tags / tempo / pedal are not '
           'part of the property)']
ASSUMPTIONS = ['theorems carry the resolution hypothesis explicitly: all note durations and cut points are multiples of 1/N '
               'for one N <= LIMIT_DENOM (1000); Note.__init__ rounds with limit_denominator(1000), which is modelled '
               '(MV/Model/Slice.lean lim) and shown to break the duration law off that grid '
               '(between_duration_all_rationals_fails, replayed by the oracle as duration:resolution)',
               'part names are the canonical name__k the library produces',
               'theorems: every part lasts as long as its chord, every note lasts > 0, every chord has a part',
               'the window theorem speaks of parts whose first sounding note in the window is not a relative note '
               '(between_window_unconditional_fails shows why)']

CUT_DENS = [1, 2, 3, 6, 7]
OFF_DENS = [11, 13, 17, 97, 997, 1009, 4001]

# ----------------------------------------------------------------------------- canonical output (observables only)


def amp_frac(a):
    return Fraction(*a.as_integer_ratio()) if isinstance(a, float) else Fraction(a)


def show_note(n):
    return (f'({n.type} {int(n.val)} {int(n.octave)} {frac_str(n.duration)} {n.mode if n.mode is not None else "-"} '
            f'{n.accident if n.accident is not None else "-"} {frac_str(amp_frac(n.amp))})')


def show_melody(m):
    return '(' + ' '.join(show_note(n) for n in m.notes) + ')'


def show_chord(c):
    parts = '(' + ' '.join(f'({k} {show_melody(m)})' for k, m in c.score.items()) + ')'
    return f'(c {int(c.element)} {enc_ext(c.extension)} {enc_ton(c.tonality)} {int(c.octave)} {parts})'


def show_score(s):
    if s is None:
        return 'None'
    return '(s ' + ' '.join(show_chord(c) for c in s.chords) + ')'

# ----------------------------------------------------------------------------- generators


def with_bare_chords(rng, s, p=0.5):
    """insert chords without parts (duration 0) at random positions"""
    from musiclang import Score
    chords = list(s.chords)
    for _ in range(rng.randint(1, 2)):
        c, _t = gen.rand_chord(rng, ext=rng.choice(gen.PLAIN_INVERTIBLE), octaves=(-1, 1))
        chords.insert(rng.randint(0, len(chords)), c)
    return Score(chords)


def rand_score(ctx, equal=None, kinds=None, rel=None, drums=None, n_chords=(1, 4), bare=None):
    rng = ctx.rng
    if bare is None:
        bare = rng.random() < 0.12
    if bare:
        return with_bare_chords(rng, rand_score(ctx, equal, kinds, rel, drums, n_chords, bare=False))
    equal = (rng.random() < 0.8) if equal is None else equal
    rel = (rng.random() < 0.4) if rel is None else rel
    drums = (rng.random() < 0.12) if drums is None else drums
    drums = drums and equal          # a drums part emptied by the window is stored as None by the code (not modelled)
    if drums:
        parts = ('piano__0', 'drums_0__0')
        kinds = gen.NONREL + ['d']
    else:
        parts = ('piano__0', 'violin__0', 'cello__0')[:rng.randint(1, 3)]
        kinds = kinds or (gen.NONREL + (gen.REL if rel else []))
    return gen.rand_score(rng, n_chords=n_chords, parts=parts, p_absent=0.2, kinds=kinds, equal_parts=equal,
                          plain=rng.random() < 0.5, p_rest=0.15, p_cont=0.2, vals=(0, 6), octs=(-1, 1), p_amp=0.3,
                          n_notes=(1, 4))


def chord_bounds(s):
    out, t = [Fraction(0)], Fraction(0)
    for c in s.chords:
        t += Fraction(c.duration)
        out.append(t)
    return out


def note_bounds(s):
    out, t = set(), Fraction(0)
    for c in s.chords:
        for m in c.score.values():
            u = t
            for n in m.notes:
                u += Fraction(n.duration)
                out.add(u)
        t += Fraction(c.duration)
    return sorted(out)


def rand_point(rng, s, total):
    """(kind, time) of a cut point"""
    k = rng.random()
    if k < 0.25:
        return 'chord', rng.choice(chord_bounds(s))
    if k < 0.5:
        nb = note_bounds(s)
        return 'note', rng.choice(nb) if nb else Fraction(0)
    if k < 0.85:
        den = rng.choice(CUT_DENS)
        hi = max(1, int(total * den))
        return 'interior', Fraction(rng.randint(0, hi), den)
    if k < 0.93:
        return 'beyond', total + Fraction(rng.randint(0, 14), rng.choice(CUT_DENS))
    return 'zero', Fraction(0)


def rand_window(rng, s):
    total = Fraction(s.duration)
    for _ in range(20):
        ka, a = rand_point(rng, s, total)
        kb, b = rand_point(rng, s, total)
        if a > b:
            a, b, ka, kb = b, a, kb, ka
        if a < b:
            return a, b, ka, kb
    return Fraction(0), total + 1, 'zero', 'beyond'


def equal_parts(s):
    """every part lasts as long as its chord (a chord may have no part)"""
    return all(len({Fraction(m.duration) for m in c.score.values()}) <= 1 for c in s.chords)


def zero_chord_at(s, t):
    """a chord of duration 0 sits at time t"""
    u = Fraction(0)
    for c in s.chords:
        d = Fraction(c.duration)
        if d == 0 and u == t:
            return True
        u += d
    return False


def positive(s):
    return all(Fraction(n.duration) > 0 for c in s.chords for m in c.score.values() for n in m.notes) and \
        all(len(m.notes) > 0 for c in s.chords for m in c.score.values())


def cut_kind(s, t):
    if t in chord_bounds(s):
        return 'on-chord'
    if t in note_bounds(s):
        return 'on-note'
    if t >= Fraction(s.duration):
        return 'beyond'
    return 'inside'

# ----------------------------------------------------------------------------- correspondence


def correspondence(ctx):
    from musiclang.write.time_utils import get_melody_between, get_chord_between, repeat_until_duration
    rng = ctx.rng
    # --- slice: get_score_between on windows with a < b
    cases = []
    for _ in range(ctx.n(300, 7000)):
        s = rand_score(ctx)
        a, b, ka, kb = rand_window(rng, s)
        text = str(s)
        ca, cb = cut_kind(s, a), cut_kind(s, b)
        cases.append({'line': sx('score', enc_score(s), a, b),
                      'impl': py_res(lambda: show_score(s.get_score_between(a, b))),
                      'input': {'score': text, 'a': frac_str(a), 'b': frac_str(b)},
                      'bucket': [f'a={ca}', f'b={cb}', 'equal' if equal_parts(s) else 'unequal', f'chords={len(s.chords)}']
                      + (['bare-chord'] if any(len(c.score) == 0 for c in s.chords) else []),
                      'nontrivial': ca != 'beyond' and not (a == 0 and cb == 'beyond')})
    ctx.compare('slice', 'C12', cases)
    # --- malformed / edge windows: b <= a, a < 0, a >= total, None bounds
    cases = []
    for _ in range(ctx.n(80, 1500)):
        s = rand_score(ctx, drums=False)      # an emptied drums part is stored as None by the code (not modelled)
        total = Fraction(s.duration)
        k = rng.randrange(5)
        _, p = rand_point(rng, s, total)
        _, q = rand_point(rng, s, total)
        if k == 0:
            a, b = max(p, q), min(p, q)
        elif k == 1:
            a, b = -Fraction(rng.randint(1, 9), rng.choice(CUT_DENS)), q
        elif k == 2:
            a, b = total + Fraction(rng.randint(0, 3), rng.choice(CUT_DENS)), total + 5
        elif k == 3:
            a, b = None, q
        else:
            a, b = p, None
        cases.append({'line': sx('score', enc_score(s), a, b),
                      'impl': py_res(lambda: show_score(s.get_score_between(a, b))),
                      'input': {'score': str(s), 'a': None if a is None else frac_str(a), 'b': None if b is None else frac_str(b)},
                      'bucket': [['b<=a', 'a<0', 'a>=total', 'a=None', 'b=None'][k]], 'nontrivial': True})
    ctx.compare('malformed', 'C12', cases)
    # --- melody: get_melody_between with and without modulo
    from musiclang import Score
    cases = []
    for _ in range(ctx.n(250, 6000)):
        m = gen.rand_melody(rng, n_notes=(1, 6), kinds=gen.NONREL + gen.REL, p_rest=0.15, p_cont=0.2, p_amp=0.3)
        total = Fraction(m.duration)
        fake = Score([gen.rand_chord(rng, ext='')[0](piano__0=m)])
        _, a = rand_point(rng, fake, total)
        _, b = rand_point(rng, fake, total)
        r = rng.random()
        if r < 0.8 and a > b:
            a, b = b, a
        modulo = rng.random() < 0.35
        if modulo and rng.random() < 0.6:
            b = b + total * rng.randint(0, 3)
        if rng.random() < 0.1:
            a = a - Fraction(rng.randint(1, 5), rng.choice(CUT_DENS))
        cases.append({'line': sx('mel', enc_melody(m), a, b, modulo),
                      'impl': py_res(lambda: show_melody(get_melody_between(m, a, b, modulo=modulo))),
                      'input': {'melody': str(m), 'a': frac_str(a), 'b': frac_str(b), 'modulo': modulo},
                      'bucket': [f'modulo={int(modulo)}', 'a<b' if a < b else 'a>=b', f'a={cut_kind(fake, a)}',
                                 f'b={cut_kind(fake, b)}'],
                      'nontrivial': True})
    ctx.compare('melody', 'C12', cases)
    # --- chord: get_chord_between with and without complete_if_missing, unequal parts included
    cases = []
    for _ in range(ctx.n(200, 5000)):
        s = rand_score(ctx, equal=rng.random() < 0.5, n_chords=(1, 1), bare=False)
        c = s.chords[0]
        total = Fraction(c.duration)
        _, a = rand_point(rng, s, total)
        _, b = rand_point(rng, s, total)
        if a > b and rng.random() < 0.9:
            a, b = b, a
        if rng.random() < 0.15:
            a = a - Fraction(rng.randint(1, 5), rng.choice(CUT_DENS))
        if a >= b and any(k.startswith('drums') for k in c.score):
            a, b = b, a + (1 if a == b else 0)
        comp = rng.random() < 0.5
        cases.append({'line': sx('chord', enc_chord(c), a, b, comp),
                      'impl': py_res(lambda: show_chord(get_chord_between(c, a, b, complete_if_missing=comp))),
                      'input': {'score': str(s), 'a': frac_str(a), 'b': frac_str(b), 'complete': comp},
                      'bucket': [f'complete={int(comp)}', 'equal' if equal_parts(s) else 'unequal',
                                 'drums' if any(k.startswith('drums') for k in c.score) else 'nodrums'],
                      'nontrivial': True})
    ctx.compare('chord', 'C12', cases)
    # --- offgrid: windows whose ends leave the 1/1000 grid (Note.__init__ rounds what the slicer constructs)
    cases = []
    for _ in range(ctx.n(120, 3000)):
        s = rand_score(ctx)
        total = Fraction(s.duration)
        den = rng.choice(OFF_DENS)
        a = Fraction(rng.randint(0, int(total * den)), den)
        b = a + Fraction(rng.randint(1, 3 * den), rng.choice([den, 7, 3, 1]))
        k = rng.randrange(3)
        if k == 0:
            cases.append({'line': sx('score', enc_score(s), a, b),
                          'impl': py_res(lambda: show_score(s.get_score_between(a, b))),
                          'input': {'score': str(s), 'a': frac_str(a), 'b': frac_str(b)}, 'bucket': ['score', f'den={den}']})
        elif k == 1:
            m = gen.rand_melody(rng, n_notes=(1, 6), kinds=gen.NONREL, p_rest=0.15, p_cont=0.2)
            modulo = rng.random() < 0.4
            cases.append({'line': sx('mel', enc_melody(m), a, b, modulo),
                          'impl': py_res(lambda: show_melody(get_melody_between(m, a, b, modulo=modulo))),
                          'input': {'melody': str(m), 'a': frac_str(a), 'b': frac_str(b), 'modulo': modulo},
                          'bucket': ['melody', f'den={den}']})
        else:
            d = Fraction(rng.randint(1, 5 * den), den)
            cases.append({'line': sx('repeat', enc_score(s), d),
                          'impl': py_res(lambda: show_score(repeat_until_duration(s, d))),
                          'input': {'score': str(s), 'd': frac_str(d)}, 'bucket': ['repeat', f'den={den}']})
    ctx.compare('offgrid', 'C12', cases)
    # --- repeat: repeat_until_duration
    cases = []
    for _ in range(ctx.n(150, 3000)):
        s = rand_score(ctx, n_chords=(1, 3))
        total = Fraction(s.duration)
        k = rng.random()
        if k < 0.3:
            d = total * rng.randint(1, 3)
        elif k < 0.9:
            d = Fraction(rng.randint(0, int(total * 3 * 6) + 1), rng.choice(CUT_DENS))
        else:
            d = -Fraction(rng.randint(0, 4), rng.choice(CUT_DENS))
        cases.append({'line': sx('repeat', enc_score(s), d),
                      'impl': py_res(lambda: show_score(repeat_until_duration(s, d))),
                      'input': {'score': str(s), 'd': frac_str(d)},
                      'bucket': ['multiple' if total and d % total == 0 else 'fraction', 'longer' if d > total else 'shorter',
                                 'equal' if equal_parts(s) else 'unequal'],
                      'nontrivial': d > 0})
    ctx.compare('repeat', 'C12', cases)
    # kernel-level streams of the source tie (DESIGN §9.6)
    import srctie
    srctie.run(ctx, [g for g in SRC_TIE if not g.startswith('SrcBetween')])
    # chord / score level kernels: bigger inputs, smaller streams
    srctie.run(ctx, [g for g in SRC_TIE if g.startswith('SrcBetween')], quick=200, thorough=4000)

# ----------------------------------------------------------------------------- the property itself (oracle)


def F(x):
    return None if x is None else core.to_frac(x)


def window_of(evs, a, b):
    """the notes that start inside [a, b), clipped at b, shifted by -a"""
    return [(p, o - a, min(d, b - o), v) for (p, o, d, v) in evs if a <= o < b]


def referenced_parts(score):
    """parts whose relative notes all have a reference inside the score"""
    ok = {}
    for part in sound.part_names(score):
        last, good = False, True
        for ch in score.chords:
            if part not in ch.score:
                last = False
                continue
            for n in ch.score[part].notes:
                if n.type in ('r', 'l', 'x'):
                    continue
                if n.is_relative and not last:
                    good = False
                last = True
        ok[part] = good
    return ok


def strip_pitch(evs):
    return [(o, d, v) for (_p, o, d, v) in evs]


def nonempty(snd):
    return {p: e for p, e in snd.items() if e}


def ref_sound(score):
    """independent denotation of a reference score; None when it has none (a relative note walks out of the
    +-10 octave window of the pitch code, C09's domain)"""
    try:
        return sound.spec_sound(score)
    except IndexError:
        return None


def check_duration(inp):
    """|between(s, a, b)| == min(b, total) - a ; None exactly when a >= total"""
    s = sound.load_score(inp['score'])
    a, b = F(inp['a']), F(inp['b'])
    total = Fraction(s.duration)
    r = s.get_score_between(a, b)
    if a >= total:
        return None if r is None else {'observed': f'a score of duration {r.duration}', 'expected': 'None (window starts at or after the end)'}
    if r is None:
        return {'observed': 'None', 'expected': f'duration {min(b, total) - a}'}
    if Fraction(r.duration) != min(b, total) - a:
        return {'observed': f'duration {r.duration}', 'expected': f'duration {min(b, total) - a}'}
    return None


def check_window(inp):
    """sound(between(s, a, b)) == the notes of sound(s) starting in [a, b), clipped at b, shifted by -a
    (pitches only for the parts whose relative notes have their reference inside the window);
    a note sounding across a becomes a continuation lasting until its end (or b)"""
    s = sound.load_score(inp['score'])
    a, b = F(inp['a']), F(inp['b'])
    total = Fraction(s.duration)
    if a >= total:
        return None
    before = ref_sound(s)
    r = s.get_score_between(a, b)
    if r is None:
        return {'observed': 'None', 'expected': 'a score'}
    ref = referenced_parts(r)
    got = ref_sound(r) if before is not None else None
    obs, exp = {}, {}
    for part in (sound.part_names(s) if got is not None else []):
        e = window_of(before[part], a, b)
        g = got.get(part, [])
        if not ref.get(part, True):
            e, g = strip_pitch(e), strip_pitch(g)
        if e != g:
            obs[part], exp[part] = [str(x) for x in g][:8], [str(x) for x in e][:8]
    extra = [p for p in got if p not in before and got[p]] if got is not None else []
    if extra:
        obs['extra-parts'], exp['extra-parts'] = extra, []
    # head cut: a note (or rest / continuation) of the original that spans a starts the window as a continuation
    t = Fraction(0)
    for ch in s.chords:
        d = Fraction(ch.duration)
        if t <= a < t + d:
            for part, m in ch.score.items():
                u = t
                for n in m.notes:
                    nd = Fraction(n.duration)
                    if u < a < u + nd:
                        first = r.chords[0].score.get(part)
                        want = ('l', min(u + nd, b) - a)
                        have = (first.notes[0].type, Fraction(first.notes[0].duration)) if first is not None and first.notes else None
                        if have != want:
                            obs['head:' + part], exp['head:' + part] = str(have), str(want)
                    u += nd
        t += d
    if obs:
        return {'observed': obs, 'expected': exp}
    return None


def check_rejoin(inp):
    """between(s, 0, t) + between(s, t, total) sounds like s and lasts as long"""
    s = sound.load_score(inp['score'])
    t = F(inp['t'])
    total = Fraction(s.duration)
    if not (0 < t < total):
        return None
    before = ref_sound(s)
    try:
        before_impl = sound.impl_sound(s)
    except Exception:
        before_impl = None
    s1 = s.get_score_between(0, t)
    s2 = s.get_score_between(t, total) if inp.get('end', 'total') == 'total' else s.get_score_between(t, None)
    if s1 is None or s2 is None:
        return {'observed': f'pieces {s1 is not None}, {s2 is not None}', 'expected': 'two scores'}
    j = s1 + s2
    obs, exp = {}, {}
    if Fraction(s1.duration) != t:
        obs['first-duration'], exp['first-duration'] = str(s1.duration), str(t)
    if Fraction(j.duration) != total:
        obs['duration'], exp['duration'] = str(j.duration), str(total)
    after = sound.spec_sound(j) if before is not None else {}
    for part in (before or {}):
        if after.get(part) != before[part]:
            obs[part], exp[part] = [str(x) for x in after.get(part, [])][:8], [str(x) for x in before[part]][:8]
    if before_impl is not None and not obs:
        try:
            after_impl = sound.impl_sound(j)
        except Exception as e:
            after_impl = f'{type(e).__name__}'
        if after_impl != before_impl:
            obs['rendered'], exp['rendered'] = str(after_impl)[:600], str(before_impl)[:600]
    if ref_sound(s) != before:
        obs['original-changed'], exp['original-changed'] = 'slicing changed the sound of its argument', 'unchanged'
    if obs:
        return {'observed': obs, 'expected': exp}
    return None


def check_repeat(inp):
    """|repeat_until_duration(s, d)| == d, and it sounds like s played in a loop, cut at d"""
    s = sound.load_score(inp['score'])
    d = F(inp['d'])
    total = Fraction(s.duration)
    if d <= 0 or total <= 0:
        return None
    r = s.repeat_until_duration(d)
    if r is None:
        return {'observed': 'None', 'expected': f'duration {d}'}
    obs, exp = {}, {}
    if Fraction(r.duration) != d:
        obs['duration'], exp['duration'] = str(r.duration), str(d)
    k = int(d / total) + 1
    loop = None
    for _ in range(k):
        loop = loop + s if loop is not None else s.copy()
    want = ref_sound(loop)
    got = ref_sound(r) if want is not None else None
    ref = referenced_parts(r)
    for part in (want if got is not None else []):
        e = window_of(want[part], Fraction(0), d)
        g = got.get(part, [])
        if not ref.get(part, True):
            e, g = strip_pitch(e), strip_pitch(g)
        if e != g:
            obs[part], exp[part] = [str(x) for x in g][:8], [str(x) for x in e][:8]
    if obs:
        return {'observed': obs, 'expected': exp}
    return None


def _as_kind(q, kind):
    """the same number handed over as another kind of argument; None when `kind` cannot express it exactly"""
    q = Fraction(q)
    if kind == 'fraction':
        return q
    if kind == 'int':
        return int(q) if q.denominator == 1 else None
    if kind in ('float', 'npfloat'):
        if q.denominator & (q.denominator - 1):          # not a power of two: a float would not be the same number
            return None
        import numpy as np
        return float(q) if kind == 'float' else np.float64(float(q))
    raise ValueError(kind)


def check_entry(inp):
    """the same window / repetition asked through another public entry point or with the cut points given as another
    kind of number (int, float, numpy float when they express the value exactly) is the same score
    (seed C12-6 snapped float cut points to eighths inside get_score_between)"""
    from musiclang.write.time_utils import get_score_between, get_chord_between, repeat_until_duration
    s = sound.load_score(inp['score'])
    how, kind = inp['how'], inp['kind']
    if kind in ('float', 'npfloat'):
        # the property quantifies over rational cut points; a float cut point is only "the same number" as long as the
        # arithmetic it enters stays exact, i.e. when every duration of the score is dyadic too (against triplets or
        # fifths float subtraction rounds, and the pieces legitimately differ in the last digit: false alarm seen in a
        # thorough run).  Seed C12-6 shows on dyadic material.
        def dyadic(q):
            d = Fraction(q).denominator
            return d & (d - 1) == 0
        if not all(dyadic(n.duration) for c in s.chords for m in c.score.values() for n in m.notes):
            return None
    if how == 'repeat':
        d = F(inp['d'])
        v = _as_kind(d, kind)
        if v is None:
            return None
        ref = py_res(lambda: show_score(s.repeat_until_duration(d)))
        got = py_res(lambda: show_score(repeat_until_duration(s, v) if inp.get('function') else s.repeat_until_duration(v)))
    else:
        a, b = F(inp['a']), F(inp['b'])
        va, vb = _as_kind(a, kind), _as_kind(b, kind)
        if va is None or vb is None:
            return None
        if how == 'chord':
            c = s.chords[0]
            ref = py_res(lambda: show_chord(get_chord_between(c, a, b)))
            got = py_res(lambda: show_chord(c.get_chord_between(va, vb)))
        else:
            ref = py_res(lambda: show_score(s.get_score_between(a, b)))
            got = py_res(lambda: show_score(get_score_between(s, va, vb) if inp.get('function') else s.get_score_between(va, vb)))
    return None if got == ref else {'observed': got[:600], 'expected': ref[:600]}


ORACLES = {'duration': check_duration, 'window': check_window, 'rejoin': check_rejoin, 'repeat': check_repeat,
           'entry': check_entry}

WITNESSES = [
    # boundary coincidences the eight repository tests do not touch
    ('window', {'score': '(I % I.M)(piano__0=s0.h + s1.h) + (V % I.M)(piano__0=s2.h + l.h)', 'a': '2', 'b': '4'}),     # cut on a chord boundary
    ('window', {'score': '(I % I.M)(piano__0=s0.h + s1.h) + (V % I.M)(piano__0=s2.h + l.h)', 'a': '1', 'b': '8'}),     # ends exactly at the end
    ('window', {'score': '(I % I.M)(piano__0=s0.h + s1.h, violin__0=r.w) + (V % I.M)(piano__0=s2.w)', 'a': '1/3', 'b': '29/7'}),
    ('window', {'score': '(I % I.M)(piano__0=s0.h + s1.h) + (V % I.M)(violin__0=s2.h + l.h)', 'a': '3', 'b': '7'}),   # absent parts
    # witness of between_window_unconditional_fails: the window starts with a relative note (pitch not compared)
    ('window', {'score': '(I % I.M)(piano__0=s2.h + su1.h)', 'a': '2', 'b': '4'}),
    ('rejoin', {'score': '(I % I.M)(piano__0=s0.h + su1.h) + (V % I.M)(piano__0=sd2.h + l.h)', 't': '4'}),
    ('rejoin', {'score': '(I % I.M)(piano__0=s0.h + su1.h) + (V % I.M)(piano__0=sd2.h + l.h)', 't': '5/3'}),
    ('rejoin', {'score': '(I % I.M)(piano__0=s0.h + su1.h) + (V % I.M)(piano__0=sd2.h + l.h)', 't': '6'}),
    # Lean: cut_rejoin_full_fails -- a chord without parts (duration 0) exactly at the cut is in neither piece
    ('rejoin', {'score': '(I % I.M)(piano__0=s0.w) + (V % I.M)() + (IV % I.M)(piano__0=l.h)', 't': '4'}),
    ('rejoin', {'score': '(I % I.M)(piano__0=s0.w) + (V % I.M)() + (IV % I.M)(piano__0=l.h)', 't': '3'}),
    ('window', {'score': '(I % I.M)(piano__0=s0.w) + (V % I.M)() + (IV % I.M)(piano__0=l.h)', 'a': '4', 'b': '6'}),
    ('repeat', {'score': '(I % I.M)(piano__0=s0.h + s1.q)', 'd': '15/2'}),
    ('repeat', {'score': '(I % I.M)(piano__0=s0.h + s1.q)', 'd': '6'}),
]


def grid_of(s, *pts):
    """least N such that every note duration of s and every point is a multiple of 1/N"""
    import math
    n = 1
    for c in s.chords:
        for m in c.score.values():
            for x in m.notes:
                n = math.lcm(n, Fraction(x.duration).denominator)
    for p in pts:
        n = math.lcm(n, Fraction(p).denominator)
    return n


# the model-side counter-example of between_duration_all_rationals_fails and two more of its kind
RESOLUTION_WITNESSES = [
    {'score': '(I % I.M)(piano__0=s0.q7 + s1.q7 + s2.augment(frac(10, 7)))', 'a': '1/997', 'b': '2'},
    {'score': '(I % I.M)(piano__0=s0.q7 + s1.q7 + s2.augment(frac(10, 7)))', 'a': '0', 'b': '1013/1009'},
    {'score': '(I % I.M)(piano__0=s0.e3 + s1.q5 + s2.q7, violin__0=r.augment(frac(107, 105)))', 'a': '1/11', 'b': '1'},
]


def klass(s, *pts):
    return '+'.join(cut_kind(s, p) for p in pts)


def rejoin_class(s, t):
    return 'zero-length-chord-at-cut' if zero_chord_at(s, t) else klass(s, t)


def run(ctx, name, inp, sig, bucket):
    ctx.count('oracle', key=name + str(sorted(inp.items())), bucket=[name] + bucket)
    try:
        r = ORACLES[name](inp)
    except Exception as e:  # the slicing (or the rendering of its result) raised
        r = {'observed': f'{type(e).__name__}: {e}'[:300], 'expected': 'no exception'}
        sig = sig + ':raises'
    if r:
        ctx.fail(f'{name}:{sig}', inp, r['observed'], r['expected'], oracle=name)


def oracle(ctx):
    rng = ctx.rng
    # off the library's resolution (lcm of the denominators > LIMIT_DENOM) the slicer's notes are rounded by
    # Note.__init__: the duration law fails there (Lean: between_duration_all_rationals_fails)
    from musiclang.write.note import LIMIT_DENOM
    for inp in RESOLUTION_WITNESSES:
        s = sound.load_score(inp['score'])
        assert grid_of(s, F(inp['a']), F(inp['b'])) > LIMIT_DENOM
        run(ctx, 'duration', inp, 'resolution', ['off-grid'])
    for name, inp in WITNESSES:
        s = sound.load_score(inp['score'])
        pts = [F(inp[k]) for k in ('a', 'b', 't') if k in inp]
        sig = rejoin_class(s, pts[0]) if name == 'rejoin' else (klass(s, *pts) if pts else 'witness')
        run(ctx, name, inp, sig, ['witness'])
    # inputs at which model and code disagreed
    for st, i in ctx.suspects:
        if not i or 'score' not in i:
            continue
        try:
            s = sound.load_score(i['score'])
        except Exception:
            continue
        if not (equal_parts(s) and positive(s)):
            continue
        if st in ('slice', 'chord') and i.get('a') is not None and i.get('b') is not None and \
                0 <= F(i['a']) < F(i['b']):
            for name in ('duration', 'window'):
                run(ctx, name, {'score': i['score'], 'a': i['a'], 'b': i['b']}, klass(s, F(i['a']), F(i['b'])), ['suspect'])
            for t in (i['a'], i['b']):
                run(ctx, 'rejoin', {'score': i['score'], 't': t}, rejoin_class(s, F(t)), ['suspect'])
        if st == 'repeat' and 'd' in i:
            run(ctx, 'repeat', {'score': i['score'], 'd': i['d']}, 'suspect', ['suspect'])
    # random: scores in which every part lasts as long as its chord
    for _ in range(ctx.n(220, 6000)):
        s = rand_score(ctx, equal=True)
        if not positive(s):
            continue
        text = str(s)
        total = Fraction(s.duration)
        a, b, _ka, _kb = rand_window(rng, s)
        inp = {'score': text, 'a': frac_str(a), 'b': frac_str(b)}
        kl = klass(s, a, b)
        run(ctx, 'duration', inp, kl, [f'a={cut_kind(s, a)}', f'b={cut_kind(s, b)}'])
        run(ctx, 'window', inp, kl, [f'a={cut_kind(s, a)}', f'b={cut_kind(s, b)}'])
        for _ in range(2):
            _k, t = rand_point(rng, s, total)
            if 0 < t < total:
                run(ctx, 'rejoin', {'score': text, 't': frac_str(t), 'end': rng.choice(['total', 'none'])},
                    rejoin_class(s, t), [f't={cut_kind(s, t)}'] + (['zero-chord-at-t'] if zero_chord_at(s, t) else []))
        k = rng.random()
        d = total * rng.randint(1, 3) if k < 0.3 else Fraction(rng.randint(1, int(total * 3 * 6) + 1), rng.choice(CUT_DENS))
        mult = 'multiple' if d % total == 0 else 'fraction'
        run(ctx, 'repeat', {'score': text, 'd': frac_str(d)}, mult, [mult])
        # other entry points / kinds of argument, on cut points a float expresses exactly (sixteenths, thirty-seconds)
        den = rng.choice([1, 2, 4, 16, 16, 32])
        ea = Fraction(rng.randint(0, int(total * den)), den)
        eb = ea + Fraction(rng.randint(1, int(total * den) + den), den)
        kind = rng.choice(['float', 'float', 'npfloat', 'int', 'fraction'])
        how = rng.choice(['score', 'score', 'chord', 'repeat'])
        einp = {'score': text, 'how': how, 'kind': kind, 'function': rng.random() < 0.4, 'a': frac_str(ea), 'b': frac_str(eb),
                'd': frac_str(eb)}
        run(ctx, 'entry', einp, f'{how}:{kind}', [f'how={how}', f'kind={kind}'])
