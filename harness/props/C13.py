"""C13 — harmonic projection takes the target's harmony and keeps the source's music."""
import sys
sys.dont_write_bytecode = True
from fractions import Fraction
import core, gen, sound
from core import sx, enc_score, enc_chord, enc_melody, py_res, frac_str

ID = 'C13'
LEAN_MODULES = ['MV.Props.C13']
LEAN_HELPERS = ['MV.Lemmas.Project', 'MV.Lemmas.ProjectDen', 'MV.Lemmas.ProjectRel', 'MV.Lemmas.ProjectModes',
                'MV.Lemmas.ProjectKeep', 'MV.Lemmas.ProjectPitch', 'MV.Lemmas.Scale', 'MV.Props.C01', 'MV.Model.Project',
                'MV.Model.Render', 'MV.Model.Pitch', 'MV.Model.Rel', 'MV.Model.Basic']
DRIVERS = ['C13']
GEN = ['Tables', 'Library']
SRC_TIE = ['SrcSlice', 'SrcBetween', 'SrcBetweenProject']   # py2lean source images proved equal to the models: get_melody_between (MV/Props/TieSlice.lean), get_chord_between / get_score_between / repeat_until_duration on the slicing model (MV/Props/TieSrcBetween.lean), and the same plus put_on_same_chord / project_on_score on the projection model (MV/Props/TieSrcBetweenProject.lean)
RULE = ('source x target scores: 1-4 chords each, independent chord boundaries (duration families with denominators '
        '1,2,4,8 / 3,6,12 / 5,10 / 7), sources shorter, equal and longer than the target, 1-3 parts, parts absent from '
        'some chords, rests and continuations anywhere, all note systems incl. relative notes, accidentals, per-note '
        'modes, dynamics; all tonalities/modes/octaves on both sides; flags keep_pitch x voice_leading x keep_score x '
        'repeat_to_duration x allow_override; non-trivial = the two scores have different chord boundaries or '
        'different durations or a part is absent somewhere; distinct = distinct (source text, target text, flags)')
TRUSTED = ['hand-written model of time_utils.py / project.py / Score.project_on_score (MV/Model/Project.lean) tied by '
           'the streams project / plain / between / melbetween / onechord / offset / renotate',
           'the pitch calculus and Chord.parse are the shared model MV/Model/Pitch.lean (C01/C02/C09/C14)',
           'sound of a score = harness/sound.py (spec_sound: independent denotation; impl_sound: library note matrix)',
           'keep_pitch sound theorem: the link "absolute re-notation of the source sounds like the source" is C11\'s; here '
           'it is covered by the oracle `sound` on referenced sources only']
ASSUMPTIONS = ['every duration and every difference of partial sums has a denominator <= 1000 (the library rounds '
               'beyond that: Fraction.limit_denominator(1000) on every note copy)',
               'source: every part lasts as long as its chord (the property\'s hypothesis), every chord has a part, '
               'every note a positive duration; target chords have a positive duration',
               'part names are canonical `name__k`, no drum parts (Chord.__call__ rewrites those), tonality is not None, '
               'chord degrees 0..6, tonics 0..11',
               'keep_pitch: every relative note of the source has an earlier pitched (non-drum) note of its part with no absence '
               'or drum note in between (to_absolute_note raises otherwise, D5c, or does not thread through a drum note: C11 matters)',
               'keep_score with allow_override and shared part names: per chord the result is {**target parts, **projected parts} '
               '(checked by the oracle keep_score; rhythm/sound oracles then skip the shared names)',
               'repeat_to_duration is modelled and tied by correspondence only (the property does not speak about it; '
               'with keep_pitch the code drops the repetition)',
               'amplitude/tempo/pedal of rests and continuations are not observed']

FAMILIES = [[Fraction(1), Fraction(1, 2), Fraction(1, 4), Fraction(3, 2), Fraction(2), Fraction(3, 4), Fraction(1, 8)],
            [Fraction(1, 3), Fraction(2, 3), Fraction(1), Fraction(1, 6), Fraction(1, 2), Fraction(1, 12)],
            [Fraction(1, 5), Fraction(2, 5), Fraction(1), Fraction(1, 2), Fraction(3, 10)],
            [Fraction(1, 7), Fraction(2, 7), Fraction(1), Fraction(3)],
            [Fraction(1), Fraction(2), Fraction(1, 2)],
            # mixed tuplets: chord boundaries with denominators far above 32 (seed C13-4 rounds the cut points)
            [Fraction(2, 5), Fraction(2, 7), Fraction(1, 3), Fraction(1), Fraction(1, 2), Fraction(3, 14)]]
SRC_PARTS = ('piano__0', 'violin__0', 'piano__1')
TGT_PARTS = ('cello__0', 'flute__0')

# ----------------------------------------------------------------------------- canonical output


def show_note(n):
    amp = '-'
    if n.type not in ('r', 'l', 'd', 'x'):
        a = n.amp
        amp = frac_str(Fraction(*a.as_integer_ratio()) if isinstance(a, float) else Fraction(a))
    return f'({n.type} {int(n.val)} {int(n.octave)} {frac_str(n.duration)} {n.mode or "-"} {n.accident or "-"} {amp})'


def show_melody(m):
    return '(' + ' '.join(show_note(n) for n in m.notes) + ')'


def show_chord(c):
    ext = c.extension.replace('(', '<').replace(')', '>') if c.extension else '""'
    parts = ' '.join(f'({k} {show_melody(m)})' for k, m in c.score.items())
    t = c.tonality
    return f'({int(c.element)} {ext} {int(t.degree)} {t.mode} {int(t.octave)} {int(c.octave)} ({parts}))'


def show_score(s):
    from musiclang import Chord
    if s is None:
        return 'None'
    if isinstance(s, Chord):
        return 'Chord' + show_chord(s)
    return '(' + ' '.join(show_chord(c) for c in s.chords) + ')'

# ----------------------------------------------------------------------------- generators


def rand_src(rng, fam=None, kinds=None, parts=None, n_chords=(1, 4), p_absent=0.25, equal_parts=True, ref=None):
    fam = fam if fam is not None else rng.choice(FAMILIES)
    kinds = kinds or (gen.NONREL + (gen.REL if rng.random() < 0.4 else []) + (['d'] if rng.random() < 0.1 else []))
    parts = parts or SRC_PARTS[:rng.randint(1, 3)]
    ref = (rng.random() < 0.8) if ref is None else ref
    for _ in range(60):
        s = gen.rand_score(rng, n_chords=n_chords, parts=parts, p_absent=p_absent, kinds=kinds, equal_parts=equal_parts,
                           durs=fam, p_rest=0.15, p_cont=0.2, vals=(0, 8), octs=(-1, 1), p_amp=0.4, n_notes=(1, 4))
        if not ref or referenced(s):
            return s
    return gen.rand_score(rng, n_chords=n_chords, parts=parts, p_absent=p_absent, kinds=gen.NONREL, equal_parts=equal_parts,
                          durs=fam, p_rest=0.15, p_cont=0.2, vals=(0, 8), octs=(-1, 1), p_amp=0.4, n_notes=(1, 4))


def rand_tgt(rng, fam=None, clash=False, n_chords=(1, 4), equal_parts=True):
    fam = fam if fam is not None else rng.choice(FAMILIES)
    parts = TGT_PARTS[:rng.randint(1, 2)]
    if clash:
        parts = parts + (rng.choice(SRC_PARTS),)
    return gen.rand_score(rng, n_chords=n_chords, parts=parts, p_absent=0.2, kinds=gen.NONREL, equal_parts=equal_parts,
                          durs=fam, p_rest=0.15, p_cont=0.15, vals=(0, 8), octs=(-1, 1), p_amp=0.3, n_notes=(1, 3))


def bounds(score):
    out, t = [Fraction(0)], Fraction(0)
    for c in score.chords:
        t += Fraction(c.duration)
        out.append(t)
    return out


def features(src, tgt):
    f = []
    bs, bt = bounds(src), bounds(tgt)
    f.append('src<tgt' if bs[-1] < bt[-1] else ('src=tgt' if bs[-1] == bt[-1] else 'src>tgt'))
    D = min(bs[-1], bt[-1])
    if any(b not in bs for b in bt if b < D):
        f.append('misaligned')
    if bs[-1] < bt[-1] and bs[-1] not in bt:
        f.append('ends-inside-target-chord')
    names = sound.part_names(src)
    if any(p not in c.score for c in src.chords for p in names):
        f.append('absent')
    notes = [n for c in src.chords for m in c.score.values() for n in m.notes]
    if any(n.is_relative for n in notes):
        f.append('relative')
    if any(n.type == 'l' for n in notes):
        f.append('cont')
    return f


def flag_sets(rng):
    kp, vl, ks = rng.random() < 0.4, rng.random() < 0.5, rng.random() < 0.35
    rp = rng.random() < 0.15
    ao = rng.random() < 0.3
    return {'keep_pitch': kp, 'voice_leading': vl, 'keep_score': ks, 'repeat_to_duration': rp, 'allow_override': ao}


def flag_key(fl):
    return ''.join(k[0] + k.split('_')[-1][0] + str(int(v)) for k, v in sorted(fl.items()))


def project(src, tgt, fl):
    return src.project_on_score(tgt, **fl)


def project_line(src, tgt, fl):
    return sx('project', enc_score(src), enc_score(tgt), fl['keep_pitch'], fl['voice_leading'], fl['keep_score'],
              fl['repeat_to_duration'], fl['allow_override'])

# ----------------------------------------------------------------------------- correspondence


def correspondence(ctx):
    from musiclang import Score
    from musiclang.write.time_utils import project_on_score as tu_project, get_melody_between
    from musiclang.transform.composing.project import project_on_one_chord, offset_between_chords
    rng = ctx.rng
    cases = []
    for i in range(ctx.n(260, 6000)):
        x = rng.random()
        src = rand_src(rng, equal_parts=(x > 0.1))
        tgt = rand_tgt(rng, clash=(rng.random() < 0.15), equal_parts=(rng.random() > 0.1))
        fl = flag_sets(rng)
        ft = features(src, tgt)
        a, b = str(src), str(tgt)
        cases.append({'line': project_line(src, tgt, fl), 'impl': py_res(lambda: project(src, tgt, fl), show_score),
                      'input': {'src': a, 'tgt': b, 'flags': fl},
                      'bucket': ft + [f'{k}={int(v)}' for k, v in fl.items()] + [f'chords={len(src.chords)}x{len(tgt.chords)}'],
                      'nontrivial': any(k in ft for k in ('misaligned', 'absent', 'src<tgt', 'src>tgt')),
                      'key': a + b + flag_key(fl)})
    # malformed / edge stream: empty scores, chords without parts, one-chord targets, zero-length windows
    from musiclang.library import I, V, s0, s1, s2, su1, r, l
    e = Score([])
    edge = [(e, rand_tgt(rng)), (rand_src(rng), e), (Score([I % I.M]), rand_tgt(rng)), (rand_src(rng), Score([I % I.M, V % I.M])),
            (Score([(I % I.M)(piano__0=su1 + s0)]), rand_tgt(rng)),
            (rand_src(rng), Score([(I % I.M)(cello__0=s0), V % I.M, (I % I.m)(cello__0=s1)])),
            (Score([(I % I.M)(piano__0=s0.h), I % I.M, (V % I.M)(piano__0=s1.h)]), Score([(V % V.m)(cello__0=s0.w)]))]
    for src, tgt in edge:
        for kp in (False, True):
            for vl in (False, True):
                for ks in (False, True):
                    fl = {'keep_pitch': kp, 'voice_leading': vl, 'keep_score': ks, 'repeat_to_duration': rng.random() < 0.5,
                          'allow_override': False}
                    cases.append({'line': project_line(src, tgt, fl), 'impl': py_res(lambda: project(src, tgt, fl), show_score),
                                  'input': {'src': str(src), 'tgt': str(tgt), 'flags': fl}, 'bucket': ['edge'],
                                  'nontrivial': False, 'key': str(src) + str(tgt) + flag_key(fl)})
    ctx.compare('project', 'C13', cases)

    # the building blocks, each against its own function
    cases = []
    for i in range(ctx.n(150, 3000)):
        src = rand_src(rng, equal_parts=(rng.random() > 0.15))
        tgt = rand_tgt(rng, clash=(rng.random() < 0.3))
        ks = rng.random() < 0.5
        # time_utils.project_on_score mutates score2 when keep_score is set: give it copies
        cases.append({'line': sx('plain', enc_score(src), enc_score(tgt), ks),
                      'impl': py_res(lambda: tu_project(src.copy(), tgt.copy(), keep_score=ks), show_score),
                      'input': {'src': str(src), 'tgt': str(tgt), 'flags': {'plain_keep_score': ks}},
                      'bucket': features(src, tgt) + [f'keep_score={int(ks)}'], 'key': str(src) + str(tgt) + str(ks)})
    ctx.compare('plain', 'C13', cases)

    cases, cases2 = [], []
    for i in range(ctx.n(200, 4000)):
        src = rand_src(rng, equal_parts=(rng.random() > 0.3))
        bs = bounds(src)
        pts = sorted(set(bs + [rng.choice(bs) + rng.choice([-1, 1]) * rng.choice(FAMILIES[rng.randrange(4)]) for _ in range(3)]
                         + [bs[-1] + 1, Fraction(-1, 2)]))
        a = rng.choice(pts)
        b = rng.choice(pts)
        if rng.random() < 0.75 and a > b:
            a, b = b, a
        cases.append({'line': sx('between', enc_score(src), a, b),
                      'impl': py_res(lambda: src.get_score_between(a, b), show_score),
                      'input': {'src': str(src), 'a': frac_str(a), 'b': frac_str(b)},
                      'bucket': ['a<b' if a < b else ('a=b' if a == b else 'a>b'), 'a-on-boundary' if a in bs else 'a-inside'],
                      'nontrivial': a < b, 'key': str(src) + str(a) + str(b)})
        m = next(iter(src.chords[0].score.values()))
        a2 = rng.choice([Fraction(0), rng.choice(FAMILIES[rng.randrange(4)]), Fraction(-1, 2)])
        b2 = a2 + rng.choice([Fraction(0), Fraction(1, 2), Fraction(1), Fraction(5), Fraction(1, 3), Fraction(-1, 4)])
        cases2.append({'line': sx('melbetween', enc_melody(m), a2, b2),
                       'impl': py_res(lambda: get_melody_between(m, a2, b2), show_melody),
                       'input': {'melody': str(m), 'a': frac_str(a2), 'b': frac_str(b2)},
                       'bucket': ['a<b' if a2 < b2 else ('a=b' if a2 == b2 else 'a>b')], 'key': str(m) + str(a2) + str(b2)})
    ctx.compare('between', 'C13', cases)
    ctx.compare('melbetween', 'C13', cases2)

    cases, cases2, cases3 = [], [], []
    for i in range(ctx.n(150, 3000)):
        src = rand_src(rng, equal_parts=(rng.random() > 0.3))
        cases.append({'line': sx('onechord', enc_score(src)),
                      'impl': py_res(lambda: project_on_one_chord(src), lambda t: show_chord(t[0]) + ' ' + core.show_ints(t[2])),
                      'input': {'src': str(src)}, 'bucket': [f'chords={len(src.chords)}'], 'key': str(src)})
        c1, c2 = rng.choice(src.chords), rng.choice(src.chords)
        cases2.append({'line': sx('offset', enc_chord(c1, with_parts=False), enc_chord(c2, with_parts=False)),
                       'impl': py_res(lambda: int(offset_between_chords(c1, c2))),
                       'input': {'c1': str(c1.to_chord()), 'c2': str(c2.to_chord())}, 'bucket': ['offset'],
                       'key': str(c1.to_chord()) + str(c2.to_chord())})
        op = rng.choice(['toabs', 'toscale'])
        cases3.append({'line': sx(op, enc_score(src)),
                       'impl': py_res(lambda: src.to_absolute_note() if op == 'toabs' else src.to_scale_notes(), show_score),
                       'input': {'src': str(src), 'op': op}, 'bucket': [op] + [k for k in features(src, src) if k in ('relative', 'absent')],
                       'key': op + str(src)})
    ctx.compare('onechord', 'C13', cases)
    ctx.compare('offset', 'C13', cases2)
    ctx.compare('renotate', 'C13', cases3)
    # kernel-level streams of the source tie (DESIGN §9.6)
    import srctie
    srctie.run(ctx, [g for g in SRC_TIE if not g.startswith('SrcBetween')])
    # chord / score level kernels: bigger inputs, smaller streams
    srctie.run(ctx, [g for g in SRC_TIE if g.startswith('SrcBetween')], quick=200, thorough=4000)


# ----------------------------------------------------------------------------- the property, on the real objects

def header(c):
    t = c.tonality
    return (int(c.element), c.extension, int(t.degree), t.mode, int(t.octave), int(c.octave))


def sym_events(score, with_symbol=True):
    """{part: [(onset, sounding duration, symbol, amp)]}: what is written, tied notes merged.
    A continuation extends the note sounding just before it in the same part; a rest or a chord
    without the part ends it.  Independent of the library's slicing code."""
    out = {}
    for part in sound.part_names(score):
        evs, open_ev, time = [], None, Fraction(0)
        for ch in score.chords:
            d_ch = sound.chord_duration(ch)
            if part not in ch.score:
                open_ev = None
                time += d_ch
                continue
            t = time
            for n in ch.score[part].notes:
                d = Fraction(n.duration)
                if n.type == 'r':
                    open_ev = None
                elif n.type == 'l':
                    if open_ev is not None:
                        o, dd, sy, a = evs[open_ev]
                        evs[open_ev] = (o, dd + d, sy, a)
                else:
                    sy = (n.type, int(n.val), int(n.octave), n.mode, n.accident) if with_symbol else None
                    evs.append((t, d, sy, n.amp if with_symbol else None))
                    open_ev = len(evs) - 1
                t += d
            time += d_ch
        out[part] = evs
    return out


def clip(evs, D):
    return {p: [(e[0], min(e[1], D - e[0])) + tuple(e[2:]) for e in l if e[0] < D] for p, l in evs.items()}


def clip_sound(evs, D):
    return {p: [(e[0], e[1], min(e[2], D - e[1]), e[3]) for e in l if e[1] < D] for p, l in evs.items()}


def referenced(score):
    """every relative note has an earlier *pitched* note of its part (kinds s h c b a and relative ones) with neither
    an absence of the part nor a drum note (`d`) in between: Score.to_absolute_note does not thread the last pitch
    through drum notes although the renderer does (a C11 matter, outside this property's domain)"""
    for part in sound.part_names(score):
        last = False
        for ch in score.chords:
            if part not in ch.score:
                last = False
                continue
            for n in ch.score[part].notes:
                if n.type == 'x':
                    return False
                if n.type in ('r', 'l'):
                    continue
                if n.type == 'd':
                    last = False
                    continue
                if n.is_relative and not last:
                    return False
                last = True
    return True


def load(inp):
    from musiclang import Score
    src = sound.load_score(inp['src']) if inp['src'] else Score([])
    tgt = sound.load_score(inp['tgt']) if inp['tgt'] else Score([])
    fl = {'keep_pitch': False, 'voice_leading': True, 'keep_score': False, 'repeat_to_duration': False, 'allow_override': False}
    fl.update(inp.get('flags', {}))
    return src, tgt, fl


def in_domain(src, tgt):
    """the property's hypothesis: every part lasts as long as its chord; non-degenerate scores"""
    if not src.chords or not tgt.chords:
        return False
    for s in (src, tgt):
        for c in s.chords:
            if not c.score or c.tonality is None:
                return False
            ds = {sum((Fraction(n.duration) for n in m.notes), Fraction(0)) for m in c.score.values()}
            if len(ds) != 1 or min(ds) <= 0:
                return False
            if any(n.duration <= 0 for m in c.score.values() for n in m.notes):
                return False
    return True


def clash_expected(src, tgt, D):
    """parts of the source sounding before the common end that the target also has (in its chords before the common
    end: the projection only ever meets those)"""
    t, ps = Fraction(0), []
    for c in src.chords:
        if t < D:
            ps += list(c.score.keys())
        t += Fraction(c.duration)
    t, pt = Fraction(0), []
    for c in tgt.chords:
        if t < D:
            pt += list(c.score.keys())
        t += Fraction(c.duration)
    return sorted(set(ps) & set(pt))


_memo = {}


def run(src, tgt, fl):
    """(result, None) or (None, exception); the last few calls are remembered (the oracles of one input share them)"""
    key = (str(src), str(tgt), tuple(sorted(fl.items())))
    if key in _memo:
        return _memo[key]
    try:
        out = (src.project_on_score(tgt, **fl), None)
    except Exception as e:  # noqa
        out = (None, e)
    if len(_memo) > 8:
        _memo.clear()
    _memo[key] = out
    return out


def check_chords(inp):
    src, tgt, fl = load(inp)
    D = min(Fraction(src.duration), Fraction(tgt.duration))
    res, exc = run(src, tgt, fl)
    if exc is not None:
        return None          # reported by 'total'
    bt = bounds(tgt)
    K = len([b for b in bt[:-1] if b < D])
    got = [header(c) for c in res.chords]
    exp = [header(c) for c in tgt.chords[:K]]
    return None if got == exp else {'observed': got, 'expected': exp}


def check_total(inp):
    """on the domain the projection succeeds, except for the documented clash of part names"""
    src, tgt, fl = load(inp)
    D = min(Fraction(src.duration), Fraction(tgt.duration))
    if fl['keep_pitch'] and not referenced(src):
        return None
    res, exc = run(src, tgt, fl)
    clash = fl['keep_score'] and not fl['allow_override'] and clash_expected(src, tgt, D)
    if clash:
        if exc is not None and type(exc) is Exception:
            return None
        return {'observed': 'no error' if exc is None else f'{type(exc).__name__}: {exc}',
                'expected': f'Exception: parts should be different (shared: {clash})'}
    shared_anywhere = sorted(set(sound.part_names(src)) & set(sound.part_names(tgt)))
    if exc is not None and type(exc) is Exception and 'parts should be differents' in str(exc) and shared_anywhere \
            and fl['keep_score'] and not fl['allow_override']:
        # the two scores do share a part name, only not before their common end: voice-leading mode gathers the parts of
        # the whole source, so the documented clash error is raised there too.  "Parts should be different between the
        # scores" is the stated precondition of keep_score; refusing such a pair is inside it (false alarm seen in a
        # thorough run, on a stretched input)
        return None
    if isinstance(exc, IndexError) and fl['keep_pitch']:
        # keep_pitch starts with to_absolute_note: a relative note that leaves the +-10 octave window of the pitch table
        # raises IndexError there, exactly as rendering the source does (C09's stated error branch) - nothing is claimed
        # about a source that cannot be rendered (false alarm seen in a thorough run: cu8.oabs(1) chains)
        try:
            sp = sound.spec_sound(src)
            in_window = all(-108 <= p <= 107 for evs in sp.values() for p, _o, _d, _v in evs)
        except IndexError:
            in_window = False
        if not in_window:
            return None
    if exc is not None:
        return {'observed': f'{type(exc).__name__}: {exc}', 'expected': 'a score'}
    from musiclang import Score
    if not isinstance(res, Score):
        return {'observed': type(res).__name__, 'expected': 'Score'}
    return None


def check_duration(inp):
    """the result lasts the shorter of the two durations"""
    src, tgt, fl = load(inp)
    D = min(Fraction(src.duration), Fraction(tgt.duration))
    res, exc = run(src, tgt, fl)
    if exc is not None or res is None:
        return None
    got = Fraction(res.duration)
    if got == D:
        return None
    out = {'observed': frac_str(got), 'expected': frac_str(D)}
    if fl['keep_score']:
        # narrower class: the kept target parts are not cut, so the last chord lasts as long as the target's
        bt = bounds(tgt)
        K = len(res.chords)
        proj = {p for c in src.chords for p in c.score}
        longest = max((sum((Fraction(n.duration) for c in res.chords for n in (c.score[p].notes if p in c.score else [])),
                           Fraction(0)) for p in proj), default=Fraction(0))
        if Fraction(src.duration) < Fraction(tgt.duration) and D not in bt and got == bt[K] and longest <= D:
            out['corner'] = True
    return out


def check_rhythm(inp):
    """every source part keeps onsets and sounding durations (and, plain projection without pitch keeping, the
    written symbols and dynamics) up to the common end"""
    src, tgt, fl = load(inp)
    D = min(Fraction(src.duration), Fraction(tgt.duration))
    res, exc = run(src, tgt, fl)
    if exc is not None or res is None:
        return None
    symbols = (not fl['voice_leading']) and (not fl['keep_pitch'])
    exp = clip(sym_events(src, symbols), D)
    got = sym_events(res, symbols)
    tparts = set(sound.part_names(tgt)) if fl['keep_score'] else set()
    bad = [p for p in exp if p not in tparts if got.get(p, []) != exp[p]]   # shared names: see check_keep_score
    extra = [p for p in got if p not in exp and p not in tparts]
    if not bad and not extra:
        return None
    return {'observed': {p: [str(x) for x in got.get(p, [])][:8] for p in bad + extra},
            'expected': {p: [str(x) for x in exp.get(p, [])][:8] for p in bad + extra}}


def check_sound(inp):
    """keep_pitch: the result sounds exactly like the source (up to the common end)"""
    src, tgt, fl = load(inp)
    if not fl['keep_pitch'] or not referenced(src):
        return None
    D = min(Fraction(src.duration), Fraction(tgt.duration))
    res, exc = run(src, tgt, fl)
    if exc is not None or res is None:
        return None
    exp = clip_sound(sound.spec_sound(src), D)
    try:
        got = sound.impl_sound(res)
    except Exception as e:  # noqa
        return {'observed': f'rendering raises {type(e).__name__}: {e}', 'expected': 'renders'}
    tparts = set(sound.part_names(tgt)) if fl['keep_score'] else set()
    bad = [p for p in exp if p not in tparts if got.get(p, []) != exp[p]]   # shared names: see check_keep_score
    if not bad:
        return None
    return {'observed': {p: [str(x) for x in got.get(p, [])][:8] for p in bad},
            'expected': {p: [str(x) for x in exp[p]][:8] for p in bad}}


def notation(m):
    return [(n.type, int(n.val), int(n.octave), frac_str(n.duration), n.mode, n.accident,
             (n.amp if n.type not in ('r', 'l') else None), tuple(sorted(n.tags))) for n in m.notes]


def check_keep_score(inp):
    """keep_score: in every result chord all parts of the target's chord are there, unchanged, beside the projected
    ones, which are those of the projection without keep_score"""
    src, tgt, fl = load(inp)
    if not fl['keep_score']:
        return None
    res, exc = run(src, tgt, fl)
    if exc is not None or res is None:
        return None
    base, exc = run(src, tgt, dict(fl, keep_score=False))
    if exc is not None or base is None:
        return None
    if len(res.chords) != len(base.chords):
        return {'observed': f'{len(res.chords)} chords', 'expected': f'{len(base.chords)} chords'}
    for k, (c, b, t) in enumerate(zip(res.chords, base.chords, tgt.chords)):
        exp = {p: m for p, m in t.score.items()}
        exp.update(b.score)
        if sorted(c.score.keys()) != sorted(exp.keys()):     # the order of the parts is not part of the claim
            return {'observed': f'chord {k}: parts {sorted(c.score.keys())}', 'expected': f'chord {k}: parts {sorted(exp.keys())}'}
        for p in exp:
            if notation(c.score[p]) != notation(exp[p]):
                who = 'target' if (p in t.score and p not in b.score) else 'projected'
                return {'observed': f'chord {k}: {who} part {p} = {c.score[p]}', 'expected': f'chord {k}: {p} = {exp[p]}',
                        'who': who}
    return None


def check_keep_score_sound(inp):
    """keep_score: the kept target parts sound as in the target (weaker than `keep_score`; used to classify)"""
    src, tgt, fl = load(inp)
    if not fl['keep_score']:
        return None
    res, exc = run(src, tgt, fl)
    if exc is not None or res is None:
        return None
    K = len(res.chords)
    from musiclang import Score
    tk = Score([c.copy() for c in tgt.chords[:K]])
    if not sound.well_referenced(tk):
        return None
    exp = sound.spec_sound(tk)
    got = sound.impl_sound(res)
    sp = set(sound.part_names(src))
    bad = [p for p in exp if p not in sp and got.get(p, []) != exp[p]]
    if not bad:
        return None
    return {'observed': {p: [str(x) for x in got.get(p, [])][:8] for p in bad},
            'expected': {p: [str(x) for x in exp[p]][:8] for p in bad}}


def check_entry(inp):
    """the same projection reached through the other public entry points gives the same score: a one-chord source
    through Chord.project_on_score, a one-chord target given as a Chord, flags given positionally
    (seed C13-6: the Chord wrapper stopped forwarding keep_score)"""
    src, tgt, fl = load(inp)
    res, exc = run(src, tgt, fl)
    ref = f'ERR:{type(exc).__name__}' if exc is not None else str(res)
    outs = {}
    if len(src.chords) == 1:
        outs['Chord.project_on_score'] = py_res(lambda: str(src.chords[0].project_on_score(tgt, **fl)))
    if len(tgt.chords) == 1:
        outs['target given as a Chord'] = py_res(lambda: str(src.project_on_score(tgt.chords[0], **fl)))
    outs['flags positional'] = py_res(lambda: str(src.project_on_score(tgt, fl['keep_pitch'], fl['voice_leading'], fl['keep_score'],
                                                                       fl['repeat_to_duration'], fl['allow_override'])))
    for how, got in outs.items():
        if got.startswith('ERR:') and ref.startswith('ERR:'):
            continue
        if got != ref:
            return {'observed': {how: got[:500]}, 'expected': ref[:500]}
    return None


ORACLES = {'total': check_total, 'chords': check_chords, 'duration': check_duration, 'rhythm': check_rhythm,
           'sound': check_sound, 'keep_score': check_keep_score, 'keep_score_sound': check_keep_score_sound,
           'entry': check_entry}


def mode_key(fl):
    return ('vl' if fl['voice_leading'] else 'plain') + (',keep_pitch' if fl['keep_pitch'] else '') + \
        (',keep_score' if fl['keep_score'] else '') + (',override' if fl['keep_score'] and fl['allow_override'] else '')


def evaluate(ctx, inp, ft=None):
    try:
        src, tgt, fl = load(inp)
    except Exception:
        return
    if fl.get('repeat_to_duration') or not in_domain(src, tgt):
        return
    ft = ft if ft is not None else features(src, tgt)
    mk = mode_key(fl)
    for name in ('total', 'chords', 'duration', 'rhythm', 'sound', 'keep_score', 'entry'):
        if name == 'sound' and not fl['keep_pitch']:
            continue
        if name == 'entry' and len(src.chords) > 1 and len(tgt.chords) > 1 and hash(inp['src']) % 4:
            continue
        if name == 'keep_score' and not fl['keep_score']:
            continue
        ctx.count('oracle', key=name + inp['src'] + inp['tgt'] + mk, bucket=[name, mk] + ft,
                  nontrivial=any(k in ft for k in ('misaligned', 'absent', 'src<tgt', 'src>tgt')))
        try:
            r = ORACLES[name](inp)
        except Exception as e:  # noqa
            r = {'observed': f'oracle crashed: {type(e).__name__}: {e}', 'expected': 'an evaluation'}
        if not r:
            continue
        sig = f'{name}:{mk}'
        if name == 'duration' and r.get('corner'):
            sig = 'duration:keep_score,source-ends-inside-target-chord'
        if name == 'keep_score' and fl['keep_pitch'] and r.get('who') == 'target':
            # the kept target parts are re-notated by the final to_scale_notes(); same sound -> narrower class
            try:
                same_sound = check_keep_score_sound(inp) is None
            except Exception:
                same_sound = False
            sig = 'keep_score:keep_pitch-renotates-target-parts' if same_sound else 'keep_score:keep_pitch-changes-target-sound'
        ctx.fail(sig, inp, r['observed'], r['expected'], oracle=name)


def small_inputs():
    """enumerated small cases: one or two source chords x targets whose boundaries fall before / on / after the
    source's, in other keys"""
    srcs = ['(I % I.M)(piano__0=s0.h + s2.h)',
            '(I % I.M)(piano__0=s0.h + s2.h)+ (V % I.M)(piano__0=s1 + l + s4.h)',
            '(I % I.M)(piano__0=s0 + h3 + c1 + b1, violin__0=s4.w)+ (V % I.M)(piano__0=a2.h.o(1) + r.h)',
            '(I % I.M)(piano__0=s0.h, violin__0=s4.h)+ (IV % I.M)(piano__0=s1.h)+ (V % I.M)(piano__0=s2.h, violin__0=l.q + s3.q)',
            '(II % III.m)(piano__0=s0.q3 + s1.q3 + s2.q3 + su1.h)']
    tgts = ['(V % II.m)(cello__0=s0.w)', '(V % II.m)(cello__0=s0.q)+ (I % II.m)(cello__0=s0.hd)',
            '(IV % I.M.o(1))(cello__0=s0.hd)+ (I % V.m)(cello__0=s2.hd)',
            '(I % I.M)(cello__0=s0.h)+ (VI % I.lydian).o(-1)(cello__0=s0.h)+ (V % I.M)(cello__0=s0.w)+ (I % I.M)(cello__0=s0.w)',
            "(I['7'] % I.M)(cello__0=s0.q3, flute__0=c1.q3)+ (II['64'] % IV.mm)(flute__0=s1.qd)",
            '(V % II.m)(piano__0=s0.w)']
    for a in srcs:
        for b in tgts:
            for kp in (False, True):
                for vl in (False, True):
                    for ks in (False, True):
                        for ao in ((False, True) if ks else (False,)):
                            yield {'src': a, 'tgt': b, 'flags': {'keep_pitch': kp, 'voice_leading': vl, 'keep_score': ks,
                                                                   'repeat_to_duration': False, 'allow_override': ao}}


# witnesses of the two proved counter-examples (Props/C13.lean: project_duration_fails, keep_score_fails)
WITNESSES = [
    {'src': '(I % I.M)(piano__0=s0.h)', 'tgt': '(V % I.M)(cello__0=s2.hd)',
     'flags': {'keep_pitch': False, 'voice_leading': False, 'keep_score': True, 'repeat_to_duration': False, 'allow_override': False}},
    {'src': '(I % I.M)(piano__0=s0.h)', 'tgt': "(I['7'] % I.M)(flute__0=c1.h)",
     'flags': {'keep_pitch': True, 'voice_leading': False, 'keep_score': True, 'repeat_to_duration': False, 'allow_override': False}},
]


def oracle(ctx):
    rng = ctx.rng
    todo = list(WITNESSES)
    for st, i in ctx.suspects:
        if i and 'src' in i and 'tgt' in i and 'flags' in i and 'keep_pitch' in i['flags']:
            todo.append(i)
    todo += list(small_inputs())
    for _ in range(ctx.n(160, 5000)):
        src = rand_src(rng, equal_parts=True, ref=True)
        tgt = rand_tgt(rng, clash=(rng.random() < 0.1))
        fl = flag_sets(rng)
        fl['repeat_to_duration'] = False
        todo.append({'src': str(src), 'tgt': str(tgt), 'flags': fl})
    for inp in todo:
        evaluate(ctx, inp)
