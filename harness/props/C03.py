"""C03 — rendering a score yields exactly its sounding notes at the right times."""
import sys
sys.dont_write_bytecode = True
from fractions import Fraction
import core, gen, sound
from core import sx, enc_score, py_res, frac_str

ID = 'C03'
LEAN_MODULES = ['MV.Props.C03']
LEAN_HELPERS = ['MV.Lemmas.Events', 'MV.Model.Render', 'MV.Model.Pitch', 'MV.Model.Rel', 'MV.Model.Basic']
DRIVERS = ['C03']
GEN = ['Tables', 'Library']
SRC_TIE = ['SrcRender', 'SrcDur']   # py2lean source images of note_to_pitch / melody_to_pitches proved equal to the model
RULE = ('random scores: 1-4 chords, 1-3 parts of unequal lengths, parts absent from some chords, rests and '
        'continuations anywhere (incl. first position and after absences), relative notes, drums, all note systems, '
        'dynamics; streams: note matrix (get_notes) and to_events for tempi 30/60/90/120/7/121; non-trivial = at '
        'least one continuation, rest, absent part or relative note; distinct = distinct score text')
TRUSTED = ['hand-written model of to_midi.py (MV/Model/Render.lean) tied by the streams notes/events',
           'ornament tags are not rendered by this model (C16); the harness sends untagged notes',
           'float seconds are compared as the exact rationals they round (denominator <= 10^6)']
ASSUMPTIONS = ['durations with denominators <= 1000', 'relative notes without any reference use pitch 0 as the code does '
               '(outside the oracle: it only generates referenced relative notes)']
TEMPI = [30, 60, 90, 120, 7, 121]


def show_rows(rows):
    return '(' + ' '.join(f'({int(r[0])} {frac_str(r[1])} {frac_str(r[2])} {frac_str(Fraction(*r[3].as_integer_ratio()) if isinstance(r[3], float) else r[3])} {int(r[4])} {int(bool(r[5]))} {int(bool(r[6]))})'
                          for r in rows) + ')'


def canon_events(score):
    from musiclang.write.out.to_midi import get_track_list
    names = [t.split('__')[0] for t in get_track_list(score)]

    def f(out):
        evs = core.parse_sx(out)
        return str(sorted((names[int(e[4])], int(e[0]), core.to_frac(e[1]), core.to_frac(e[2]), int(e[3])) for e in evs))
    return f


def rand_score(ctx, referenced=False):
    rng = ctx.rng
    kinds = gen.NONREL + ['d'] + (gen.REL if rng.random() < 0.6 else [])
    for _ in range(200):
        s = gen.rand_score(rng, n_chords=(1, 4), parts=('piano__0', 'violin__0', 'piano__1')[:rng.randint(1, 3)],
                           p_absent=0.25, kinds=kinds, p_rest=0.2, p_cont=0.25, vals=(0, 8), octs=(-1, 1), p_amp=0.4)
        if not referenced or sound.well_referenced(s):
            break
    if rng.random() < 0.2:        # arbitrary amplitudes 1..127, not only the nine dynamics figures (seed C03-4)
        for c in s.chords:
            for m in c.score.values():
                for n in m.notes:
                    if n.type not in ('r', 'l') and rng.random() < 0.4:      # a rest / continuation has no amplitude of its own
                        n.amp = rng.choice([1, 20, 66, 115, 119, 120, 121, 124, 126, 127, rng.randint(1, 127)])
    if rng.random() < 0.1:
        # durations with co-prime denominators (1/7, 1/11, 1/13, 1/9): each is inside the library's 1/1000 resolution but
        # their running sums are not, and an onset is such a sum - it must stay exact (seed C03-8 rounded the offsets of
        # the rendered rows to the resolution "like Note does")
        from fractions import Fraction
        for c in s.chords:
            for m in c.score.values():
                for n in m.notes:
                    if rng.random() < 0.6:
                        n.duration = Fraction(rng.randint(1, 3), rng.choice([7, 11, 13, 9]))
    return s


def features(s):
    f = []
    notes = [n for c in s.chords for m in c.score.values() for n in m.notes]
    if any(n.type == 'l' for n in notes):
        f.append('cont')
    if any(n.type == 'r' for n in notes):
        f.append('rest')
    if any(n.is_relative for n in notes):
        f.append('relative')
    if any(n.type == 'd' for n in notes):
        f.append('drum')
    names = sound.part_names(s)
    if any(p not in c.score for c in s.chords for p in names):
        f.append('absent')
    if any(len({sum(n.duration for n in m.notes) for m in c.score.values()}) > 1 for c in s.chords):
        f.append('unequal')
    return f


def correspondence(ctx):
    from musiclang.write.out.to_midi import get_notes
    cases, cases2 = [], []
    for _ in range(ctx.n(700, 8000)):
        s = rand_score(ctx)
        enc = enc_score(s)
        ft = features(s)
        text = str(s)
        cases.append({'line': sx('notes', enc), 'impl': py_res(lambda: get_notes(s), show_rows), 'input': {'score': text, 'amps': sound.amps_of(s)},
                      'bucket': ft + [f'chords={len(s.chords)}'], 'nontrivial': bool(ft), 'key': text})
        tempo = ctx.rng.choice(TEMPI)
        cases2.append({'line': sx('events', enc, tempo), 'impl': py_res(lambda: str(sound.impl_events(s, tempo))),
                       'canon': canon_events(s), 'input': {'score': text, 'tempo': tempo, 'amps': sound.amps_of(s)},
                       'bucket': ft + [f'tempo={tempo}'], 'nontrivial': bool(ft), 'key': text + str(tempo)})
    ctx.compare('notes', 'C03', cases)
    ctx.compare('events', 'C03', cases2)
    # kernel-level streams of the source tie (DESIGN §9.6)
    import srctie
    srctie.run(ctx, SRC_TIE)


def load(inp):
    return sound.load_score(inp['score'], inp.get('amps'), plain=bool(inp.get('plain_rests')))


def in_window(s):
    """False when a relative note leaves the +-10 octave window of the implementation (C09's stated error
    branch: the library raises IndexError there, nothing is claimed about the rendering)"""
    try:
        sp = sound.spec_sound(s)
    except IndexError:
        return False
    return all(-120 <= p < 120 for evs in sp.values() for (p, _, _, _) in evs)


TEMPO_KINDS = ['int', 'int', 'float', 'fraction', 'npint', 'npfloat']


def tempo_arg(tempo, kind):
    """the same constant tempo handed over as another kind of number (seed C03-6 replaced every tempo that is not an
    `int` / `float` instance by 120)"""
    from fractions import Fraction
    import numpy as np
    return {'int': lambda: tempo, 'float': lambda: float(tempo), 'fraction': lambda: Fraction(tempo),
            'npint': lambda: np.int64(tempo), 'npfloat': lambda: np.float64(tempo)}[kind or 'int']()


def check_events(inp):
    s = load(inp)
    tempo = inp['tempo']
    if not in_window(s):
        return None
    got = sound.impl_events(s, tempo_arg(tempo, inp.get('tempo_kind')))
    exp = sound.spec_events(s, tempo)
    if got == exp:
        return None
    return {'observed': [str(x) for x in got if x not in exp][:6], 'expected': [str(x) for x in exp if x not in got][:6]}


def check_matrix(inp):
    s = load(inp)
    if not in_window(s):
        return None
    got = sound.impl_sound(s)
    exp = sound.spec_sound(s)
    if got == exp:
        return None
    bad = [p for p in exp if got.get(p) != exp[p]]
    return {'observed': {p: [str(x) for x in got.get(p, [])][:8] for p in bad}, 'expected': {p: [str(x) for x in exp[p]][:8] for p in bad}}


ORACLES = {'events': check_events, 'matrix': check_matrix}

WITNESSES = [
    # D2 (fixed): a tied note at a tempo other than 60
    {'score': '(I % I.M)(piano__0=s0.h + l.h + s1)', 'tempo': 120},
    {'score': '(I % I.M)(piano__0=l + s0 + r + l + s1.e + l.e)+ (V % I.M)(piano__0=l.h + su1, violin__0=s4.o(1))', 'tempo': 90},
]


def oracle(ctx):
    todo = list(WITNESSES)
    for st, i in ctx.suspects:
        if i and 'score' in i:
            todo.append({'score': i['score'], 'tempo': i.get('tempo', 120), 'amps': i.get('amps')})
    for _ in range(ctx.n(500, 6000)):
        s = rand_score(ctx, referenced=True)
        todo.append({'score': str(s), 'tempo': ctx.rng.choice(TEMPI), 'amps': sound.amps_of(s),
                     'tempo_kind': ctx.rng.choice(TEMPO_KINDS), 'plain_rests': ctx.rng.random() < 0.3})
    for inp in todo:
        try:
            s = load(inp)
        except Exception:
            continue
        if not sound.well_referenced(s):
            continue
        if not in_window(s):
            ctx.count('oracle', key='oow' + inp['score'], bucket='out-of-window (skipped)', nontrivial=False)
            continue
        ft = features(s)
        for name in ('events', 'matrix'):
            ctx.count('oracle', key=name + inp['score'] + str(inp['tempo']), bucket=[name] + ft, nontrivial=bool(ft))
            try:
                r = ORACLES[name](inp)
            except Exception as e:
                r = {'observed': f'{type(e).__name__}: {e}', 'expected': 'rendering succeeds'}
            if r:
                ctx.fail(f'{name}:' + '+'.join(ft), inp, r['observed'], r['expected'], oracle=name)
