"""C15 — roman-numeral annotations parse to the right chords at the right times."""
import sys, io, contextlib
sys.dont_write_bytecode = True
from fractions import Fraction
import core
from core import sx, py_res, show_ints, frac_str, SX

ID = 'C15'
LEAN_MODULES = ['MV.Props.C15', 'MV.Props.C15Figures']
LEAN_HELPERS = ['MV.Lemmas.Roman', 'MV.Model.Roman', 'MV.Model.Pitch', 'MV.Model.Rel', 'MV.Model.Basic',
                'MV.Model.Types']
DRIVERS = ['C15']
GEN = ['Tables', 'Library', 'Roman']
SRC_TIE = ['SrcRoman']   # py2lean source images of the clock (duration, set_time_signature, set_bar_number, set_current_beat, Beat.get_real_value, the element parse methods, add_chord) and of analyze_one_chord proved equal to the model (MV/Props/TieSrcRoman.lean)
RULE = ('roman: generated annotations (10 time signatures, first bar m0/m1/m5/other, indented or not, with or '
        'without a time-signature line, pickups, skipped bar numbers, `var` lines, repeated bars `mA = mB` and '
        '`mA-B = mC-D`, key changes, figures drawn from diatonic / applied / altered / special / invalid pools) plus '
        'a malformed stream; figure: keys of DICT_RELATIVE_CHANGE x extension spellings x secondary figures x 12 keys '
        'x modes; tonality / beat / limit: the small readers. A roman case is non-trivial when it yields at least two '
        'chords; distinct = distinct request line')
TRUSTED = ['the model of ScoreFormatter / score_formatter_elements / roman_parser is hand-written '
           '(MV/Model/Roman.lean) and tied to the code by the streams roman / lex / figure / tonality / beat / limit',
           'Score.normalize_instruments (called at the end of parse) is taken to keep chords and durations; checked '
           'by the roman stream on every case',
           'Python re (findall of the three bracket groups, DEGREE_REGEX.match): modelled by hand-written matchers, '
           'the pattern text is pinned by theorem degree_regex_pinned']
ASSUMPTIONS = ['event lines (!voicing, !instruments, !rhythm, !voice_leading, !counterpoint) are outside the model',
               'floats: 4*n/d, float(beat label) and duration - current_beat are modelled by exact rationals; '
               'this is exact when the denominator of the signature is a power of two and the label is a short decimal',
               'int()/float() literals are plain ASCII digits (no sign, underscore, exponent)',
               'beat unit: dotted quarter in 6/8, half note in 2/2, quarter note otherwise (the library\'s '
               'CONVENTION_DICT); 3/8, 9/8, 12/8 therefore count quarter notes - recorded, not claimed as a defect',
               'diatonic minor = harmonic minor (i, iio, III+, iv, V, VI, viio; sevenths iM7.. as stacked thirds)']

SIGNATURES = [(4, 4), (3, 4), (2, 4), (6, 4), (3, 8), (6, 8), (9, 8), (12, 8), (2, 2), (5, 4)]


def enc_text(t):
    return SX('(' + ' '.join(str(ord(c)) for c in t) + ')')


@contextlib.contextmanager
def quiet():
    buf = io.StringIO()
    with contextlib.redirect_stdout(buf):
        yield buf

# ----------------------------------------------------------------------------- real code, canonical


def show_chord(c):
    return f'{int(c.element)} "{c.extension}" {int(c.tonality.degree)} {c.tonality.mode}'


def show_score(score):
    ts = score.config['time_signature']
    chords = ' '.join(f'({show_chord(c)} {frac_str(c.duration)})' for c in score.chords)
    return f'ts={int(ts[0])}/{int(ts[1])} pickup={frac_str(score.config["pickup"])} chords=[{chords}]'


def impl_parse(text):
    from musiclang.analyze.score_formatter import ScoreFormatter
    with quiet():
        return py_res(lambda: ScoreFormatter(text).parse(), show_score)


def show_elem(e):
    n = type(e).__name__
    if n == 'TimeSignature':
        return f'TS({e.num},{e.den})'
    if n == 'TonalityLine':
        return f'TonLine({e.tonality})'
    if n == 'BarLine':
        return f'Bar({int(e.idx)})'
    if n == 'Beat':
        return f'Beat({e.value})'
    if n == 'CurrentTonality':
        return f'Ton({int(e.key)},{e.mode})'
    if n == 'BarChord':
        return f'Chord({e.text})'
    return 'Event'


def impl_lex(text):
    from musiclang.analyze.score_formatter import ScoreFormatter
    with quiet():
        return py_res(lambda: ScoreFormatter(text).elements, lambda els: ' '.join(show_elem(e) for e in els))


def impl_figure(fig, key, mode):
    from musiclang.analyze.roman_parser import analyze_one_chord
    from musiclang import Chord, Tonality
    try:
        d, e, k, m = analyze_one_chord(fig, key, mode)
    except Exception as ex:  # noqa
        return 'ERR:' + core.canon_err(ex)
    head = f'{int(d)} "{e}" {int(k)} {m}'
    try:
        c = Chord(d, tonality=Tonality(k, m))[e]
    except Exception as ex:  # noqa
        return head + ' chord=ERR:' + core.canon_err(ex)
    return head + f' chord="{c.extension}" pitches=' + py_res(lambda: c.chord_extension_pitches, show_ints)


def impl_tonality(text):
    from musiclang.analyze.score_formatter_elements import CurrentTonality
    return py_res(lambda: CurrentTonality(text), lambda c: f'{int(c.key)} {c.mode}')


class _Parent:
    def __init__(self, ts):
        self.time_signature = ts

    @property
    def duration(self):
        return 4 * self.time_signature[0] / self.time_signature[1]


def impl_beat(text, ts):
    from musiclang.analyze.score_formatter_elements import Beat
    return py_res(lambda: Beat(text).get_real_value(_Parent(ts)), frac_str)

# ----------------------------------------------------------------------------- music theory (independent of the library)


MAJ = [0, 2, 4, 5, 7, 9, 11]
MINH = [0, 2, 3, 5, 7, 8, 11]
NUMERALS = ['I', 'II', 'III', 'IV', 'V', 'VI', 'VII']
TRIAD_FIGS = ['', '6', '64']
SEVENTH_FIGS = ['7', '65', '43', '2']


def stacked(scale, deg, n):
    """intervals above the root of the chord of n stacked thirds on degree deg"""
    root = scale[deg]
    return [(scale[(deg + 2 * i) % 7] - root) % 12 for i in range(n)]


MINN = [0, 2, 3, 5, 7, 8, 10]


def natural_minor_figures():
    """the figures of a minor key that only exist in NATURAL minor (upper-case III and VII with all their
    inversions and sevenths, the minor dominant triad v): (figure, degree, intervals, inversion).  Added after the
    seeded change C15-1 (subtonic seventh chord) went unnoticed: harmonic minor alone never exercises `VII7`.
    `i7` / `v7` are left out on purpose: the library reads them with the harmonic-minor leading tone (see DESIGN)."""
    out = []
    for fig, deg, iv, inv in diatonic_figures('minor', scale=MINN):
        if deg in (2, 6) or (deg == 4 and len(iv) == 3):
            out.append((fig, deg, iv, inv))
    return out


def diatonic_figures(mode, scale=None):
    """[(figure text, degree, intervals above the root, inversion)] for the 7 triads x 3 and 7 sevenths x 4;
    the figure name is derived from the chord quality by the standard rules"""
    scale = scale or (MAJ if mode == 'major' else MINH)
    out = []
    for deg in range(7):
        tri = stacked(scale, deg, 3)
        sev = stacked(scale, deg, 4)
        num = NUMERALS[deg] if tri[1] == 4 else NUMERALS[deg].lower()
        suffix = 'o' if tri[1:] == [3, 6] else '+' if tri[1:] == [4, 8] else ''
        for inv, f in enumerate(TRIAD_FIGS):
            out.append((num + suffix + f, deg, tri, inv))
        suffix7 = 'ø' if (suffix == 'o' and sev[3] == 10) else suffix
        for inv, f in enumerate(SEVENTH_FIGS):
            out.append((num + suffix7 + f, deg, sev, inv))
    return out


KEY_NAMES = {
    'major': {0: ['C'], 1: ['C#', 'Db', 'D-'], 2: ['D'], 3: ['Eb', 'E-', 'D#'], 4: ['E'], 5: ['F'], 6: ['F#', 'Gb'], 7: ['G'],
              8: ['Ab', 'A-', 'G#'], 9: ['A'], 10: ['Bb', 'B-'], 11: ['B', 'Cb']},
    'minor': {0: ['c'], 1: ['c#', 'db'], 2: ['d'], 3: ['eb', 'e-', 'd#'], 4: ['e'], 5: ['f'], 6: ['f#', 'gb'], 7: ['g'],
              8: ['g#', 'ab', 'a-'], 9: ['a'], 10: ['bb', 'b-', 'a#'], 11: ['b']},
}


def expected_chord(key, mode, deg, intervals, inv, natural=False):
    scale = MAJ if mode == 'major' else (MINN if natural else MINH)
    root = (key + scale[deg]) % 12
    return sorted((root + i) % 12 for i in intervals), (root + intervals[inv]) % 12

# ----------------------------------------------------------------------------- annotation generator


def grid(ts):
    """[(label text, position in quarter notes)] of the beat labels a well-formed annotation may use in ts,
    by the beat-unit convention (ASSUMPTIONS), computed without the library"""
    n, d = ts
    L = Fraction(4 * n, d)
    unit = Fraction(3, 2) if ts == (6, 8) else Fraction(2) if ts == (2, 2) else Fraction(1)
    subs = [('', Fraction(0)), ('.5', Fraction(1, 2)), ('.25', Fraction(1, 4)), ('.75', Fraction(3, 4)),
            ('.33', Fraction(1, 3)), ('.66', Fraction(2, 3)), ('.67', Fraction(2, 3))]
    out = []
    k = 0
    while k * unit < L:
        for lab, f in subs:
            pos = (k + f) * unit
            if pos < L:
                out.append((f'b{k + 1}{lab}', pos))
        k += 1
    return out


APPLIED = ['V/V', 'V7/V', 'V65/ii', 'viio7/V', 'V7/vi', 'V/IV', 'viio/ii', 'V7/iv', 'V43/V', 'V7/V/V', 'iiø7/V',
           'V2/IV', 'viio65/vi', 'V7/III', 'V/iii']
ALTERED = ['bII', 'bII6', 'bVI', 'bVII', 'bIII', '#ivo7', '#ivø7', 'N', 'N6', 'Ger', 'Ger65', 'Ger6', 'It', 'It6', 'Fr', 'Fr43',
           'Fr6', 'Cad', 'Cad64', 'V7[sus4]', 'V7[sus2]', 'Isus4', 'V[add9]', 'Vadd9', 'I[add6]', 'V7b9', 'V9', 'V7[b9]',
           'IM7', 'Imaj7', 'V+', 'III+', 'III+6', 'V7[no5]', 'I[no3]', 'viio7', 'viiø7', 'iiø65', 'V42', 'V4/3', 'I6/4',
           'V6/5', 'V[b5]', 'ii%7', 'vii/o7', 'V11', 'V13', 'I5']
INVALID = ['I53', 'X', 'H7', 'V99', 'V7[foo]', 'Q', '7', 'I8', 'IV(', 'V7/X', 'b', '#', 'o7', 'V7[sus2', 'VI/V/V/V', 'Ifoo']


def rand_key_token(rng):
    mode = rng.choice(['major', 'minor'])
    pc = rng.randrange(12)
    return rng.choice(KEY_NAMES[mode][pc]) + ':', pc, mode


def rand_figure(rng, mode, p_invalid=0.0):
    x = rng.random()
    if x < p_invalid:
        return rng.choice(INVALID)
    if x < 0.6:
        return rng.choice(diatonic_figures(mode))[0]
    if x < 0.8:
        return rng.choice(APPLIED)
    return rng.choice(ALTERED)


def rand_annotation(rng, wellformed=True, p_invalid=0.0):
    """a structured annotation and its text.  struct = dict(ts, first, bars=[(number, [(label, pos, figure)])],
    explicit_ts, indent); with wellformed every chord symbol sits at its own, increasing position."""
    ts = rng.choice(SIGNATURES) if rng.random() < 0.9 else rng.choice([(7, 8), (3, 2), (5, 8), (4, 2)])
    explicit_ts = ts != (4, 4) or rng.random() < 0.7
    if not explicit_ts:
        ts = (4, 4)
    first = rng.choice([0, 1, 1, 0, 5, rng.randint(2, 40)])
    indent = rng.choice(['', '', '  ', '    ', '\t', '\t  '])
    g = grid(ts)
    nbars = rng.randint(1, 6)
    lines = []
    if explicit_ts:
        lines.append(rng.choice(['Time Signature: ', 'Time Signature : ', 'Time signature: ', 'time signature: '])
                     + f'{ts[0]}/{ts[1]}')
    if rng.random() < 0.15:
        lines.insert(0, rng.choice(['Composer: J.S. Bach', 'Note: generated', '']))
    key_tok, key_pc, mode = rand_key_token(rng)
    tonality_line = rng.random() < 0.15
    if tonality_line:
        lines.append(rng.choice(['Tonality : ', 'tonality: ', 'Key: ']) + key_tok[:-1])
    bars = []
    num = first
    keys = []    # per chord symbol: (key pc, mode) in force
    for b in range(nbars):
        if b > 0:
            num += 1 if rng.random() < 0.9 else rng.randint(2, 3)
        if b > 0 and bars and rng.random() < 0.12:
            # repeat earlier bars
            span = rng.randint(1, min(2, len(bars)))
            src = rng.randrange(0, len(bars) - span + 1)
            srcbars = bars[src:src + span]
            if all(srcbars[i + 1][0] == srcbars[i][0] + 1 for i in range(span - 1)):
                a = num
                if span == 1:
                    lines.append(rng.choice([f'm{a} = m{srcbars[0][0]}', f'm{a}=m{srcbars[0][0]}']))
                else:
                    lines.append(f'm{a}-{a + span - 1} = m{srcbars[0][0]}-{srcbars[-1][0]}')
                for i, (_, items, toks) in enumerate(srcbars):
                    bars.append((a + i, items, toks))
                num = a + span - 1
                continue
        k = rng.randint(1, min(4, len(g)))
        idxs = sorted(rng.sample(range(len(g)), k))
        # distinct positions only (b2.66 and b2.67 coincide)
        chosen = []
        for i in idxs:
            if not chosen or g[i][1] > chosen[-1][1]:
                chosen.append(g[i])
        if b > 0 or rng.random() < 0.7:
            chosen[0] = ('', Fraction(0)) if rng.random() < 0.7 else ('b1', Fraction(0))   # downbeat
        elif chosen[0][1] == 0:
            chosen[0] = ('', Fraction(0))
        items = []
        toks = []
        for j, (lab, pos) in enumerate(chosen):
            if lab:
                toks.append(lab)
            if (b == 0 and j == 0 and not tonality_line) or rng.random() < 0.08:
                if not (b == 0 and j == 0):
                    key_tok, key_pc, mode = rand_key_token(rng)
                toks.append(key_tok)
            fig = rand_figure(rng, mode, p_invalid)
            toks.append(fig)
            items.append((lab, pos, fig, key_pc, mode))
        bars.append((num, items, toks))
        lines.append(f'm{num} ' + ' '.join(toks))
        if rng.random() < 0.08:
            lines.append(f'm{num}var1 ' + rand_figure(rng, mode))
        if rng.random() < 0.05:
            lines.append(rng.choice(['', 'Note: something', '% comment']))
    text = '\n'.join(indent + l for l in lines)
    if indent and rng.random() < 0.5:
        text = '\n' + text + '\n' + indent
    struct = {'ts': list(ts), 'first': first,
              'valid_figures': not any(fig in INVALID for _, items, _ in bars for _l, _p, fig, _k, _m in items),
              'bars': [[n, [[lab, frac_str(pos), fig, kp, md] for lab, pos, fig, kp, md in items]] for n, items, _ in bars]}
    return text, struct


MALFORMED = [
    '', 'm', 'm1', 'mx C: I', 'm1 C: I\nmx V\nmx I', 'm1 b', 'm1 C: I b', 'Time Signature 4/4\nm1 C: I', 'Time Signature: 4\nm1 C: I',
    'Time Signature: 4/0\nm1 C: I b2 V', 'Time Signature: 0/4\nm1 C: I b2 V', 'Time Signature: a/4\nm1 C: I',
    'm1 C: I\nm2 = m9', 'm1 C: I\nm2-3 = m1', 'm1 C: I\nm2 = m1 = m1', 'm1 C: I\nm2 = m1\nm2 V', 'm2 C: I\nm1 V', 'm1 H: I',
    'm1 C: I\nm3 V\nm2 IV', 'm1 C: I I I', 'm1 C: I b1 V', 'm1 C: I b5 V\nm2 I', 'm1 C: I b7 V\nm2 I', 'm1 C: X', 'm1 C: X b3 Y',
    'Tonality: c\nm1 i', 'Tonality c\nm1 i', 'Key: Q\nm1 i', 'm1 I', 'm1 b3 C: V\nm2 I', 'mfoo C: I', 'm1var2 C: I\nm1 V',
    'm1 C: I b2.5.5 V', 'm1 C: I bx V', 'm1 C: I b2x V', 'm1 Cx: I', 'm-1 C: I', 'm1 C: I\nm1-1 = m1-1', 'm1 C: I\n\n\nm4 V',
    'Time Signature: 3/4\nm1 C: I\nTime Signature: 4/4\nm2 V b3 I', 'Time Signature: 2/2\nm0 C: I\nTime Signature: 3/4\nm1 b3 V7',
    'Time Signature: 6/8\nm1 C: I b1.66 V7\nTime Signature: 2/2\nm2 I b1.5 V', 'm1 C: I\nTime Signature: 3/4\nm2 V',
    'Time Signature: 3/64\nm1 C: I b1.01 V\nm2 I', 'Time Signature: 4/4\nm1 C: I b1.0625 V b1.3 I', 'm1 C: I   b3  V',
    'm1 C: I b3 G: b3.5 I', 'm1 C: I | b3 V', 'm1 C: I ||', 'm0 C: I\nm0var1 c: III\nm0var2 c: III\nm1 I', 'm1 C: b2 I b2 V b2 vi',
    'Time Signature: 4/4\n\tm1 b: i b3 VI\n\tm2 bb: i', 'm1 cb: i', 'm1 C##: I', 'm1 : I', 'm1 CD: I', 'm10 C: I\nm11 V', 'm12 C: I\nm13 V',
]


def roman_cases(ctx, n, p_invalid=0.12):
    rng = ctx.rng
    out = []
    for _ in range(n):
        text, struct = rand_annotation(rng, p_invalid=p_invalid)
        out.append((text, struct))
    return out


def corr_case_parse(text, struct):
    impl = impl_parse(text)
    nch = impl.count('(') if impl.startswith('ts=') else 0
    b = [f'ts={struct["ts"][0]}/{struct["ts"][1]}' if struct else 'malformed',
         'indented' if text[:1] in (' ', '\t', '\n') else 'flush',
         f'first={"m0" if struct and struct["first"] == 0 else "m1" if struct and struct["first"] == 1 else "other"}',
         'err' if impl.startswith('ERR') else f'chords={min(nch, 9)}']
    return {'line': sx('parse', enc_text(text)), 'impl': impl, 'input': {'text': text, 'struct': struct},
            'bucket': b, 'nontrivial': nch >= 2}


FIG_EXTS = ['', '6', '64', '7', '65', '43', '2', '42', '4/3', '6/4', '6/5', '9', '11', '13', '5', '53', 'b9', '7b9', 'M7', 'maj7', '7[sus4]',
            'sus4', 'sus2', 'add9', '[add9]', '(+)', '+', '7(b5)', '7[b5]', '[no5]', 'no3', '7[no5][add9]', 'add#11', 'addb7', 'm7', 'b7',
            '66', '67', '62', '643', '7[no1]', '7ar', '8', '54', 'x']
FIG_SECS = ['', '', '', '/V', '/ii', '/IV', '/vi', '/bII', '/iii', '/V/V', '/V/ii', '/ii/IV', '/X', '/V/V/V', '/viio', '/Ger', '/']
FIG_MODES = ['major', 'minor', 'M', 'm']


def figure_cases(ctx, n_random):
    import musiclang.analyze.constants as C
    rng = ctx.rng
    degs = list(dict.fromkeys(list(C.DICT_RELATIVE_CHANGE['M']) + list(C.DICT_RELATIVE_CHANGE['m'])
                               + list(C.DICT_TONALITY['M']) + ['VIII', 'bbII', 'Q', '', 'o', 'ø', 'b|I', '#b#V']))
    cases = []
    # every table key once per mode with the plain triad and seventh figures
    for d in degs:
        for mode in ('major', 'minor'):
            for e in ('', '7', '6'):
                cases.append((d + e, rng.randrange(12), mode))
    for _ in range(n_random):
        fig = rng.choice(degs) + rng.choice(FIG_EXTS) + rng.choice(FIG_SECS)
        cases.append((fig, rng.randint(-2, 13), rng.choice(FIG_MODES)))
    for f in APPLIED + ALTERED + INVALID:
        cases.append((f, rng.randrange(12), rng.choice(['major', 'minor'])))
    return cases


def correspondence(ctx):
    rng = ctx.rng
    # --- roman: whole annotations
    cases = [corr_case_parse(t, None) for t in MALFORMED]
    cases += [corr_case_parse(t, s) for t, s in roman_cases(ctx, ctx.n(700, 12000))]
    ctx.compare('roman', 'C15', cases)
    # --- lex: the element list of the same kind of texts
    cases = []
    for text, struct in [(t, None) for t in MALFORMED] + roman_cases(ctx, ctx.n(150, 2000), p_invalid=0.2):
        if '!' in text:
            continue
        cases.append({'line': sx('lex', enc_text(text)), 'impl': impl_lex(text), 'input': {'text': text, 'struct': struct},
                      'bucket': 'lex', 'nontrivial': struct is not None})
    ctx.compare('lex', 'C15', cases)
    # --- figure
    cases = []
    for fig, key, mode in figure_cases(ctx, ctx.n(2500, 60000)):
        impl = impl_figure(fig, key, mode)
        cases.append({'line': sx('figure', enc_text(fig), key, mode), 'impl': impl,
                      'input': {'figure': fig, 'key': key, 'mode': mode},
                      'bucket': [f'mode={mode}', 'err' if impl.startswith('ERR') else 'chord-err' if 'chord=ERR' in impl else 'ok',
                                 f'parts={min(fig.count("/") + 1, 4)}'],
                      'nontrivial': not impl.startswith('ERR')})
    ctx.compare('figure', 'C15', cases)
    # --- tonality tokens
    cases = []
    toks = [k + ':' for m in KEY_NAMES.values() for ks in m.values() for k in ks]
    toks += ['', ':', 'b', 'bb', 'H:', 'Cx:', 'C#b:', 'c##:', 'CD:', 'cd:', 'Bbb:', 'b#:', 'B-:', 'EF', 'AB:', 'a:b', 'C:|', 'é:']
    alphabet = 'CDEFGABcdefgab#b-:'
    for _ in range(ctx.n(150, 1500)):
        toks.append(''.join(rng.choice(alphabet) for _ in range(rng.randint(1, 4))))
    for t in toks:
        cases.append({'line': sx('tonality', enc_text(t)), 'impl': impl_tonality(t), 'input': {'token': t},
                      'bucket': 'tonality', 'nontrivial': True})
    ctx.compare('tonality', 'C15', cases)
    # --- beat labels
    cases = []
    labels = sorted({lab for ts in SIGNATURES for lab, _ in grid(ts)} | {'b1.125', 'b2.0', 'b3.', 'b1.3', 'b1.0625', 'b9', 'b2.999', 'b1.01',
                                                                       'b0', 'b0.5', 'b10.5', 'b1.875', 'b2.2', 'b4.4', 'b1.6', 'b1.7'})
    for ts in SIGNATURES + [(7, 8), (3, 2), (5, 8), (4, 2), (3, 16), (3, 64), (0, 4), (4, 0)]:
        for lab in labels:
            cases.append({'line': sx('beat', enc_text(lab), ts[0], ts[1]), 'impl': impl_beat(lab, ts),
                          'input': {'label': lab, 'ts': list(ts)}, 'bucket': f'beat ts={ts[0]}/{ts[1]}', 'nontrivial': True})
    ctx.compare('beat', 'C15', cases)
    # --- limit_denominator
    cases = []
    for _ in range(ctx.n(600, 6000)):
        d = rng.choice([rng.randint(1, 40), rng.randint(1, 5000), 10 ** rng.randint(1, 6), 2 ** rng.randint(1, 50)])
        nmr = rng.randint(-3 * d, 12 * d)
        mx = rng.choice([8, 8, 1000, 1, 3, rng.randint(1, 50)])
        q = Fraction(nmr, d)
        cases.append({'line': sx('limit', q.numerator, q.denominator, mx),
                      'impl': frac_str(q.limit_denominator(mx)), 'input': {'n': q.numerator, 'd': q.denominator, 'max': mx},
                      'bucket': f'limit max={mx if mx in (1, 8, 1000) else "other"}', 'nontrivial': q.denominator > mx})
    ctx.compare('limit', 'C15', cases)
    # --- source tie: kernel-level streams of the translated clock functions (DESIGN §9.6)
    import srctie
    srctie.run(ctx, SRC_TIE)

# ----------------------------------------------------------------------------- oracles (the property itself)


def struct_valid(st):
    """no chord symbol of the structure comes from the INVALID pool"""
    return not any(item[2] in INVALID for _num, items in st['bars'] for item in items)


def check_timing(inp):
    """oracle `timing`: one chord per chord symbol, each starting at (bar - first) * L + position - pickup and lasting
    until the next symbol (the last one until the end of its bar); total = bars * L - pickup.  Everything expected is
    computed from the generator's structure, nothing from the library."""
    from musiclang.analyze.score_formatter import ScoreFormatter
    text, st = inp['text'], inp['struct']
    if not struct_valid(st):
        return None      # an unreadable figure is skipped by design; the property is about readable symbols
    n, d = st['ts']
    L = Fraction(4 * n, d)
    symbols = [(num, Fraction(pos)) for num, items in st['bars'] for _lab, pos, _fig, _k, _m in items]
    first_bar = symbols[0][0]
    pickup = symbols[0][1]
    last_bar = symbols[-1][0]
    starts = [(num - first_bar) * L + pos - pickup for num, pos in symbols]
    end = (last_bar - first_bar + 1) * L - pickup
    durs = [b - a for a, b in zip(starts, starts[1:] + [end])]
    via = inp.get('via', 'formatter')
    try:
        with quiet():
            if via == 'formatter':
                score = ScoreFormatter(text).parse()
            elif via == 'from_annotation':
                from musiclang import Score
                score = Score.from_annotation(text)
            else:
                # the file entry point, with and without a final line end (seed C15-6 cut the last character of a
                # file that does not end with a newline)
                import tempfile, os
                from musiclang import Score
                body = text.rstrip('\n') + ('\n' if via == 'file-newline' else '')
                fd, path = tempfile.mkstemp(suffix='.rntxt')
                try:
                    with os.fdopen(fd, 'w') as f:
                        f.write(body)
                    score = Score.from_annotation_file(path)
                finally:
                    os.unlink(path)
    except Exception as e:  # noqa
        return {'observed': f'{type(e).__name__}: {e}', 'expected': f'{len(symbols)} chords, total {frac_str(end)}'}
    got = [Fraction(c.duration) for c in score.chords]
    obs = {'n': len(got), 'durations': [frac_str(x) for x in got], 'total': frac_str(Fraction(score.duration)),
           'pickup': frac_str(Fraction(score.config['pickup']))}
    exp = {'n': len(symbols), 'durations': [frac_str(x) for x in durs], 'total': frac_str(end), 'pickup': frac_str(pickup)}
    return None if obs == exp else {'observed': obs, 'expected': exp}


def chord_pcs(c):
    return sorted(int(p) % 12 for p in c.chord_extension_pitches), int(c.bass_pitch) % 12


def check_diatonic(inp):
    """oracle `diatonic`: a diatonic figure (name derived from the scale by the standard rules) in a key resolves to the
    stacked-thirds chord on that degree, in the inversion the figures say; `via` = 'analyze' (analyze_one_chord) or
    'text' (a one-bar annotation with the key written as a token, e.g. `m1 bb: iiø65`)."""
    from musiclang import Chord, Tonality
    key, mode, fig, deg, intervals, inv = inp['key'], inp['mode'], inp['figure'], inp['deg'], inp['intervals'], inp['inv']
    exp = expected_chord(key, mode, deg, intervals, inv, natural=inp.get('natural', False))
    try:
        if inp['via'] == 'analyze':
            from musiclang.analyze.roman_parser import analyze_one_chord
            d, e, k, m = analyze_one_chord(fig, key, mode)
            c = Chord(d, tonality=Tonality(k, m))[e]
        else:
            from musiclang.analyze.score_formatter import ScoreFormatter
            with quiet():
                score = ScoreFormatter(f'Time Signature: 4/4\nm1 {inp["keyname"]}: {fig}').parse()
            if len(score.chords) != 1:
                return {'observed': f'{len(score.chords)} chords', 'expected': list(exp)}
            c = score.chords[0]
        got = chord_pcs(c)
    except Exception as ex:  # noqa
        return {'observed': f'{type(ex).__name__}: {ex}', 'expected': list(exp)}
    return None if (got[0], got[1]) == exp else {'observed': list(got), 'expected': list(exp)}


ORACLES = {'timing': check_timing, 'diatonic': check_diatonic}


def timing_signature(inp):
    st = inp['struct']
    flush = inp['text'][:1] not in (' ', '\t', '\n')
    first = st['first']
    return ('timing:' + ('flush' if flush else 'indented') + ':first=' + ('m1' if first == 1 else 'm0' if first == 0 else 'other')
            + f':ts={st["ts"][0]}/{st["ts"][1]}')


def wellformed(struct):
    return struct is not None


def oracle(ctx):
    rng = ctx.rng
    # --- D7 witness and its relatives first (fixed by the `fix:` commit; stays as a regression input)
    witnesses = []
    for first in (0, 1, 5):
        for indent in ('', '  '):
            bars = [[first, [['', '0', 'I', 0, 'major'], ['b3', '2', 'V', 0, 'major']]],
                    [first + 1, [['', '0', 'IV', 0, 'major']]],
                    [first + 2, [['', '0', 'V7', 0, 'major'], ['b2', '1', 'I', 0, 'major']]]]
            text = '\n'.join(indent + l for l in ['Time Signature: 4/4', f'm{first} C: I b3 V', f'm{first + 1} IV',
                                                  f'm{first + 2} V7 b2 I'])
            witnesses.append({'text': text, 'struct': {'ts': [4, 4], 'first': first, 'bars': bars}})
    todo = witnesses + [i for s, i in ctx.suspects if s in ('roman', 'lex') and i and i.get('struct')
                        and struct_valid(i['struct'])]
    for _ in range(ctx.n(500, 8000)):
        text, struct = rand_annotation(rng, p_invalid=0.0)
        todo.append({'text': text, 'struct': struct})
        if rng.random() < 0.25:
            todo.append({'text': text, 'struct': struct, 'via': rng.choice(['file-no-newline', 'file-newline', 'from_annotation'])})
    for inp in todo:
        st = inp['struct']
        ctx.count('oracle', key=inp['text'] + inp.get('via', ''), bucket=[f'timing ts={st["ts"][0]}/{st["ts"][1]}',
                                                    'timing first=' + str(min(st['first'], 2))],
                  nontrivial=sum(len(i) for _, i in st['bars']) >= 2)
        r = check_timing(inp)
        if r:
            ctx.fail(timing_signature(inp), inp, r['observed'], r['expected'], oracle='timing')
    # --- diatonic figures x inversions x 12 keys x 2 modes, through analyze_one_chord and through a text
    for mode, natural, figs in (('major', False, diatonic_figures('major')), ('minor', False, diatonic_figures('minor')),
                                ('minor', True, natural_minor_figures())):
        for fig, deg, intervals, inv in figs:
            for key in range(12):
                base = {'key': key, 'mode': mode, 'figure': fig, 'deg': deg, 'intervals': intervals, 'inv': inv,
                        'natural': natural}
                todo = [dict(base, via='analyze')]
                names = KEY_NAMES[mode][key]
                if ctx.tier == 'thorough' or ctx.search:
                    todo += [dict(base, via='text', keyname=nm) for nm in names]
                else:
                    todo.append(dict(base, via='text', keyname=names[(deg + inv) % len(names)]))
                for inp in todo:
                    ctx.count('oracle', key=str(inp), bucket=f'diatonic {mode} via={inp["via"]}')
                    r = check_diatonic(inp)
                    if r:
                        sig = f'diatonic:{inp["via"]}:{mode}:{fig}' + (f':key={inp["keyname"]}' if inp['via'] == 'text' else '')
                        ctx.fail(sig, inp, r['observed'], r['expected'], oracle='diatonic')
    # suspects of the figure stream: a disagreement on a diatonic figure is re-examined by the theory oracle
    diat = {(m, f): (d, iv, inv) for m in ('major', 'minor') for f, d, iv, inv in diatonic_figures(m)}
    for s, i in ctx.suspects:
        if s == 'figure' and i and (i.get('mode'), i.get('figure')) in diat:
            d, iv, inv = diat[(i['mode'], i['figure'])]
            inp = {'key': i['key'] % 12, 'mode': i['mode'], 'figure': i['figure'], 'deg': d, 'intervals': iv, 'inv': inv,
                   'via': 'analyze'}
            ctx.count('oracle', key=str(inp), bucket='diatonic suspect')
            r = check_diatonic(inp)
            if r:
                ctx.fail(f'diatonic:analyze:{i["mode"]}:{i["figure"]}', inp, r['observed'], r['expected'], oracle='diatonic')
