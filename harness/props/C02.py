"""C02 — chord scales, chord tones, inversions and extension modifiers are well-formed."""
import sys
sys.dont_write_bytecode = True
import itertools
import core, gen
from core import sx, enc_chord, py_res, show_ints

ID = 'C02'
LEAN_MODULES = ['MV.Props.C02', 'MV.Props.C02b']
LEAN_HELPERS = ['MV.Lemmas.Pcs', 'MV.Lemmas.Shift', 'MV.Props.C01b', 'MV.Lemmas.Ext', 'MV.Lemmas.Scale', 'MV.Props.C01', 'MV.Model.Pitch', 'MV.Model.Basic']
DRIVERS = ['C01']
GEN = ['Tables', 'Library']
SRC_TIE = ['SrcExt']   # py2lean source images of _chord_notes_calc / chord_notes / invert / … proved equal to the model (MV/Props/TieSrcExt.lean)
RULE = ('extension texts generated in random written order from the live modifier dictionaries (valid combinations '
        'and a malformed stream: unknown modifiers, anchors that are absent) x degree x tonality; compared: '
        'normalised text, chord_pitches, chord_extension_pitches, invert(k) for k in -9..9, to_root_extension; '
        'non-trivial = at least one modifier or an inversion; distinct = distinct request')
TRUSTED = ['the library parses extension *text* with regexes; the model works on tokens produced by an independent '
           'tokenizer in the harness (core.split_ext); agreement of the two is what the stream `ext` checks',
           'hand-written model of _chord_notes_calc / invert / to_root_extension (MV/Model/Pitch.lean)']
ASSUMPTIONS = ['"ascending within one octave" and "bass = tone named by the figure" are claimed for plain figures '
               '(modifiers such as add9 exceed the octave by construction); with modifiers the claim is: same pitch '
               'classes and same chord_pitches for every inversion']


def mk(inp, text=None):
    from musiclang import Chord, Tonality
    # `bare`: a chord written without a tonality (the library then means C major); the chord octave still counts
    ton = None if inp.get('bare') else Tonality(inp['deg'], inp['mode'], inp['toct'])
    base = Chord(inp['elem'], tonality=ton, octave=inp['coct'])
    t = inp['ext'] if text is None else text
    if inp.get('via') == 'ctor':
        # the other public way to write a figure: the constructor (what sequence / analysis code uses).  It does not
        # validate the figure as chord[...] does, so a figure chord[...] rejects is rejected here too
        # (seed C02-6: the constructor stopped normalising the extension)
        base[t]
        return Chord(inp['elem'], extension=t, tonality=ton, octave=inp['coct'])
    return base[t]


def chord_inp(c, text):
    return {'elem': int(c.element), 'ext': text, 'deg': int(c.tonality.degree), 'mode': c.tonality.mode,
            'toct': int(c.tonality.octave), 'coct': int(c.octave)}


def permuted(text, rng):
    fig, r, a, m = core.split_ext(text)
    groups = ['(' + x + ')' for x in r] + ['[' + x + ']' for x in a] + ['{' + x + '}' for x in m]
    rng.shuffle(groups)
    return fig + ''.join(groups)


def check_order(inp):
    import random
    rng = random.Random(inp.get('perm_seed', 0))
    c = mk(inp)
    for _ in range(4):
        t2 = permuted(inp['ext'], rng)
        c2 = mk(inp, t2)
        a = (c.extension, list(map(int, c.chord_pitches)), list(map(int, c.chord_extension_pitches)))
        b = (c2.extension, list(map(int, c2.chord_pitches)), list(map(int, c2.chord_extension_pitches)))
        if a != b:
            return {'observed': {'written': t2, 'got': b}, 'expected': a}
        if not (c == c2) or hash(c) != hash(c2) or str(c) != str(c2):
            return {'observed': {'written': t2, 'same chord': (c == c2, hash(c) == hash(c2), str(c2))}, 'expected': str(c)}
    return None


def check_idem(inp):
    c = mk(inp)
    c2 = c[c.extension]
    a = (c.extension, list(map(int, c.chord_extension_pitches)))
    b = (c2.extension, list(map(int, c2.chord_extension_pitches)))
    if a != b:
        return {'observed': b, 'expected': a}
    from musiclang import Chord
    c3 = Chord(c.element, extension=c.extension, tonality=c.tonality, octave=c.octave)
    if c3.extension != c.extension or c3.normalize_extension() != c.extension:
        return {'observed': c3.extension, 'expected': c.extension}
    return None


def check_invert(inp):
    """triads / sevenths: every inversion has the same pitch classes and chord_pitches; period; additivity;
    plain figures: ascending within an octave and bass = the chord tone the figure names"""
    c = mk(inp)
    fig = core.split_ext(c.extension)[0]
    three, four = ['', '6', '64'], ['7', '65', '43', '2']
    fam = three if fig in three else four if fig in four else None
    if fam is None:
        return None
    n = len(fam)
    root = c.to_root_extension()
    pcs = sorted({p % 12 for p in root.chord_extension_pitches})
    cp = list(map(int, root.chord_pitches))
    plain = c.extension == fig
    for k in range(-n - 1, n + 2):
        ck = c.invert(k)
        fk = core.split_ext(ck.extension)[0]
        if fk != fam[(fam.index(fig) + k) % n]:
            return {'observed': f'invert({k}) -> {ck.extension}', 'expected': fam[(fam.index(fig) + k) % n]}
        ep = list(map(int, ck.chord_extension_pitches))
        if sorted({p % 12 for p in ep}) != pcs:
            return {'observed': {'k': k, 'ext': ck.extension, 'pcs': sorted({p % 12 for p in ep})}, 'expected': pcs}
        if list(map(int, ck.chord_pitches)) != cp:
            return {'observed': {'k': k, 'chord_pitches': list(map(int, ck.chord_pitches))}, 'expected': cp}
        if plain:
            idx = fam.index(fk)
            if not (all(x < y for x, y in zip(ep, ep[1:])) and ep[-1] - ep[0] < 12 and ep[0] % 12 == cp[idx] % 12
                    and ep[0] in (cp[idx], cp[idx] + 12) and len(ep) == n):
                return {'observed': {'k': k, 'ext': ck.extension, 'pitches': ep}, 'expected': f'ascending < 12, bass = chord tone {idx} of {cp}'}
    for j, k in [(1, 2), (-2, 5), (3, -7)]:
        if c.invert(k).invert(j).extension != c.invert(j + k).extension:
            return {'observed': c.invert(k).invert(j).extension, 'expected': c.invert(j + k).extension}
    if c.invert(n).extension != c.extension or c.invert(-n).extension != c.extension:
        return {'observed': c.invert(n).extension, 'expected': c.extension}
    return None


def check_scale(inp):
    from props.C01 import spec_scale
    c = mk(inp)
    L = spec_scale(inp['mode'])
    e = inp['elem']
    base = inp['deg'] + 12 * inp['toct'] + 12 * inp['coct']
    exp = [base + L[(e + i) % 7] + 12 * ((e + i) // 7) for i in range(7)]
    got = list(map(int, c.scale_pitches))
    return None if got == exp else {'observed': got, 'expected': exp}


def check_ascending(inp):
    """whatever the modifiers, the chord tones come out in ascending pitch order from the bass (the tones are sorted per
    pitch after the replacements, additions and omissions were applied), and a replacement that names a tone the figure
    does not have acts as the addition of the same name (seed C02-7 left those fallback tones unsorted)"""
    c = mk(inp)
    for name, ps in (('chord_extension_pitches', list(map(int, c.chord_extension_pitches))), ('chord_pitches', list(map(int, c.chord_pitches)))):
        if ps != sorted(ps):
            return {'observed': {name: ps}, 'expected': {name: sorted(ps)}}
    return None


ORACLES = {'order': check_order, 'idem': check_idem, 'invert': check_invert, 'scale': check_scale, 'ascending': check_ascending}


def gen_chords(ctx, n, valid=True):
    rng = ctx.rng
    out = []
    while len(out) < n:
        try:
            c, text = gen.rand_chord(rng, valid=valid, max_mods=4)
        except Exception:
            continue
        out.append((c, text))
    return out


def correspondence(ctx):
    rng = ctx.rng
    from musiclang import Chord, Tonality
    chords = gen_chords(ctx, ctx.n(1200, 30000))
    # malformed / invalid stream: random combos without validity filter
    bad = []
    for _ in range(ctx.n(400, 6000)):
        text = gen.rand_ext_text(rng, max_mods=4, p_plain=0.05)
        if rng.random() < 0.15:
            text += rng.choice(['(foo)', '[bar]', '{-2}', '(b9)'])
        bad.append(text)
    cases = []
    for c, text in chords + [(None, t) for t in bad]:
        if c is None:
            base = Chord(rng.randrange(7), tonality=gen.rand_tonality(rng), octave=rng.randint(-1, 1))
        else:
            base = Chord(c.element, tonality=c.tonality, octave=c.octave)
        etext = text.replace('(', '<').replace(')', '>')
        def top(op, k=0):
            return sx('top', op, int(base.element), etext, core.enc_ton(base.tonality), int(base.octave), k)
        inp = chord_inp(base, text)
        nmods = sum(len(x) for x in core.split_ext(text)[1:])
        bucket = [f'fig={core.split_ext(text)[0]}', f'mods={nmods}', 'validstream' if c is not None else 'malformed']
        cases.append({'line': top('exttext'), 'impl': py_res(lambda: '"' + base[text].extension + '"'), 'input': inp,
                      'bucket': bucket + ['op=exttext'], 'nontrivial': nmods > 0})
        cases.append({'line': top('chordp'), 'impl': py_res(lambda: base[text].chord_pitches, show_ints), 'input': inp,
                      'bucket': 'op=chordp', 'nontrivial': nmods > 0})
        cases.append({'line': top('extp'), 'impl': py_res(lambda: base[text].chord_extension_pitches, show_ints),
                      'input': inp, 'bucket': 'op=extp', 'nontrivial': nmods > 0})
        k = rng.randint(-9, 9)
        cases.append({'line': top('invert', k), 'impl': py_res(lambda: '"' + base[text].invert(k).extension + '"'),
                      'input': {**inp, 'k': k}, 'bucket': 'op=invert'})
        cases.append({'line': top('rootext'), 'impl': py_res(lambda: '"' + base[text].to_root_extension().extension + '"'),
                      'input': inp, 'bucket': 'op=rootext'})
    ctx.compare('ext', 'C01', cases)
    import srctie
    srctie.run(ctx, SRC_TIE)


def oracle(ctx):
    rng = ctx.rng
    todo = []
    # exhaustive small space: every single modifier on every invertible figure
    R, A, M = gen.modifier_keys()
    singles = ['(' + r + ')' for r in R] + ['[' + a + ']' for a in A] + ['{' + m + '}' for m in M]
    for fig in gen.FIGS:
        for mod in [''] + singles:
            todo.append({'elem': rng.randrange(7), 'ext': fig + mod, 'deg': rng.randrange(12),
                         'mode': rng.choice(gen.MODES), 'toct': rng.randint(-1, 1), 'coct': rng.randint(-1, 1)})
    for c, text in gen_chords(ctx, ctx.n(500, 20000)):
        todo.append(chord_inp(c, text))
        if rng.random() < 0.35:
            todo.append({**chord_inp(c, text), 'via': 'ctor'})      # the same figure written through the constructor
    # chords written without a tonality, at several chord octaves (seed C02-4)
    for fig in gen.FIGS:
        for _ in range(2):
            todo.append({'elem': rng.randrange(7), 'ext': fig, 'deg': 0, 'mode': 'M', 'toct': 0, 'coct': rng.randint(-3, 3),
                         'bare': True})
    for s, i in ctx.suspects:
        if i and 'ext' in i:
            todo.insert(0, {k: v for k, v in i.items() if k != 'k'})
    for inp in todo:
        try:
            mk(inp)
        except Exception:
            continue          # not a valid chord for the library: nothing is claimed
        for name in ('order', 'idem', 'invert', 'scale', 'ascending'):
            ctx.count('oracle', key=name + str(inp), bucket=name)
            try:
                r = ORACLES[name]({**inp, 'perm_seed': rng.randrange(1 << 30)} if name == 'order' else inp)
            except Exception as e:
                r = {'observed': f'{type(e).__name__}: {e}', 'expected': 'no exception'}
            if r:
                fig, rr, aa, mm = core.split_ext(inp['ext'])
                ctx.fail(f'{name}:fig={fig}:mods={"+".join(sorted(rr + aa + mm))}', inp, r['observed'], r['expected'], oracle=name)
