"""C04 — transposition is exact: modulation, octaves and their composition laws."""
import sys
sys.dont_write_bytecode = True
from fractions import Fraction
import core, gen, sound
from core import sx, enc_note, enc_chord, enc_score, enc_ton, enc_melody, py_res, frac_str

ID = 'C04'
LEAN_MODULES = ['MV.Props.C04']
LEAN_HELPERS = ['MV.Lemmas.TransposeOps', 'MV.Lemmas.TransposeRender', 'MV.Lemmas.Transpose', 'MV.Lemmas.RelShift',
                'MV.Props.C01', 'MV.Props.C09', 'MV.Lemmas.Window', 'MV.Lemmas.Asc', 'MV.Lemmas.Scale',
                'MV.Model.Transpose', 'MV.Model.Render', 'MV.Model.Pitch', 'MV.Model.Rel', 'MV.Model.Basic',
                'MV.Model.Types']
DRIVERS = ['C04']
GEN = ['Tables', 'Library']
SRC_TIE = ['SrcTonality', 'SrcOps']   # py2lean source images proved equal to the model (MV/Props/Tie*.lean)
RULE = ('streams: ton = triples of tonalities (12 degrees x 9 modes x octaves -3..3, one third with un-normalised '
        'degrees -30..40): a+b, (a+b)+c, a+(b+c), a-b, ==, .b, .s; chord = chord % t, (chord % a) % b, Element % t, '
        'chord.o(k) on chords with every figure / modifiers / chord octave; score = score % t, score.o(k), '
        'chord.o_melody(k), melody.o(k), chord(**parts) incl. drum parts and malformed part names; modrender = the '
        'note matrix of s, s % t, s.o(k), [c.o(k) for c in s] on random scores (1-4 chords, 1-3 parts + optional drum '
        'part, absent parts, rests/continuations, relative notes, absolute and drum notes). non-trivial: ton = '
        'degrees carry or modes differ; chord = t.abs_degree != 0 or k != 0; score/modrender = at least one '
        'chord-relative sounding note and shift != 0; distinct = distinct request line')
TRUSTED = ['hand-written model of tonality.add/__sub__/__eq__/b/s, Chord.__mod__/o/o_melody/__call__, Element.__mod__, '
           'Note.o/oabs/convert_to_drum_note, Melody.o, Score.__mod__/o (MV/Model/Transpose.lean) tied by the streams '
           'ton/chord/score/modrender; pitch and render models are those of C01/C09/C03',
           'Note.copy is the identity on the notes the harness builds (rests and continuations are always the '
           'canonical Silence / Continuation objects)']
ASSUMPTIONS = ['harness: chord degree in 0..6 (the theorems hold for every integer degree, except same_symbol_other_chord '
               'which quotes C01)', 'durations with denominators <= 1000',
               'not modelled: Element.o (a chord without tonality), positional / list-valued melodies of __call__, part '
               'numbers written with "+", blanks or "_" (Python int() accepts them), empty drum melodies',
               'relative notes inside the +-10 octave window of the implementation (theorems: all rendered pitches and '
               'their transposed images in -108..107, i.e. far outside the MIDI range)',
               'render-level modulation law: every relative note has a chord-relative reference (an earlier s/h/c/b or '
               'relative note of its part with no absolute/drum note or absence in between); a relative note whose '
               'reference is an absolute or drum note is neither chord-relative nor absolute and is outside the claim',
               'mode-changing modulation is outside the claim, except for s/h/su/sd notes that carry their own mode',
               'tags of tonalities/chords/scores are not modelled']

PARTS = ('piano__0', 'violin__0', 'cello__0')
CHORD_REL = ('s', 'h', 'c', 'b')


# ----------------------------------------------------------------------------- generators

def rand_ton(rng, wide=False, octs=(-3, 3), mode=None):
    from musiclang import Tonality
    deg = rng.randint(-30, 40) if wide else rng.randrange(12)
    return Tonality(deg, mode or rng.choice(gen.MODES), rng.randint(*octs))


def ton_inp(t):
    return [int(t.degree), t.mode, int(t.octave)]


def mk_ton(l):
    from musiclang import Tonality
    return Tonality(int(l[0]), l[1], int(l[2]))


def show_ton(t):
    return enc_ton(t).s


def show_chord(c):
    return enc_chord(c).s


def show_score(s):
    return enc_score(s).s


def show_melody(m):
    return core._sx1(enc_melody(m))


def show_rows(rows):
    def amp(v):
        return frac_str(Fraction(*v.as_integer_ratio()) if isinstance(v, float) else v)

    def opt(v):
        return '-' if v is None else str(int(v))
    return '(' + ' '.join(
        f'({int(r[0])} {frac_str(r[1])} {frac_str(r[2])} {amp(r[3])} {int(r[4])} {int(bool(r[5]))} {int(bool(r[6]))} '
        f'{opt(r[7])} {opt(r[8])})' for r in rows) + ')'


def chord_inp(c):
    return {'elem': int(c.element), 'ext': c.extension, 'ton': ton_inp(c.tonality), 'oct': int(c.octave)}


def mk_chord(d):
    from musiclang import Chord
    return Chord(int(d['elem']), extension=d['ext'], tonality=mk_ton(d['ton']), octave=int(d['oct']))


def note_full_inp(n):
    return [n.type, int(n.val), int(n.octave), frac_str(n.duration), n.mode, n.accident, n.amp, n.tempo, n.pedal]


def mk_note_full(l):
    from musiclang import Note, Silence, Continuation
    k, v, o, d, m, a, amp, tempo, pedal = l
    d = core.to_frac(d)
    if k == 'r':
        return Silence(d, tempo=tempo, pedal=pedal)
    if k == 'l':
        return Continuation(d, tempo=tempo, pedal=pedal)
    return Note(k, int(v), int(o), d, mode=m, accident=a, amp=amp, tempo=tempo, pedal=pedal)


def score_inp(s):
    """structured, replayable form of a score (text forms cannot express every value)"""
    return [{**chord_inp(c), 'parts': [[p, [note_full_inp(n) for n in m.notes]] for p, m in c.score.items()]}
            for c in s.chords]


def mk_score(l):
    from musiclang import Score, Melody
    chords = []
    for d in l:
        c = mk_chord(d)
        c.score = {p: Melody([mk_note_full(n) for n in notes]) for p, notes in d['parts']}
        chords.append(c)
    return Score(chords)


def rand_bare_chord(rng, wide=False):
    """chord without parts; with `wide` the tonality degree may be un-normalised"""
    c, _ = gen.rand_chord(rng, octaves=(-2, 2))
    if wide:
        c.tonality.degree = rng.randint(-30, 40)
    return c


def rand_score(rng, rel=None, drums=None, effects=True):
    """random score over the three melodic parts, optionally with a drum part"""
    from musiclang import Note
    rel = rng.random() < 0.6 if rel is None else rel
    kinds = gen.NONREL + (['d'] if rng.random() < 0.3 else []) + (gen.REL if rel else [])
    s = gen.rand_score(rng, n_chords=(1, 4), parts=PARTS[:rng.randint(1, 3)], p_absent=0.25, kinds=kinds,
                       p_rest=0.15, p_cont=0.2, vals=(0, 8), octs=(-1, 1), p_amp=0.3)
    if drums is None:
        drums = rng.random() < 0.3
    if drums:
        for i, c in enumerate(s.chords):
            if rng.random() < 0.7:
                m = gen.rand_melody(rng, kinds=['d', 'd', 's', 'a'], p_acc=0, p_mode=0, vals=(0, 11), octs=(-1, 1))
                s.chords[i] = c(**c.score, drums_0__0=m)
    if effects and rng.random() < 0.3:
        c = s.chords[0]
        p = next(iter(c.score))
        m = c.score[p]
        n0 = m.notes[0]
        if n0.type not in ('l',):
            m.notes[0] = n0.set_tempo(rng.choice([60, 90, 132])) if rng.random() < 0.5 else n0.pedal_on
    return s


def score_features(s, shift):
    f = []
    notes = [n for c in s.chords for m in c.score.values() for n in m.notes]
    if any(n.type in CHORD_REL for n in notes):
        f.append('chordrel')
    if any(n.type == 'a' for n in notes):
        f.append('abs')
    if any(n.type == 'd' for n in notes):
        f.append('drum')
    if any(n.is_relative for n in notes):
        f.append('relative')
    if any(n.type in ('r', 'l') for n in notes):
        f.append('rest/cont')
    if any(p not in c.score for c in s.chords for p in sound.part_names(s)):
        f.append('absent')
    f.append('shift0' if shift == 0 else 'shift')
    return f


# ----------------------------------------------------------------------------- correspondence

def correspondence(ctx):
    from musiclang import Chord, Tonality, Note, Melody, Score, Element
    from musiclang.write.out.to_midi import get_notes
    rng = ctx.rng

    # --- ton
    cases = []
    for i in range(ctx.n(1200, 20000)):
        wide = i % 3 == 0
        a, b, c = rand_ton(rng, wide), rand_ton(rng, wide), rand_ton(rng, wide)
        inp = {'a': ton_inp(a), 'b': ton_inp(b), 'c': ton_inp(c)}
        carry = (a.degree + b.degree) // 12 != 0 or a.mode != b.mode
        bk = ['wide' if wide else 'normal', 'carry' if (a.degree + b.degree) // 12 != 0 else 'nocarry']
        ab = a + b
        bc = b + c
        for line, impl in [
            (sx('tadd', enc_ton(a), enc_ton(b)), py_res(lambda: a + b, show_ton)),
            (sx('tadd', enc_ton(ab), enc_ton(c)), py_res(lambda: ab + c, show_ton)),
            (sx('tadd', enc_ton(a), enc_ton(bc)), py_res(lambda: a + bc, show_ton)),
            (sx('tsub', enc_ton(a), enc_ton(b)), py_res(lambda: a - b, show_ton)),
            (sx('tsub', enc_ton(ab), enc_ton(b)), py_res(lambda: ab - b, show_ton)),
            (sx('teq', enc_ton(a), enc_ton(b)), py_res(lambda: int(a == b))),
            (sx('teq', enc_ton(a), enc_ton(Tonality(a.degree % 12 + 12 * rng.randint(-1, 1), a.mode, a.octave))),
             None),
            (sx('tflat', enc_ton(a)), py_res(lambda: a.b, show_ton)),
            (sx('tsharp', enc_ton(a)), py_res(lambda: a.s, show_ton)),
        ]:
            if impl is None:   # equality with an enharmonic respelling (same degree class, possibly other octave)
                t2 = core.parse_sx(line)[2]
                other = Tonality(int(t2[1]), t2[2], int(t2[3]))
                impl = py_res(lambda: int(a == other))
            cases.append({'line': line, 'impl': impl, 'input': inp, 'bucket': bk + ['op=' + line[1:].split(' ')[0]],
                          'nontrivial': carry})
    ctx.compare('ton', 'C04', cases)

    # --- chord
    cases = []
    for i in range(ctx.n(900, 12000)):
        wide = i % 4 == 0
        c = rand_bare_chord(rng, wide)
        a, b = rand_ton(rng, wide), rand_ton(rng, wide)
        k = rng.randint(-3, 3)
        e = rng.randrange(7)
        inp = {'chord': chord_inp(c), 'a': ton_inp(a), 'b': ton_inp(b), 'k': k}
        bk = ['wide' if wide else 'normal', f'coct={int(c.octave)}', f'fig={core.split_ext(c.extension)[0]}']
        enc = enc_chord(c)
        for line, impl, nt in [
            (sx('cmod', enc, enc_ton(a)), py_res(lambda: c % a, show_chord), a.abs_degree != 0),
            (sx('cmod2', enc, enc_ton(a), enc_ton(b)), py_res(lambda: (c % a) % b, show_chord), a.abs_degree != 0),
            (sx('cmod', enc, enc_ton(a + b)), py_res(lambda: c % (a + b), show_chord), True),
            (sx('emod', e, enc_ton(a)), py_res(lambda: Element(e) % a, show_chord), True),
            (sx('co', enc, k), py_res(lambda: c.o(k), show_chord), k != 0),
        ]:
            cases.append({'line': line, 'impl': impl, 'input': inp, 'bucket': bk + ['op=' + line[1:].split(' ')[0]],
                          'nontrivial': nt})
    ctx.compare('chord', 'C04', cases)

    # --- score-level objects
    cases = []
    for i in range(ctx.n(250, 4000)):
        s = rand_score(rng)
        t = rand_ton(rng, octs=(-1, 1))
        k = rng.randint(-2, 2)
        enc = enc_score(s)
        inp = {'score': score_inp(s), 't': ton_inp(t), 'k': k}
        ft = score_features(s, t.abs_degree)
        c0 = s.chords[rng.randrange(len(s.chords))]
        m0 = next(iter(c0.score.values()))
        for line, impl in [
            (sx('smod', enc, enc_ton(t)), py_res(lambda: s % t, show_score)),
            (sx('so', enc, k), py_res(lambda: s.o(k), show_score)),
            (sx('comel', enc_chord(c0), k), py_res(lambda: c0.o_melody(k), show_chord)),
            (sx('melo', enc_melody(m0), k), py_res(lambda: m0.o(k), show_melody)),
        ]:
            cases.append({'line': line, 'impl': impl, 'input': inp, 'bucket': ft + ['op=' + line[1:].split(' ')[0]],
                          'nontrivial': 'chordrel' in ft})
    # chord(**parts): a melody placed on another chord
    for i in range(ctx.n(300, 5000)):
        c = rand_bare_chord(rng)
        names = rng.sample(['piano__0', 'violin__1', 'flute', 'cello__03', 'drums_0__0', 'drums_0', 'harp__2__x',
                            'piano'], rng.randint(1, 3))
        bad = None
        x = rng.random()
        if x < 0.06:
            names.append('piano__x')
            bad = 'badname'
        parts = {}
        for nm in names:
            dr = nm.startswith('drums')
            kinds = gen.NONREL + ['d'] if dr else gen.NONREL + ['d'] + gen.REL
            parts[nm] = gen.rand_melody(rng, kinds=kinds, vals=(-8, 10), octs=(-1, 1))
            if dr and 0.06 <= x < 0.12:
                parts[nm] = parts[nm] + gen.rand_note(rng, kinds=gen.REL)
                bad = 'drum-relative'
        line = sx('call', enc_chord(c), [[nm, enc_melody(m)] for nm, m in parts.items()])
        cases.append({'line': line, 'impl': py_res(lambda: c(**parts), show_chord),
                      'input': {'chord': chord_inp(c), 'parts': {nm: str(m) for nm, m in parts.items()}},
                      'bucket': ['op=call', 'bad=' + str(bad)] + (['drumpart'] if any(n.startswith('drums') for n in names) else []),
                      'nontrivial': True})
    ctx.compare('score', 'C04', cases)

    # --- render before / after
    cases = []
    for i in range(ctx.n(200, 3000)):
        s = rand_score(rng)
        # modulation that keeps each chord's mode when the score has a single mode, else any mode
        modes = {c.tonality.mode for c in s.chords}
        t = rand_ton(rng, octs=(-1, 1), mode=(next(iter(modes)) if len(modes) == 1 or rng.random() < 0.5 else None))
        k = rng.randint(-2, 2)
        enc = enc_score(s)
        inp = {'score': score_inp(s), 't': ton_inp(t), 'k': k}
        for line, impl, shift in [
            (sx('notes', enc), py_res(lambda: get_notes(s), show_rows), 1),
            (sx('rmod', enc, enc_ton(t)), py_res(lambda: get_notes(s % t), show_rows), t.abs_degree),
            (sx('ro', enc, k), py_res(lambda: get_notes(s.o(k)), show_rows), k),
            (sx('rco', enc, k), py_res(lambda: get_notes(Score([c.o(k) for c in s.chords])), show_rows), k),
        ]:
            ft = score_features(s, shift)
            cases.append({'line': line, 'impl': impl, 'input': inp, 'bucket': ft + ['op=' + line[1:].split(' ')[0]],
                          'nontrivial': 'chordrel' in ft and shift != 0})
    ctx.compare('modrender', 'C04', cases)
    # kernel-level streams of the source tie (DESIGN §9.6)
    import srctie
    srctie.run(ctx, SRC_TIE)


# ----------------------------------------------------------------------------- oracle (the property itself)

def tfields(t):
    return (int(t.degree), t.mode, int(t.octave))


def check_ton(inp):
    """algebra of tonality addition / subtraction on the real objects"""
    from musiclang import Tonality
    a, b, c = mk_ton(inp['a']), mk_ton(inp['b']), mk_ton(inp['c'])
    bad = {}

    def law(name, ok, obs=None):
        if not ok and name not in bad:
            bad[name] = obs
    ab = a + b
    law('assoc', tfields((a + b) + c) == tfields(a + (b + c)), (tfields((a + b) + c), tfields(a + (b + c))))
    law('normalised', 0 <= ab.degree < 12, tfields(ab))
    law('abs_additive', ab.abs_degree == a.abs_degree + b.abs_degree and ab.mode == b.mode, tfields(ab))
    z = Tonality(0) + a
    law('neutral_left', z == a and z.abs_degree == a.abs_degree and z.mode == a.mode and 0 <= z.degree < 12, tfields(z))
    zr = a + Tonality(0, a.mode)
    law('neutral_right', zr == a and zr.abs_degree == a.abs_degree and zr.mode == a.mode, tfields(zr))
    d = a - b
    law('sub_abs', d.abs_degree == a.abs_degree - b.abs_degree and 0 <= d.degree < 12 and d.mode == a.mode, tfields(d))
    law('sub_undoes_add', (b + (a - b)) == a, tfields(b + (a - b)))
    u = (a + b) - b
    law('add_then_sub', u.abs_degree == a.abs_degree and 0 <= u.degree < 12, tfields(u))
    law('eq_refl', a == a and a == Tonality(a.degree - 12, a.mode, a.octave + 1))
    law('eq_sym', (a == b) == (b == a))
    law('eq_means_same_pitch_and_mode', (a == b) == (a.abs_degree == b.abs_degree and a.mode == b.mode))
    fl, sh = a.b, a.s
    law('flat_sharp', fl.abs_degree == a.abs_degree - 1 and sh.abs_degree == a.abs_degree + 1 and fl.mode == a.mode
        and sh.mode == a.mode and (not 0 <= a.degree < 12 or (0 <= fl.degree < 12 and 0 <= sh.degree < 12)),
        (tfields(fl), tfields(sh)))
    if not bad:
        return None
    return {'observed': bad, 'expected': 'all tonality laws hold', 'laws': list(bad)}


def sample_notes():
    from musiclang import Note
    return [Note(k, v, o, 1) for k in ('s', 'h', 'c', 'b') for v, o in ((0, 0), (3, -1), (9, 1), (-4, 0))]


def check_mod_mod(inp):
    """(c % a) % b is c % (a + b): same chord (degree, figure, octave 0, equal tonality), same pitches"""
    c, a, b = mk_chord(inp['chord']), mk_ton(inp['a']), mk_ton(inp['b'])
    x, y = (c % a) % b, c % (a + b)
    fx = (int(x.element), x.extension, int(x.octave), x.tonality.abs_degree, x.tonality.mode, 0 <= x.tonality.degree < 12)
    fy = (int(y.element), y.extension, int(y.octave), y.tonality.abs_degree, y.tonality.mode, 0 <= y.tonality.degree < 12)
    exp_abs = c.tonality.abs_degree + 12 * c.octave + a.abs_degree + b.abs_degree
    ok = fx == fy and x.tonality == y.tonality and x.octave == 0 and fx[3] == exp_abs and fx[4] == b.mode and fx[5]
    if ok:
        # a chord whose tones were all removed has no chord-tone pitches (ZeroDivisionError): then both sides raise
        px = [py_res(lambda: int(x.to_pitch(n))) for n in sample_notes()]
        py = [py_res(lambda: int(y.to_pitch(n))) for n in sample_notes()]
        ok = px == py
        fx, fy = fx + (px,), fy + (py,)
    return None if ok else {'observed': fx, 'expected': fy + (exp_abs,)}


def mk_note(l):
    from musiclang import Note
    k, v, o, m, a = l
    return Note(k, int(v), int(o), 1, mode=m, accident=a)


def note_inp(n):
    return [n.type, int(n.val), int(n.octave), n.mode, n.accident]


def keeps_system(chord, t, n):
    """does modulating `chord` by `t` keep the system note `n` is read in?"""
    if t.mode == chord.tonality.mode:
        return True
    return n.mode is not None and n.type in ('s', 'h', 'su', 'sd')


def check_pitch(inp):
    """pitch level: op in mod / chord_o / ton_o / note_o / elem_mod;  expected shift of one note"""
    from musiclang import Element
    c, n = mk_chord_opt(inp['chord']), mk_note(inp['note'])
    op = inp['op']
    last = inp.get('last')
    rel = n.is_relative

    def pitch(ch, note, lp):
        if note.type == 'd':      # Chord.to_pitch has no opinion on drum notes; the renderer's function has
            from musiclang.write.pitches.pitches_utils import note_to_pitch_result
            return int(note_to_pitch_result(note, ch))
        return int(ch.to_pitch(note, last_pitch=lp)) if rel else int(ch.to_pitch(note))
    try:
        p0 = pitch(c, n, last)
    except IndexError:
        return None          # outside the +-10 octave window (C09's error branch)
    except (ZeroDivisionError, KeyError) as e:
        # no such pitch before (chord without tones, accidental outside the table): the same error after
        p0 = type(e).__name__
    movable = n.type in CHORD_REL or rel
    if op == 'mod':
        t = mk_ton(inp['t'])
        if movable and not keeps_system(c, t, n):
            return None      # mode-changing modulation: outside the claim
        D = t.abs_degree if movable else 0
        c2, n2 = c % t, n
    elif op == 'chord_o':
        D = 12 * inp['k'] if movable else 0
        c2, n2 = c.o(inp['k']), n
    elif op == 'ton_o':
        D = 12 * inp['k'] if movable else 0
        c2, n2 = c.copy(), n
        c2.tonality = c2.tonality.o(inp['k'])
    elif op == 'note_o':
        D = 12 * inp['k'] if n.type in ('s', 'h', 'c', 'b', 'a') else 0
        c2, n2 = c, n.o(inp['k'])
        if rel or n.type == 'd':
            if note_inp(n2) != note_inp(n):
                return {'observed': note_inp(n2), 'expected': note_inp(n)}
    elif op == 'elem_mod':
        t = mk_ton(inp['t'])
        e = Element(int(c.element)) % t
        c0 = mk_chord({**inp['chord'], 'ext': '', 'ton': [0, t.mode, 0], 'oct': 0})
        try:
            p0 = pitch(c0, n, last)
        except IndexError:
            return None
        except (ZeroDivisionError, KeyError) as ex:
            p0 = type(ex).__name__
        c2, n2 = e, n
        D = t.abs_degree if movable else 0
    else:
        raise ValueError(op)
    lp2 = None if last is None else (last + D if op != 'note_o' else last)
    if op == 'note_o' and rel:
        lp2 = last
    if isinstance(p0, str):
        r1 = py_res(lambda: pitch(c2, n2, lp2))
        return None if r1 == 'ERR:' + p0 else {'observed': r1, 'expected': 'ERR:' + p0}
    try:
        p1 = pitch(c2, n2, lp2)
    except IndexError:
        if not -108 <= p0 + D <= 107 or not -108 <= (lp2 or 0) <= 107:
            return None
        return {'observed': 'IndexError', 'expected': p0 + D}
    return None if p1 == p0 + D else {'observed': p1, 'expected': p0 + D, 'before': p0}


def matrix(score):
    from musiclang.write.out.to_midi import get_notes
    return [[int(r[0]), Fraction(r[1]), Fraction(r[2]), Fraction(*r[3].as_integer_ratio()) if isinstance(r[3], float)
             else Fraction(r[3]), int(r[4]), bool(r[5]), bool(r[6]), r[7], r[8]] for r in get_notes(score)]


def classify(score, op, t=None):
    """class of every note of every part, in matrix order:
    'rel' moves with the chord, 'abs' stays, 'moved'/'same' for Score.o, 'skip' = outside the claim,
    '-' = rest / continuation (no pitch).  Independent walk over the score structure."""
    out = []
    for part in sound.part_names(score):
        ref = None
        for ch in score.chords:
            if part not in ch.score:
                ref = None
                continue
            for n in ch.score[part].notes:
                if n.type in ('r', 'l'):
                    out.append('-')
                    continue
                if n.type == 'x':
                    return None
                if op == 'score_o':
                    if n.type in ('s', 'h', 'c', 'b', 'a'):
                        c = 'rel'
                    elif n.type == 'd':
                        c = 'abs'
                    else:   # relative: follows its reference (no reference: pitch 0 is used both times)
                        c = ref if ref is not None else 'abs'
                else:
                    ok = True if op == 'chord_o' else keeps_system(ch, t, n)
                    if n.type in ('a', 'd'):
                        c = 'abs'
                    elif n.type in CHORD_REL:
                        c = 'rel' if ok else 'skip'
                    else:
                        c = 'rel' if (ref == 'rel' and ok) else 'skip'
                ref = c
                out.append(c)
    return out


def check_render(inp):
    """render level: the note matrix after the operation is the matrix before with exactly the
    chord-relative pitches moved by the interval; every other column (timing, velocity, track,
    silence / continuation flags, tempo, pedal) is unchanged"""
    from musiclang import Score
    s = mk_score(inp['score'])
    op = inp['op']
    if op == 'mod':
        t = mk_ton(inp['t'])
        s2, D = s % t, t.abs_degree
    elif op == 'score_o':
        t = None
        s2, D = s.o(inp['k']), 12 * inp['k']
    elif op == 'chord_o':
        t = None
        s2, D = Score([c.o(inp['k']) for c in s.chords]), 12 * inp['k']
    else:
        raise ValueError(op)
    cls = classify(s, op, t)
    if cls is None:
        return None
    try:
        m0 = matrix(s)
    except IndexError:
        return None
    except (ZeroDivisionError, KeyError) as e:   # the score itself does not render: neither does its transposition
        r1 = py_res(lambda: matrix(s2))
        return None if r1 == 'ERR:' + type(e).__name__ else {'observed': r1[:200], 'expected': 'ERR:' + type(e).__name__}
    if len(m0) != len(cls):
        return {'observed': f'{len(m0)} rows', 'expected': f'{len(cls)} notes'}
    if any(not -108 <= r[0] <= 107 or not -108 <= r[0] + D <= 107 for r in m0):
        return None           # outside the stated window
    try:
        m1 = matrix(s2)
    except Exception as e:
        return {'observed': f'{type(e).__name__}: {e}', 'expected': 'the transposed score renders'}
    if len(m1) != len(m0):
        return {'observed': f'{len(m1)} rows', 'expected': f'{len(m0)} rows'}
    for i, (r0, r1, c) in enumerate(zip(m0, m1, cls)):
        if r0[1:] != r1[1:]:
            return {'observed': [str(x) for x in r1], 'expected': [str(x) for x in r0], 'row': i, 'what': 'timing'}
        if c == 'skip':
            continue
        exp = r0[0] + (D if c == 'rel' else 0)
        if r1[0] != exp:
            return {'observed': r1[0], 'expected': exp, 'row': i, 'class': c, 'what': 'pitch'}
    if s2.duration != s.duration:
        return {'observed': str(s2.duration), 'expected': str(s.duration), 'what': 'duration'}
    return None


NOTE_FIELDS = ('type', 'val', 'octave', 'duration', 'mode', 'accident', 'amp', 'tempo', 'pedal')


def nfields(n):
    return tuple(getattr(n, f) for f in NOTE_FIELDS) + (tuple(sorted(n.tags)),)


def check_call(inp):
    """a melody placed on another chord keeps its written notes (drum parts: drum notes stay,
    other notes become the drum note of their pitch on that chord)"""
    s = mk_score(inp['score'])
    c2 = mk_chord(inp['chord'])
    for ch in s.chords:
        new = c2(**ch.score)
        if list(new.score.keys()) != list(ch.score.keys()):
            return {'observed': list(new.score.keys()), 'expected': list(ch.score.keys())}
        if (int(new.element), new.extension, tfields(new.tonality), int(new.octave)) != \
                (int(c2.element), c2.extension, tfields(c2.tonality), int(c2.octave)):
            return {'observed': str(new.to_chord()), 'expected': str(c2)}
        for p, m in ch.score.items():
            got = [nfields(n) for n in new.score[p].notes]
            if p.startswith('drums'):
                exp = []
                for n in m.notes:
                    if n.type in ('d', 'r', 'l'):
                        exp.append(nfields(n))
                    else:
                        pt = int(c2.to_pitch(n))
                        exp.append(('d', pt % 12, pt // 12) + nfields(n)[3:])
            else:
                exp = [nfields(n) for n in m.notes]
            if got != exp:
                return {'observed': [str(x) for x in got], 'expected': [str(x) for x in exp], 'part': p}
            # written degrees are kept, so on the new chord each scale note sounds the new chord's degree
        for p, m in new.score.items():
            if m.duration != ch.score[p].duration:
                return {'observed': str(m.duration), 'expected': str(ch.score[p].duration), 'part': p}
    return None


def mk_chord_opt(d):
    """like mk_chord; 'ton': None = a chord written without a tonality (the bare roman numeral, C major is meant)"""
    from musiclang import Chord
    if d['ton'] is None:
        return Chord(int(d['elem']), extension=d['ext'], tonality=None, octave=int(d['oct']))
    return mk_chord(d)


def check_reuse(inp):
    """a sequence of modulations that all use ONE tonality object (key = II.M; a % key; b % key; score % key): every
    result must be what the same modulation gives with a freshly written tonality, i.e. each chord moves by exactly
    that tonality's interval however often the operand was used before (seed C01-5 folded the chord octave of a
    tonality-less chord into the caller's tonality object)"""
    from musiclang import Score
    from musiclang.library import s0, s2, h3, c1
    t = mk_ton(inp['t'])
    chords = [mk_chord_opt(d) for d in inp['chords']]
    notes = [s0, s2.o(1), h3, c1]

    def fields(r):
        return (int(r.element), str(r.extension), int(r.octave), r.tonality.abs_degree, r.tonality.mode,
                [py_res(lambda: int(r.to_pitch(n))) for n in notes])
    got, exp = [], []
    for i, c in enumerate(chords):
        if inp['how'][i % len(inp['how'])] == 'mod':
            got.append(fields(c % t))
        else:
            got.append(fields(c.modulate(t)))
        exp.append(fields(mk_chord_opt(inp['chords'][i]) % mk_ton(inp['t'])))
    parts = [c(piano__0=s0 + s2) for c in chords]
    got.append([fields(r) for r in (Score(parts) % t).chords])
    exp.append([fields(mk_chord_opt(d)(piano__0=s0 + s2) % mk_ton(inp['t'])) for d in inp['chords']])
    got.append(tfields(t))
    exp.append(tfields(mk_ton(inp['t'])))
    return None if got == exp else {'observed': got, 'expected': exp}


ORACLES = {'ton': check_ton, 'mod_mod': check_mod_mod, 'pitch': check_pitch, 'render': check_render,
           'call': check_call, 'reuse': check_reuse}


def ton_sig(r):
    """the first law (in the fixed order of check_ton) that fails"""
    return 'ton:' + r.get('laws', ['error'])[0]


def run(ctx, name, inp, sig, bucket, nontrivial=True):
    ctx.count('oracle', key=name + str(inp), bucket=bucket, nontrivial=nontrivial)
    try:
        r = ORACLES[name](inp)
    except Exception as e:  # the property says these operations succeed on valid inputs
        r = {'observed': f'{type(e).__name__}: {e}', 'expected': 'no exception'}
    if r:
        s = sig(r) if callable(sig) else sig
        ctx.fail(s, inp, r['observed'], r['expected'], oracle=name)
    return r


def replay_witnesses(ctx):
    """the two `_fails` witnesses of MV/Props/C04.lean on the real code: they delimit the claim, they are not
    violations (recorded as notes; a changed behaviour is reported in the evidence)"""
    from musiclang import Tonality, Score, Note
    from musiclang.library import I, II
    a, b = Tonality(0, 'M'), Tonality(2, 'm')
    u = (a + b) - b
    ctx.note(f'witness sub_undoes_add_right_fails: (I.M + II.m) - II.m = {tfields(u)} ; == I.M is {u == a} '
             f'(model: mode m, False); documented direction II.m + (I.M - II.m) == I.M is {(b + (a - b)) == a}')
    s = Score([(I % I.M)(piano__0=Note('a', 7, 0, 1) + Note('su', 1, 0, 1))])
    p0 = [r[0] for r in matrix(s)]
    p1 = [r[0] for r in matrix(s % II.M)]
    ctx.note(f'witness render_modulate_needs_reference: a7+su1 on I%I.M sounds {p0}, on (..)%II.M {p1} '
             f'(model: [7, 9] both); a relative note hanging on an absolute note is outside the claim')
    ctx.count('oracle', key='witnesses', bucket='witnesses', nontrivial=False)


def oracle(ctx):
    rng = ctx.rng
    replay_witnesses(ctx)
    # ---- suspects first (inputs where model and code disagreed)
    for st, i in ctx.suspects:
        if not i:
            continue
        if st == 'ton':
            run(ctx, 'ton', i, ton_sig, 'suspect')
        elif st == 'chord' and 'chord' in i:
            run(ctx, 'mod_mod', i, 'mod_mod', 'suspect')
            for n in sample_notes():
                for op in ('mod', 'chord_o', 'ton_o', 'note_o'):
                    pi = {'chord': i['chord'], 't': [i['a'][0], i['chord']['ton'][1], i['a'][2]], 'k': i['k'],
                          'note': note_inp(n), 'op': op}
                    run(ctx, 'pitch', pi, f'pitch:{op}:{n.type}', 'suspect')
        elif st in ('score', 'modrender') and 'score' in i:
            for op in ('mod', 'score_o', 'chord_o'):
                run(ctx, 'render', {**i, 'op': op}, lambda r, op=op: f'render:{op}:{r.get("what", "error")}', 'suspect')

    # ---- tonality algebra: the full 12 x 9 grid of pairs against a few thirds, then random (wide) triples
    from musiclang import Tonality
    grid = [(d, m) for d in range(12) for m in gen.MODES]
    for (d1, m1) in grid:
        for (d2, m2) in rng.sample(grid, ctx.n(6, 108)):
            inp = {'a': [d1, m1, rng.randint(-2, 2)], 'b': [d2, m2, rng.randint(-2, 2)],
                   'c': [rng.randrange(12), rng.choice(gen.MODES), rng.randint(-2, 2)]}
            run(ctx, 'ton', inp, ton_sig, 'ton:grid',
                nontrivial=(d1 + d2) >= 12 or m1 != m2)
    for _ in range(ctx.n(1500, 40000)):
        a, b, c = rand_ton(rng, True), rand_ton(rng, True), rand_ton(rng, True)
        inp = {'a': ton_inp(a), 'b': ton_inp(b), 'c': ton_inp(c)}
        run(ctx, 'ton', inp, ton_sig, 'ton:wide')

    # ---- composition of modulations
    for i in range(ctx.n(400, 10000)):
        c = rand_bare_chord(rng, wide=(i % 4 == 0))
        inp = {'chord': chord_inp(c), 'a': ton_inp(rand_ton(rng, i % 3 == 0)), 'b': ton_inp(rand_ton(rng, i % 3 == 0))}
        run(ctx, 'mod_mod', inp, 'mod_mod', ['mod_mod', f'coct={int(c.octave)}'])

    # ---- one tonality object used by a sequence of modulations (tonality-less chords with a chord octave included)
    for i in range(ctx.n(250, 5000)):
        cs = []
        for _ in range(rng.randint(2, 4)):
            d = chord_inp(rand_bare_chord(rng))
            if rng.random() < 0.4:
                d['ton'] = None
                d['ext'] = rng.choice(gen.PLAIN_INVERTIBLE)
            cs.append(d)
        inp = {'chords': cs, 't': ton_inp(rand_ton(rng, octs=(-2, 2))), 'how': [rng.choice(['mod', 'mod', 'modulate']) for _ in cs]}
        bare_oct = any(d['ton'] is None and d['oct'] != 0 for d in cs)
        run(ctx, 'reuse', inp, 'reuse:' + ('tonality-less-chord-with-octave' if bare_oct else 'shared-tonality'),
            ['reuse', f'bare_oct={bare_oct}'])

    # ---- pitch level: every mode x degree at least once per op, all kinds
    chords = []
    for mode in gen.MODES:
        for e in range(7):
            c, _ = gen.rand_chord(rng, octaves=(-1, 1))
            c.element = e
            c.tonality.mode = mode
            try:
                c.extension_notes, c.chord_notes
            except Exception:
                c, _ = gen.rand_chord(rng, ext=rng.choice(gen.PLAIN_INVERTIBLE), octaves=(-1, 1))
                c.element, c.tonality.mode = e, mode
            chords.append(c)
    for _ in range(ctx.n(500, 9000)):
        chords.append(rand_bare_chord(rng))
    for c in chords:
        for _ in range(3):
            n = gen.rand_note(rng, kinds=gen.NONREL + ['d'] + gen.REL, vals=(-9, 12), octs=(-2, 2))
            if n.is_relative:
                n.val = abs(n.val)
            op = rng.choice(['mod', 'mod', 'chord_o', 'ton_o', 'note_o', 'elem_mod'])
            same_mode = rng.random() < 0.75
            t = rand_ton(rng, octs=(-2, 2), mode=c.tonality.mode if same_mode else None)
            inp = {'chord': chord_inp(c), 't': ton_inp(t), 'k': rng.randint(-3, 3), 'note': note_inp(n), 'op': op}
            if n.is_relative:
                inp['last'] = rng.randint(-40, 50)
            if op == 'elem_mod' and n.type[0] in 'cb':
                inp['chord']['ext'] = ''
            if op in ('chord_o', 'note_o') and rng.random() < 0.12:
                # a chord written without a tonality (C major is meant): its octave moves the pitches all the same
                # (seed C04-6 dropped the chord octave in that branch of Chord.scale_pitches)
                inp['chord']['ton'] = None
            run(ctx, 'pitch', inp, f'pitch:{op}:{n.type}', [f'pitch:{op}', f'kind={n.type}', f'mode={c.tonality.mode}'],
                nontrivial=(inp['k'] != 0 if op != 'mod' else t.abs_degree != 0))

    # ---- render level
    for i in range(ctx.n(260, 4000)):
        s = rand_score(rng)
        modes = {c.tonality.mode for c in s.chords}
        t = rand_ton(rng, octs=(-1, 1), mode=(next(iter(modes)) if len(modes) == 1 or rng.random() < 0.4 else None))
        if i % 5 == 0:   # single-mode scores so that the whole score is inside the claim
            for c in s.chords:
                c.tonality.mode = t.mode
        base = {'score': score_inp(s), 't': ton_inp(t), 'k': rng.choice([-2, -1, 1, 2, 0])}
        for op in ('mod', 'score_o', 'chord_o'):
            sh = t.abs_degree if op == 'mod' else base['k']
            run(ctx, 'render', {**base, 'op': op}, lambda r, op=op: f'render:{op}:{r.get("what", "error")}',
                ['render:' + op] + score_features(s, sh), nontrivial=sh != 0)

    # ---- a melody placed on another chord
    for _ in range(ctx.n(150, 3000)):
        s = rand_score(rng, drums=rng.random() < 0.5, effects=False)
        c2 = rand_bare_chord(rng)
        run(ctx, 'call', {'score': score_inp(s), 'chord': chord_inp(c2)}, 'call', ['call'])
