"""C16 — realising ornaments keeps every note's time span."""
import sys
sys.dont_write_bytecode = True
import itertools
from fractions import Fraction
import core, gen
from core import sx, enc_note, enc_score, py_res, frac_str

ID = 'C16'
LEAN_MODULES = ['MV.Props.C16']
LEAN_HELPERS = ['MV.Lemmas.Ornament', 'MV.Model.Ornament', 'MV.Model.Basic', 'MV.Model.Types']
DRIVERS = ['C16']
GEN = ['Tables', 'Library']
SRC_TIE = ['SrcOrn']   # py2lean source images of the 15 ornament builders and realize_tags proved equal to the model (MV/Props/TieSrcOrn.lean)
RULE = ('note stream: every tag x every STR_TO_DURATION value x (previous: none/note/rest) x (next: none/up/down/'
        'same/rest), every tag pair x every table duration, tag triples and random tag sets on table durations, '
        'small rationals and rationals with denominators near LIMIT_DENOM; melody/score/rows streams: random tagged '
        'melodies and scores; a case is non-trivial when at least one tag of the note (of some note) is one of the '
        '15 ornament tags; distinct = distinct request line')
TRUSTED = ['model of ornementation.py / Note.set_duration / Melody.set_duration / Melody.realize_tags / '
           'Score.realize_tags / to_midi.create_melody_for_track is hand-written (MV/Model/Ornament.lean) and tied '
           'to the code by the correspondence streams note/melody/score/rows',
           'model of fractions.Fraction.limit_denominator (Python 3.12) tied to the interpreter by the stream limit; '
           'the theorems only use `den <= max => identity`',
           'int(7 * val / 12) (float division) is modelled as exact truncation: |val| < 2**40',
           'rows streams: only the OFFSET / DURATION / TRACK columns of to_midi.get_notes are observed; the pitch '
           'calculus is stubbed (harness-side monkey patch of to_midi.note_to_pitch_result) while rows are produced',
           'source tie SrcOrn: the spec bindings of harness/srcgroups/SrcOrn.py / MV/Model/OrnPy.lean (what .duration, '
           '.set_duration, .n, +, None + x, .set_amp, .clear_note_tags, .amp do on None / Note / Melody, L.su1 … L.l as the '
           'model constants), validated against the real functions by the streams src:orn_builder / src:orn_realize']
ASSUMPTIONS = ['part names are not drums parts (Chord.__call__ converts drums melodies)',
               'the rounded arithmetic (limit_denominator(1000)) equals exact arithmetic when every piece of every '
               'intermediate figure has a denominator <= 1000 (theorem realize_eq_exact); outside that class the code '
               'raises AssertionError (known finding realize_tags:rounding-den1000)']

TAGS = ['accent', 'mordant', 'inv_mordant', 'chroma_mordant', 'inv_chroma_mordant', 'grupetto', 'inv_grupetto',
        'chroma_grupetto', 'inv_chroma_grupetto', 'roll', 'roll_fast', 'suspension_prev', 'suspension_prev_repeat',
        'retarded', 'interpolate']
SIG_ROUNDING = 'realize_tags:rounding-den1000'

# ----------------------------------------------------------------------------- inputs (jsonable specs)


def spec(kind='s', val=0, oct=0, dur=1, tags=()):
    return {'kind': kind, 'val': int(val), 'oct': int(oct), 'dur': frac_str(Fraction(dur)), 'tags': sorted(tags)}


def mk_note(sp):
    """the library object of a spec; the duration is stored as given (a Note built by `.e`, `.augment`, … or by
    plain attribute arithmetic can hold any Fraction)"""
    if sp is None:
        return None
    from musiclang import Note, Silence, Continuation
    tags = set(sp.get('tags', ()))
    if sp['kind'] == 'r':
        n = Silence(1, tags=tags)
    elif sp['kind'] == 'l':
        n = Continuation(1, tags=tags)
    else:
        n = Note(sp['kind'], sp['val'], sp['oct'], 1, tags=tags)
    n.duration = Fraction(sp['dur'])
    return n


def mk_melody(specs):
    from musiclang import Melody
    return Melody([mk_note(s) for s in specs])


def mk_score(sp):
    """sp = list of chords: dict(elem, ext, deg, mode, toct, coct, parts=[[name, [note specs]]])"""
    from musiclang import Chord, Tonality, Score
    chords = []
    for c in sp:
        ch = Chord(c['elem'], extension=c['ext'], tonality=Tonality(c['deg'], c['mode'], c['toct']), octave=c['coct'])
        ch = ch(**{name: mk_melody(notes) for name, notes in c['parts']})
        chords.append(ch)
    return Score(chords)


_TD = []


def table_durations():
    if not _TD:
        from musiclang.write.constants import STR_TO_DURATION
        _TD.extend(sorted(set(Fraction(v) for v in STR_TO_DURATION.values())))
    return _TD


def table_keys():
    from musiclang.write.constants import STR_TO_DURATION
    return list(STR_TO_DURATION.items())


def rand_rational(rng, big=False):
    if big:
        den = rng.choice([999, 997, 1000, 991, 500, 750, 333, 667, 250, 125, 840, 720, 96, 192, 384, 768])
        return Fraction(rng.randint(1, 3 * den), den)
    return Fraction(rng.randint(0, 24), rng.choice([1, 2, 3, 4, 5, 6, 7, 8, 9, 10, 12, 16]))


def rand_duration(rng, p_table=0.7, p_big=0.1):
    x = rng.random()
    if x < p_table:
        return rng.choice(table_durations())
    return rand_rational(rng, big=(x > 1 - p_big))


SOUNDING = ['s', 'h', 'c', 'b', 'a', 'su', 'sd', 'hu', 'hd']


def rand_ctx(rng, klass=None):
    """a neighbour: None / sounding note / rest / continuation / drum / pattern note"""
    klass = klass or rng.choice(['none', 'note', 'note', 'note', 'rest', 'cont', 'drum', 'x'])
    d = rng.choice([Fraction(1), Fraction(1, 2), Fraction(3, 2)])
    if klass == 'none':
        return None
    if klass == 'rest':
        return spec('r', 0, 0, d)
    if klass == 'cont':
        return spec('l', 0, 0, d)
    if klass == 'drum':
        return spec('d', rng.randint(0, 11), 0, d)
    if klass == 'x':
        return spec('x', rng.randint(0, 3), 0, d)
    k = rng.choice(['s', 's', 's', 'h', 'h'] + SOUNDING)
    return spec(k, rng.randint(-9, 12), rng.randint(-2, 2), d, tags=rng.choice([(), (), ('accent',), ('mordant',)]))


def ctx_class(sp):
    if sp is None:
        return 'none'
    return {'r': 'rest', 'l': 'cont', 'd': 'drum', 'x': 'x'}.get(sp['kind'], 'note')


def rand_base(rng, dur, tags):
    x = rng.random()
    if x < 0.08:
        return spec('r', 0, 0, dur, tags)
    if x < 0.14:
        return spec('l', 0, 0, dur, tags)
    k = rng.choice(['s', 's', 's', 'h'] + SOUNDING)
    return spec(k, rng.randint(-7, 9), rng.randint(-1, 1), dur, tags)


def rand_tags(rng, kmax=5):
    x = rng.random()
    if x < 0.1:
        return []
    if x < 0.45:
        k = 1
    elif x < 0.7:
        k = 2
    elif x < 0.85:
        k = 3
    else:
        k = rng.randint(4, kmax)
    t = rng.sample(TAGS, k)
    if rng.random() < 0.05:
        t.append(rng.choice(['staccato', 'legato', 'foo']))   # tags the realiser does not know
    return t


def note_case_inputs(ctx, n_triples, n_random):
    """the enumerated + random (note, last, next) inputs of the note stream"""
    rng = ctx.rng
    durs = table_durations()
    out = []
    lasts = ['none', 'note', 'rest']
    nexts = ['none', 'up', 'down', 'same', 'rest']
    for t in TAGS:
        for d in durs:
            for lk in lasts:
                for nk in nexts:
                    base = spec('s', rng.randint(-3, 6), rng.randint(-1, 1), d, [t]) if rng.random() < 0.7 else \
                        rand_base(rng, d, [t])
                    last = rand_ctx(rng, lk)
                    if nk in ('up', 'down', 'same'):
                        dv = {'up': rng.randint(1, 9), 'down': -rng.randint(1, 9), 'same': 0}[nk]
                        nxt = spec('s', base['val'] + dv, base['oct'], 1) if base['kind'] == 's' else \
                            spec('s', dv, rng.randint(-1, 1), 1)
                    else:
                        nxt = rand_ctx(rng, nk)
                    out.append((base, last, nxt))
    for t1, t2 in itertools.combinations(TAGS, 2):
        for d in durs:
            out.append((rand_base(rng, d, [t1, t2]), rand_ctx(rng), rand_ctx(rng)))
    triples = list(itertools.combinations(TAGS, 3))
    for _ in range(n_triples):
        out.append((rand_base(rng, rng.choice(durs), rng.choice(triples)), rand_ctx(rng), rand_ctx(rng)))
    return out + random_note_inputs(rng, n_random)


def random_note_inputs(rng, n):
    out = []
    for _ in range(n):
        tags = rand_tags(rng)
        d = rand_duration(rng)
        if len(tags) > 3 and d > 2:      # the figure grows geometrically with the number of tags
            d = d / 4
        out.append((rand_base(rng, d, tags), rand_ctx(rng), rand_ctx(rng)))
    # all fifteen tags at once on short notes
    for d in [Fraction(0), Fraction(1, 8), Fraction(1, 4), Fraction(1, 3), Fraction(1, 2), Fraction(3, 4), Fraction(1)]:
        out.append((spec('s', 0, 0, d, TAGS), rand_ctx(rng, 'note'), rand_ctx(rng, 'note')))
    return out


def rand_melody_spec(rng, n_notes=(1, 6), p_tag=0.6, safe=False):
    notes = []
    for _ in range(rng.randint(*n_notes)):
        d = rand_duration(rng, p_table=0.85, p_big=0.03)
        if rng.random() < p_tag:
            tags = [rng.choice(TAGS)] if safe else rand_tags(rng, kmax=5)
        else:
            tags = []
        notes.append(rand_base(rng, d, tags))
    return notes


def rand_score_spec(rng, n_chords=(1, 4), names=('piano__0', 'violin__0', 'cello__0'), kinds=('s', 'h', 'a')):
    chords = []
    for _ in range(rng.randint(*n_chords)):
        parts = []
        for nm in names:
            if rng.random() < 0.25 and len(names) > 1:
                continue
            notes = []
            for _ in range(rng.randint(1, 4)):
                d = rng.choice(table_durations()) if rng.random() < 0.9 else rand_rational(rng)
                tags = rand_tags(rng, kmax=4) if rng.random() < 0.5 else []
                x = rng.random()
                if x < 0.12:
                    notes.append(spec('r', 0, 0, d, tags))
                elif x < 0.22:
                    notes.append(spec('l', 0, 0, d, tags))
                else:
                    notes.append(spec(rng.choice(kinds), rng.randint(-5, 8), rng.randint(-1, 1), d, tags))
            parts.append([nm, notes])
        if not parts:
            parts.append([names[0], [spec('s', 0, 0, 1, [rng.choice(TAGS)])]])
        chords.append({'elem': rng.randrange(7), 'ext': rng.choice(['', '6', '64', '7']), 'deg': rng.randrange(12),
                       'mode': rng.choice(['M', 'm', 'mm', 'dorian']), 'toct': rng.randint(-1, 1),
                       'coct': rng.randint(-1, 1), 'parts': parts})
    return chords

# ----------------------------------------------------------------------------- canonical outputs of the real code


def pieces_of(out):
    from musiclang import Melody
    return list(out.notes) if isinstance(out, Melody) else [out]


def show_durs(out):
    if out is None:
        return 'None'
    return '(' + ' '.join(frac_str(p.duration) for p in pieces_of(out)) + ')'


def show_score(sc):
    if sc is None:
        return 'None'
    return '|'.join('(' + ' '.join('(' + ' '.join([k] + [frac_str(n.duration) for n in m.notes]) + ')'
                                   for k, m in c.score.items()) + ')' for c in sc.chords)


class no_pitch:
    """the rows streams look at the OFFSET and DURATION columns only: the pitch calculus (C01/C09, with its own
    failure modes on far-away relative notes) is replaced by a constant while the rows are produced"""
    def __enter__(self):
        import musiclang.write.out.to_midi as T
        self.T, self.old = T, T.note_to_pitch_result
        T.note_to_pitch_result = lambda *a, **k: 0

    def __exit__(self, *a):
        self.T.note_to_pitch_result = self.old


def midi_rows(score):
    from musiclang.write.out.to_midi import get_notes
    with no_pitch():
        return get_notes(score)


def show_rows(score):
    from musiclang.write.out.to_midi import get_track_list
    from musiclang.write.constants import OFFSET, DURATION, TRACK
    rows = midi_rows(score)
    n = len(get_track_list(score))
    return '|'.join('(' + ' '.join(f'({frac_str(r[OFFSET])} {frac_str(r[DURATION])})' for r in rows if r[TRACK] == t) + ')'
                    for t in range(n))


def is_tagged(sp):
    return any(t in TAGS for t in sp['tags'])


def dur_class(d):
    d = Fraction(d)
    if d == 0:
        return 'zero'
    if d in table_durations():
        return 'table'
    return 'bigden' if d.denominator > 83 else 'rational'

# ----------------------------------------------------------------------------- correspondence


def correspondence(ctx):
    rng = ctx.rng
    # --- Fraction.limit_denominator
    cases = []
    qs = [Fraction(1, 1998), Fraction(-1, 1998), Fraction(501, 999) / 2, Fraction(692353, 346176), Fraction(0),
          Fraction(1, 1001), Fraction(1000, 1001), Fraction(-7, 6996), Fraction(3, 2000), Fraction(1, 2000)]
    for _ in range(ctx.n(1500, 40000)):
        den = rng.choice([rng.randint(1, 1000), rng.randint(1001, 4000), rng.randint(1001, 10 ** 6),
                          rng.choice([1998, 2000, 12000, 5994, 11988, 24000])])
        qs.append(Fraction(rng.randint(-4 * den, 4 * den), den))
    for q in qs:
        cases.append({'line': sx('limit', q), 'impl': py_res(lambda: q.limit_denominator(_limit()), frac_str),
                      'input': {'q': frac_str(q)}, 'bucket': 'den>max' if q.denominator > _limit() else 'den<=max',
                      'nontrivial': q.denominator > _limit()})
    ctx.compare('limit', 'C16', cases)

    # --- Note.realize_tags
    cases = []
    for base, last, nxt in note_case_inputs(ctx, ctx.n(700, 13000), ctx.n(2500, 60000)):
        cases.append(note_case(base, last, nxt))
    # malformed: negative durations, raw denominators beyond the limit
    for _ in range(ctx.n(150, 2000)):
        d = -rand_rational(rng) if rng.random() < 0.5 else Fraction(rng.randint(1, 5000), rng.randint(1001, 3000))
        cases.append(note_case(rand_base(rng, d, rand_tags(rng, kmax=4)), rand_ctx(rng), rand_ctx(rng), malformed=True))
    ctx.compare('note', 'C16', cases)

    # --- Melody.realize_tags
    cases = []
    for i in range(ctx.n(700, 12000)):
        notes = rand_melody_spec(rng, safe=(i % 2 == 0))
        last, final = rand_ctx(rng), rand_ctx(rng)
        cases.append(melody_case(notes, last, final))
    cases.append(melody_case([], None, None))
    cases.append(melody_case([], spec('s', 1, 0, 1), spec('s', 2, 0, 1)))
    ctx.compare('melody', 'C16', cases)

    # --- Score.realize_tags and the MIDI rows (offset, duration) of tagged scores
    cases, cases2 = [], []
    scores = [rand_score_spec(rng) for _ in range(ctx.n(160, 2500))]
    # malformed: an empty part somewhere
    for _ in range(ctx.n(12, 100)):
        sp = rand_score_spec(rng, n_chords=(1, 3))
        c = rng.choice(sp)
        rng.choice(c['parts'])[1][:] = []
        scores.append(sp)
    scores.append([])
    for sp in scores:
        sc = mk_score(sp)
        enc = enc_score(sc)
        tagged = any(is_tagged(n) for c in sp for _, ns in c['parts'] for n in ns)
        empty = any(not ns for c in sp for _, ns in c['parts'])
        b = [f'chords={len(sp)}', 'tagged' if tagged else 'plain'] + (['empty-part'] if empty else [])
        cases.append({'line': sx('score', enc), 'impl': py_res(lambda: sc.realize_tags(), show_score),
                      'input': {'score': sp}, 'bucket': b, 'nontrivial': tagged})
        cases2.append({'line': sx('rows', enc), 'impl': py_res(lambda: show_rows(sc)),
                       'input': {'score': sp}, 'bucket': b, 'nontrivial': tagged})
    ctx.compare('score', 'C16', cases)
    ctx.compare('rows', 'C16', cases2)

    # --- source tie (DESIGN §9.6): the builders and realize_tags at function level, against the model and the source image
    import srctie
    srctie.run(ctx, SRC_TIE, quick=200, thorough=3000)      # per builder; 4x for realize_tags


def _limit():
    from musiclang.write.note import LIMIT_DENOM
    return LIMIT_DENOM


def note_case(base, last, nxt, malformed=False):
    n, ln, nn = mk_note(base), mk_note(last), mk_note(nxt)
    tags = [t for t in base['tags'] if t in TAGS]
    b = [f'ntags={min(len(tags), 4)}', f'dur={dur_class(base["dur"])}', f'last={ctx_class(last)}',
         f'next={ctx_class(nxt)}', f'kind={base["kind"]}'] + [f'tag={t}' for t in tags]
    if malformed:
        b.append('malformed')
    return {'line': sx('note', enc_note(n), enc_note(ln) if ln is not None else '-', enc_note(nn) if nn is not None else '-'),
            'impl': py_res(lambda: n.realize_tags(last_note=ln, next_note=nn), show_durs),
            'input': {'note': base, 'last': last, 'next': nxt}, 'bucket': b, 'nontrivial': bool(tags)}


def melody_case(notes, last, final):
    m, ln, fn = mk_melody(notes), mk_note(last), mk_note(final)
    tagged = sum(1 for s in notes if is_tagged(s))
    return {'line': sx('melody', [enc_note(n) for n in m.notes], enc_note(ln) if ln is not None else '-',
                       enc_note(fn) if fn is not None else '-'),
            'impl': py_res(lambda: m.realize_tags(last_note=ln, final_note=fn), show_durs),
            'input': {'melody': notes, 'last': last, 'final': final},
            'bucket': [f'len={len(notes)}', f'tagged={min(tagged, 3)}', f'last={ctx_class(last)}', f'final={ctx_class(final)}'],
            'nontrivial': tagged > 0}

# ----------------------------------------------------------------------------- the property itself (oracles)


def span_failure(durs, d):
    """the property on one figure: pieces non-negative and summing to the note's duration"""
    durs = [Fraction(x) for x in durs]
    neg = [frac_str(x) for x in durs if x < 0]
    if neg:
        return 'negative-piece', f'pieces {[frac_str(x) for x in durs]}'
    if sum(durs) != d:
        return 'total', f'pieces {[frac_str(x) for x in durs]} sum {frac_str(sum(durs))}'
    return None


def run_note(inp):
    """(kind, observed) when the property fails on this (note, last, next), else None"""
    n, ln, nn = mk_note(inp['note']), mk_note(inp.get('last')), mk_note(inp.get('next'))
    d = Fraction(n.duration)
    try:
        out = n.realize_tags(last_note=ln, next_note=nn)
    except Exception as e:  # noqa
        return type(e).__name__, f'{type(e).__name__}: {str(e)[:160]}'
    if out is None:
        return 'None', 'None'
    return span_failure([p.duration for p in pieces_of(out)], d)


def out_of_scope(name, inp):
    """inputs the property does not talk about: negative note durations, empty melodies / parts / scores"""
    if name == 'note':
        return Fraction(inp['note']['dur']) < 0
    if name == 'melody':
        return not inp['melody'] or any(Fraction(n['dur']) < 0 for n in inp['melody'])
    return not inp['score'] or any(not ns or any(Fraction(n['dur']) < 0 for n in ns)
                                   for c in inp['score'] for _, ns in c['parts'])


def check_note(inp):
    if out_of_scope('note', inp):
        return None
    r = run_note(inp)
    if r is None:
        return None
    return {'observed': r[1], 'expected': f'a figure of non-negative pieces summing to {inp["note"]["dur"]}'}


def onsets(durs):
    t, out = Fraction(0), []
    for x in durs:
        out.append(t)
        t += Fraction(x)
    return out, t


def run_melody(inp):
    m, ln, fn = mk_melody(inp['melody']), mk_note(inp.get('last')), mk_note(inp.get('final'))
    orig = [Fraction(n.duration) for n in m.notes]
    try:
        out = m.realize_tags(last_note=ln, final_note=fn)
    except Exception as e:  # noqa
        return type(e).__name__, f'{type(e).__name__}: {str(e)[:160]}'
    got = [Fraction(p.duration) for p in pieces_of(out)]
    return melody_span_failure(orig, got)


def melody_span_failure(orig, got):
    r = span_failure(got, sum(orig, Fraction(0)))
    if r:
        return r
    # every original note still starts where it started (its figure fills exactly its span)
    on_o, _ = onsets(orig)
    on_g, _ = onsets(got)
    missing = [frac_str(t) for t in on_o if t not in set(on_g)]
    if missing:
        return 'onset', f'original onsets {missing} are no piece boundary of {[frac_str(x) for x in got]}'
    return None


def check_melody(inp):
    if out_of_scope('melody', inp):
        return None
    r = run_melody(inp)
    if r is None:
        return None
    return {'observed': r[1], 'expected': 'same total duration, non-negative pieces, every original onset kept'}


def run_score(inp):
    sc = mk_score(inp['score'])
    try:
        out = sc.realize_tags()
    except Exception as e:  # noqa
        return type(e).__name__, f'{type(e).__name__}: {str(e)[:160]}'
    for c0, c1 in zip(sc.chords, out.chords):
        if list(c0.score.keys()) != list(c1.score.keys()):
            return 'parts', f'parts {list(c1.score.keys())} != {list(c0.score.keys())}'
        for k in c0.score:
            r = melody_span_failure([Fraction(n.duration) for n in c0.score[k].notes],
                                    [Fraction(n.duration) for n in c1.score[k].notes])
            if r:
                return r[0], f'part {k}: {r[1]}'
    if len(sc.chords) != len(out.chords):
        return 'chords', f'{len(out.chords)} chords'
    return None


def check_score(inp):
    if out_of_scope('score', inp):
        return None
    r = run_score(inp)
    if r is None:
        return None
    return {'observed': r[1], 'expected': 'every part of every chord keeps its duration and onsets'}


def run_rows(inp):
    """MIDI rows of the tagged score against the rows of the same score without tags"""
    from musiclang.write.out.to_midi import get_track_list
    from musiclang.write.constants import OFFSET, DURATION, TRACK
    sc = mk_score(inp['score'])
    plain = mk_score([{**c, 'parts': [[k, [{**n, 'tags': []} for n in ns]] for k, ns in c['parts']]} for c in inp['score']])
    try:
        rows = midi_rows(sc)
    except Exception as e:  # noqa
        return type(e).__name__, f'{type(e).__name__}: {str(e)[:160]}'
    rows0 = midi_rows(plain)
    for t in range(len(get_track_list(sc))):
        a = [(Fraction(r[OFFSET]), Fraction(r[DURATION])) for r in rows if r[TRACK] == t]
        b = [(Fraction(r[OFFSET]), Fraction(r[DURATION])) for r in rows0 if r[TRACK] == t]
        if any(d < 0 for _, d in a):
            return 'negative-piece', f'track {t}: {[(frac_str(o), frac_str(d)) for o, d in a]}'
        if any(a[i][0] > a[i + 1][0] for i in range(len(a) - 1)):
            return 'onset', f'track {t}: onsets go backwards {[frac_str(o) for o, _ in a]}'
        miss = [frac_str(o) for o, _ in b if o not in {o for o, _ in a}]
        if miss:
            return 'onset', f'track {t}: onsets {miss} of the written notes are lost'
        if a and b and a[-1][0] + a[-1][1] != b[-1][0] + b[-1][1]:
            return 'total', f'track {t} ends at {frac_str(a[-1][0] + a[-1][1])}, written end {frac_str(b[-1][0] + b[-1][1])}'
    return None


def check_rows(inp):
    if out_of_scope('rows', inp):
        return None
    r = run_rows(inp)
    if r is None:
        return None
    return {'observed': r[1], 'expected': 'onsets of the written notes kept, no negative duration, same end per track'}


ORACLES = {'note': check_note, 'melody': check_melody, 'score': check_score, 'rows': check_rows}
RUNNERS = {'note': run_note, 'melody': run_melody, 'score': run_score, 'rows': run_rows}


class exact_arithmetic:
    """run the library without the 1/1000 rounding (LIMIT_DENOM is read at call time)"""
    def __enter__(self):
        import musiclang.write.note as N
        self.N, self.old = N, N.LIMIT_DENOM
        N.LIMIT_DENOM = 10 ** 18

    def __exit__(self, *a):
        self.N.LIMIT_DENOM = self.old


def only_rounding(name, inp, kind):
    """the failure is the assertion of realize_tags and disappears in exact arithmetic"""
    if kind != 'AssertionError':
        return False
    with exact_arithmetic():
        return RUNNERS[name](inp) is None


def shrink_note(inp, kind):
    """drop tags / neighbours while the same kind of failure remains"""
    cur = {'note': dict(inp['note']), 'last': inp.get('last'), 'next': inp.get('next')}
    changed = True
    while changed:
        changed = False
        for t in list(cur['note']['tags']):
            cand = {**cur, 'note': {**cur['note'], 'tags': [x for x in cur['note']['tags'] if x != t]}}
            r = run_note(cand)
            if r is not None and r[0] == kind:
                cur, changed = cand, True
        for side in ('last', 'next'):
            if cur[side] is not None:
                cand = {**cur, side: None}
                r = run_note(cand)
                if r is not None and r[0] == kind:
                    cur, changed = cand, True
    return cur


def report(ctx, name, inp, r):
    kind, observed = r
    if only_rounding(name, inp, kind):
        ctx.fail(SIG_ROUNDING, inp, observed, 'no exception: the figure fills the span of the note', oracle=name)
        return
    if name == 'note':
        small = shrink_note(inp, kind)
        if kind == 'AssertionError':
            # the failure is not the rounding alone: look for the cause in exact arithmetic, where the
            # minimal tag set is not blurred by rounded sums (its replay then passes on a correct tree)
            with exact_arithmetic():
                r2 = run_note(inp)
                small2 = shrink_note(inp, r2[0]) if r2 is not None else None
            if small2 is not None and run_note(small2) is not None:
                small = small2
        kind = run_note(small)[0]
        sig = 'note:' + ('+'.join(small['note']['tags']) or 'untagged') + ':' + kind
        ctx.fail(sig, small, run_note(small)[1], f'a figure of non-negative pieces summing to {small["note"]["dur"]}',
                 oracle='note')
    else:
        ctx.fail(f'{name}:{kind}', inp, observed, ORACLES[name](inp)['expected'], oracle=name)


WITNESSES = [   # §6-D8 and the other inputs that failed before the repair (replayed first)
    {'note': spec('s', 0, 0, 1, ['grupetto']), 'last': None, 'next': None},
    {'note': spec('s', 0, 0, Fraction(1, 3), ['roll']), 'last': None, 'next': None},
    {'note': spec('s', 0, 0, Fraction(1, 4), ['roll_fast']), 'last': None, 'next': None},
    {'note': spec('s', 0, 0, Fraction(1, 20), ['retarded']), 'last': None, 'next': None},
    {'note': spec('s', 0, 0, 1, ['mordant', 'interpolate']), 'last': None, 'next': spec('s', 4, 0, 1)},
    {'note': spec('s', 0, 0, 0, ['roll']), 'last': None, 'next': None},
    {'note': spec('s', 0, 0, 0, ['suspension_prev', 'suspension_prev_repeat']), 'last': spec('s', 1, 0, 1), 'next': None},
    {'note': spec('s', 0, 0, Fraction(2, 7), ['roll_fast', 'retarded']), 'last': None, 'next': None},
    {'note': spec('s', 0, 0, 2, ['mordant', 'inv_grupetto', 'retarded']), 'last': None, 'next': None},
    {'note': spec('s', 0, 0, Fraction(1, 999), ['suspension_prev']), 'last': spec('s', 3, 0, 1), 'next': None},
]


def oracle(ctx):
    rng = ctx.rng
    todo = {'note': [], 'melody': [], 'score': [], 'rows': []}
    for s, i in ctx.suspects:
        if s in todo and i:
            todo[s].append(i)
    todo['note'] += WITNESSES
    # enumerated: every tag x every table duration x every neighbour class; every pair x every table duration
    durs = table_durations()
    lasts = [None, spec('s', 3, 0, 1), spec('h', 5, 0, 1, ['mordant']), spec('r', 0, 0, 1), spec('l', 0, 0, 1)]
    nexts = [None, spec('s', 3, 0, 1), spec('s', 1, 1, 1), spec('s', -2, 0, 1), spec('s', 0, 0, 1), spec('h', 5, 0, 1),
             spec('r', 0, 0, 1), spec('l', 0, 0, 1), spec('d', 3, 0, 1)]
    for t in TAGS:
        for d in durs:
            for ln in lasts:
                for nn in nexts:
                    todo['note'].append({'note': spec('s', 0, 0, d, [t]), 'last': ln, 'next': nn})
            todo['note'].append({'note': spec('h', 3, -1, d, [t]), 'last': lasts[1], 'next': nexts[1]})
            todo['note'].append({'note': spec('r', 0, 0, d, [t]), 'last': lasts[1], 'next': nexts[1]})
    for t1, t2 in itertools.combinations(TAGS, 2):
        for d in durs:
            todo['note'].append({'note': spec('s', 0, 0, d, [t1, t2]), 'last': lasts[1], 'next': nexts[2]})
    for base, last, nxt in random_note_inputs(rng, ctx.n(3000, 80000)):
        todo['note'].append({'note': base, 'last': last, 'next': nxt})
    for i in range(ctx.n(500, 10000)):
        todo['melody'].append({'melody': rand_melody_spec(rng, safe=(i % 2 == 0)), 'last': rand_ctx(rng), 'final': rand_ctx(rng)})
    for _ in range(ctx.n(120, 2000)):
        sp = rand_score_spec(rng)
        todo['score'].append({'score': sp})
        todo['rows'].append({'score': sp})
    for name in ('note', 'melody', 'score', 'rows'):
        for inp in todo[name]:
            if ORACLES[name] is check_note:
                bucket = [f'note:ntags={min(len(inp["note"]["tags"]), 4)}', f'note:dur={dur_class(inp["note"]["dur"])}']
            else:
                bucket = name
            ctx.count('oracle', key=(name, str(inp)), bucket=bucket)
            try:
                if out_of_scope(name, inp):
                    continue
                r = RUNNERS[name](inp)
            except Exception as e:  # an unusable suspect (e.g. a malformed input of the correspondence run)
                ctx.note(f'oracle {name}: input skipped ({type(e).__name__})')
                continue
            if r is not None:
                report(ctx, name, inp, r)
