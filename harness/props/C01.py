"""C01 — a note's pitch in a chord is the documented one."""
import sys
sys.dont_write_bytecode = True
from fractions import Fraction
import core, gen
from core import sx, enc_note, enc_chord, py_res, show_ints, show_opt_int

ID = 'C01'
LEAN_MODULES = ['MV.Props.C01', 'MV.Props.C01b']
LEAN_HELPERS = ['MV.Lemmas.Shift', 'MV.Lemmas.Ext', 'MV.Lemmas.Scale', 'MV.Model.Pitch', 'MV.Model.Rel', 'MV.Model.Basic', 'MV.Model.Types']
DRIVERS = ['C01']
GEN = ['Tables', 'Library']
SRC_TIE = ['SrcPitch', 'SrcOps']   # py2lean source images proved equal to the model (MV/Props/Tie*.lean)
RULE = ('stratified (chord, note) pairs: every mode x degree x base figure at least once, random tonic/octaves, '
        'modifiers, all five non-relative systems, accidentals and per-note modes; a case is non-trivial when the '
        'note sounds (kind in s h c b a d); distinct = distinct request line')
TRUSTED = ['model of pitches_utils.note_to_pitch_result / Chord.scale_pitches / _chord_notes_calc is hand-written '
           '(MV/Model/Pitch.lean) and tied to the code by the correspondence streams pitch/scale/chordp/extp']
ASSUMPTIONS = ['chord degree in 0..6 (the seven library Elements)',
               'accidental cells are only constrained by the table laws (the docs give no cell values)']

STEPS = {'M': [2, 2, 1, 2, 2, 2, 1]}


def spec_scale(mode):
    """documented scales, independent of the library tables and of the Lean model"""
    maj = [2, 2, 1, 2, 2, 2, 1]
    church = ['M', 'dorian', 'phrygian', 'lydian', 'mixolydian', 'aeolian', 'locrian']
    if mode in church:
        k = church.index(mode)
        steps = maj[k:] + maj[:k]
    elif mode == 'm':
        steps = [2, 1, 2, 2, 1, 3, 1]
    elif mode == 'mm':
        steps = [2, 1, 2, 2, 2, 2, 1]
    else:
        raise KeyError(mode)
    out, acc = [], 0
    for s in steps:
        out.append(acc)
        acc += s
    return out


def deg_semitone(L, j):
    return L[j % 7] + 12 * (j // 7)


def expected_pitch(chord, note):
    """the documented pitch of a non-relative note (None when this oracle has no opinion)"""
    from musiclang import Tonality
    t = chord.tonality if chord.tonality is not None else Tonality(0)      # a bare chord is in C major
    mode = note.mode if note.mode is not None else t.mode
    L = spec_scale(mode)
    base = t.degree + 12 * t.octave + 12 * chord.octave
    e = chord.element
    if note.type == 's' and note.accident is None:
        return base + deg_semitone(L, e + note.val % 7) + 12 * (note.val // 7 + note.octave)
    if note.type == 'h':
        return base + deg_semitone(L, e) + note.val + 12 * note.octave
    if note.type == 'a':
        return note.val + 12 * note.octave
    if note.type == 's' and note.accident is not None:
        nat = spec_scale('M')[note.val % 7]
        root = base + deg_semitone(L, e)
        # the accidental overrides the chord scale: interval above the root within one semitone of the
        # major interval, ordered dim <= min <= natural = maj <= aug  (checked as a range)
        lo, hi = {'natural': (nat, nat), 'maj': (nat, nat), 'min': (nat - 1, nat), 'dim': (nat - 1, nat),
                  'aug': (nat, nat + 1)}[note.accident]
        return (root + lo + 12 * note.octave, root + hi + 12 * note.octave)
    if note.type in ('c', 'b'):
        arp = chord.chord_pitches if note.type == 'c' else chord.chord_extension_pitches
        n = len(arp)
        return arp[note.val % n] + 12 * (note.val // n + note.octave)
    return None


def mk_chord(inp):
    """the chord of an input; `bare` = written without a tonality (the library then means C major)"""
    from musiclang import Chord, Tonality
    ton = None if inp.get('bare') else Tonality(inp['deg'], inp['mode'], inp['toct'])
    return Chord(inp['elem'], extension=inp['ext'], tonality=ton, octave=inp['coct'])


def check_pitch(inp):
    """oracle `pitch`: inp = dict(elem, ext, deg, mode, toct, coct, note=(type,val,oct,mode,acc))"""
    from musiclang import Note
    c = mk_chord(inp)
    k, v, o, m, a = inp['note']
    n = Note(k, v, o, 1, mode=m, accident=a)
    try:
        if m is not None or a is not None:
            # the plain note first, on the same chord object: the pitch of a note must not depend on what was asked
            # before (seed C03-5: a memoised pitch function keyed on an equality that ignores the accidental), and a
            # replay in a fresh process then shows the same thing
            c.to_pitch(Note(k, v, o, 1))
        got = c.to_pitch(n)
    except ZeroDivisionError as e:
        # a figure whose omissions remove every chord tone ('5{-1}{-3}{-5}') has no arpeggio to count along: the
        # library's stated error branch for chord- and bass-tone notes (the model returns the same error); any other
        # note kind, or a chord that has tones, must not raise
        arp_empty = k in ('c', 'b') and len(c.chord_pitches if k == 'c' else c.chord_extension_pitches) == 0
        if arp_empty:
            return None
        return {'observed': f'{type(e).__name__}: {e}', 'expected': 'a pitch'}
    except Exception as e:
        return {'observed': f'{type(e).__name__}: {e}', 'expected': 'a pitch'}
    exp = expected_pitch(c, n)
    if exp is None:
        return None

    def ok(g):
        if isinstance(exp, tuple):
            return g is not None and exp[0] <= g <= exp[1]
        return g == exp
    if not ok(got):
        return {'observed': None if got is None else int(got), 'expected': exp}
    # the same pitch through the other public routes: the function the exporters call directly, and the note
    # matrix of a one-note score (seed C01-6 moved the per-note mode resolution into Chord.to_pitch only)
    try:
        from musiclang.write.pitches.pitches_utils import note_to_pitch_result
        from musiclang.write.out.to_midi import get_notes
        from musiclang import Score
        g2 = note_to_pitch_result(n, c)
        rows = get_notes(Score([c(piano__0=n)]))
        g3 = int(rows[0][0]) if rows else None
    except Exception as e:
        return {'observed': f'other route: {type(e).__name__}: {e}', 'expected': exp}
    for route, g in (('note_to_pitch_result', g2), ('get_notes', g3)):
        if g is None or int(g) != int(got):
            return {'observed': {route: None if g is None else int(g)}, 'expected': {'Chord.to_pitch': int(got), 'documented': exp}}
    return None


def check_arpeggio(inp):
    """plain figures: chord tones are stacked thirds of the chord scale, inversions rotate them"""
    c = mk_chord(inp)
    L = spec_scale(inp['mode'])
    base = inp['deg'] + 12 * inp['toct'] + 12 * inp['coct']
    size = {'': 3, '5': 3, '6': 3, '64': 3, '7': 4, '65': 4, '43': 4, '2': 4, '9': 5, '11': 6, '13': 7}[inp['ext']]
    inv = {'6': 1, '64': 2, '65': 1, '43': 2, '2': 3}.get(inp['ext'], 0)
    root_arp = [base + deg_semitone(L, inp['elem'] + 2 * i) for i in range(size)]
    inv_arp = root_arp[inv:] + [p + 12 for p in root_arp[:inv]]
    got = (list(map(int, c.chord_pitches)), list(map(int, c.chord_extension_pitches)))
    if got == (root_arp, inv_arp):
        return None
    return {'observed': got, 'expected': (root_arp, inv_arp)}


def check_scale_table(inp):
    from musiclang.write.constants import SCALES
    got = list(SCALES[inp['mode']])
    exp = spec_scale(inp['mode'])
    return None if got == exp else {'observed': got, 'expected': exp}


def check_acc_table(inp):
    from musiclang.write.constants import ACCIDENTS_TO_NOTE as A
    v = inp['val']
    nat = spec_scale('M')[v]
    row = {a: A.get((v, a)) for a in gen.ACCS}
    ok = (None not in row.values() and row['natural'] == nat and row['maj'] == nat
          and row['dim'] <= row['min'] <= nat <= row['aug'] and nat - 1 <= row['dim'] and row['aug'] <= nat + 1
          and (v not in (0, 3, 4) or row['min'] == nat))
    return None if ok else {'observed': row, 'expected': f'natural=maj={nat}, dim<=min<=natural<=aug within a semitone'}




def chord_inp(c, text):
    if c.tonality is None:
        return {'elem': int(c.element), 'ext': text, 'deg': 0, 'mode': 'M', 'toct': 0, 'coct': int(c.octave), 'bare': True}
    return {'elem': int(c.element), 'ext': text, 'deg': int(c.tonality.degree), 'mode': c.tonality.mode,
            'toct': int(c.tonality.octave), 'coct': int(c.octave)}


def check_spelling(inp):
    """oracle `spelling`: flats and sharps move a tonality by exactly one semitone each, whatever the spelling crosses
    (C flat is below C, B sharp above B), keep the mode and leave the degree in 0..11"""
    from musiclang import Tonality
    t = Tonality(inp['deg'], inp['mode'], inp['oct'])
    want = inp['deg'] + 12 * inp['oct']
    for ch in inp['chain']:
        t = t.b if ch == 'b' else t.s
        want += -1 if ch == 'b' else 1
    got = (int(t.degree) + 12 * int(t.octave), t.mode, 0 <= t.degree < 12)
    return None if got == (want, inp['mode'], True) else {'observed': got, 'expected': (want, inp['mode'], True)}


ORACLES = {'pitch': check_pitch, 'arpeggio': check_arpeggio, 'scale_table': check_scale_table,
           'acc_table': check_acc_table, 'spelling': check_spelling}


def gen_pairs(ctx, n_random):
    """stratified chords x notes"""
    rng = ctx.rng
    from musiclang import Chord, Tonality
    pairs = []
    for mode in gen.MODES:
        for elem in range(7):
            for fig in gen.FIGS:
                c = Chord(elem, extension=fig, tonality=Tonality(rng.randrange(12), mode, rng.randint(-2, 2)),
                          octave=rng.randint(-2, 2))
                for _ in range(2):
                    pairs.append((c, fig, gen.rand_note(rng)))
    for _ in range(n_random):
        c, text = gen.rand_chord(rng)
        pairs.append((c, text, gen.rand_note(rng, vals=(-40, 40), octs=(-6, 6))))
        if rng.random() < 0.15:
            # a near-duplicate on the SAME chord object (equal but for accidental / mode): caches keyed on an
            # equality that omits a field only go wrong on these (seed C03-5)
            pairs.append((c, text, gen.sibling_note(rng, pairs[-1][2], 1, 1, 0)))
    # every accidental cell, right after the plain note on the same chord object
    for v in range(7):
        for a in gen.ACCS:
            c, text = gen.rand_chord(rng, ext='')
            from musiclang import Note
            o = rng.randint(-2, 2)
            pairs.append((c, text, Note('s', v, o, 1)))
            pairs.append((c, text, Note('s', v, o, 1, accident=a)))
    # bare chords: written without a tonality (C major is meant), at any chord octave (seed C02-4)
    for _ in range(12 + n_random // 60):
        fig = rng.choice(gen.FIGS)
        c = Chord(rng.randrange(7), extension=fig, tonality=None, octave=rng.randint(-3, 3))
        pairs.append((c, fig, gen.rand_note(rng, p_mode=0.1)))
    # drums / rests / continuations / pattern notes
    from musiclang import Note
    for k in ['d', 'r', 'l', 'x']:
        c, text = gen.rand_chord(rng)
        pairs.append((c, text, Note(k, rng.randint(0, 11), rng.randint(-2, 2), 1)))
    return pairs


def correspondence(ctx):
    pairs = gen_pairs(ctx, ctx.n(1500, 60000))
    cases = []
    for c, text, n in pairs:
        line = sx('pitch', enc_chord(c, ext_text=text), enc_note(n), '-')
        impl = py_res(lambda: c.to_pitch(n), show_opt_int)
        cases.append({'line': line, 'impl': impl, 'input': {**chord_inp(c, text), 'note': (n.type, int(n.val), int(n.octave), n.mode, n.accident)},
                      'bucket': [f'kind={n.type}', f'mode={c.tonality.mode if c.tonality is not None else "bare"}', f'fig={core.split_ext(text)[0]}',
                                 'acc' if n.accident else 'noacc', 'notemode' if n.mode else 'chordmode'],
                      'nontrivial': n.type in 'shcbad'})
    ctx.compare('pitch', 'C01', cases)
    # chord-level streams on the distinct chords
    cases = []
    seen = set()
    for c, text, _ in pairs:
        key = (c.element, text, c.tonality.degree, c.tonality.mode, c.tonality.octave, c.octave) if c.tonality is not None \
            else (c.element, text, 'bare', c.octave)
        if key in seen:
            continue
        seen.add(key)
        enc = enc_chord(c, ext_text=text)
        cases.append({'line': sx('scale', enc), 'impl': py_res(lambda: c.scale_pitches, show_ints), 'input': chord_inp(c, text),
                      'bucket': 'op=scale'})
        cases.append({'line': sx('chordp', enc), 'impl': py_res(lambda: c.chord_pitches, show_ints), 'input': chord_inp(c, text),
                      'bucket': 'op=chordp'})
        cases.append({'line': sx('extp', enc), 'impl': py_res(lambda: c.chord_extension_pitches, show_ints), 'input': chord_inp(c, text),
                      'bucket': 'op=extp'})
    ctx.compare('chord', 'C01', cases)
    # kernel-level streams of the source tie (DESIGN §9.6)
    import srctie
    srctie.run(ctx, SRC_TIE, kernels=['v2s', 'npr', 'cscale', 'cchrom', 'tscale', 'to', 'tflat', 'tsharp', 'co'])


def oracle(ctx):
    """the property itself on the implementation: every table cell, then (chord, note) pairs"""
    for m in gen.MODES:
        inp = {'mode': m}
        ctx.count('oracle', key=('scale', m), bucket='scale_table')
        r = check_scale_table(inp)
        if r:
            ctx.fail(f'scale_table:{m}', inp, r['observed'], r['expected'], oracle='scale_table')
    for v in range(7):
        inp = {'val': v}
        ctx.count('oracle', key=('acc', v), bucket='acc_table')
        r = check_acc_table(inp)
        if r:
            ctx.fail(f'acc_table:{v}', inp, r['observed'], r['expected'], oracle='acc_table')
    # suspects first
    todo = [i for s, i in ctx.suspects if s == 'pitch' and i]
    pairs = gen_pairs(ctx, ctx.n(800, 40000))
    for c, text, n in pairs:
        todo.append({**chord_inp(c, text), 'note': (n.type, int(n.val), int(n.octave), n.mode, n.accident)})
    for inp in todo:
        ctx.count('oracle', key=str(inp), bucket=f'pitch:{inp["note"][0]}')
        try:
            r = check_pitch(inp)
        except Exception as e:  # an invalid suspect chord
            continue
        if r:
            ctx.fail(f'pitch:{inp["note"][0]}', inp, r['observed'], r['expected'], oracle='pitch')
    # enharmonic spellings: chains of flats / sharps from every tonic, across the C / B edge of the table (seed C01-4)
    rng = ctx.rng
    for deg in range(12):
        for chain in ['b', 's', 'bb', 'ss', 'bs', 'sb', 'bbb', 'sss'] + [''.join(rng.choice('bs') for _ in range(rng.randint(1, 5)))]:
            inp = {'deg': deg, 'mode': rng.choice(gen.MODES), 'oct': rng.randint(-2, 2), 'chain': chain}
            ctx.count('oracle', key=str(inp), bucket='spelling')
            r = check_spelling(inp)
            if r:
                ctx.fail(f'spelling:{chain[0]}', inp, r['observed'], r['expected'], oracle='spelling')
    # plain arpeggios: all figures x degrees x modes, and bare chords (no tonality) at several octaves
    for fig in gen.FIGS:
        for elem in range(7):
            inp = {'elem': elem, 'ext': fig, 'deg': 0, 'mode': 'M', 'toct': 0, 'coct': rng.randint(-2, 2), 'bare': True}
            ctx.count('oracle', key=str(inp), bucket='arpeggio:bare')
            r = check_arpeggio(inp)
            if r:
                ctx.fail(f'arpeggio:bare:{fig}', inp, r['observed'], r['expected'], oracle='arpeggio')
    for mode in gen.MODES:
        for elem in range(7):
            for fig in gen.FIGS:
                inp = {'elem': elem, 'ext': fig, 'deg': rng.randrange(12), 'mode': mode, 'toct': rng.randint(-1, 1),
                       'coct': rng.randint(-1, 1)}
                ctx.count('oracle', key=str(inp), bucket='arpeggio')
                r = check_arpeggio(inp)
                if r:
                    ctx.fail(f'arpeggio:{fig}', inp, r['observed'], r['expected'], oracle='arpeggio')
