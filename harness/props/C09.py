"""C09 — relative notes move by exactly k steps from the previous sounded pitch."""
import sys
sys.dont_write_bytecode = True
import core, gen
from core import sx, enc_note, enc_chord, py_res, show_opt_int

ID = 'C09'
LEAN_MODULES = ['MV.Props.C09', 'MV.Props.C09b']
LEAN_HELPERS = ['MV.Lemmas.RelShift', 'MV.Lemmas.Window', 'MV.Lemmas.Asc', 'MV.Model.Rel', 'MV.Model.Pitch', 'MV.Model.Basic']
DRIVERS = ['C01']
GEN = ['Tables', 'Library']
SRC_TIE = ['SrcRel']   # py2lean source images proved equal to the model (MV/Props/Tie*.lean)
RULE = ('(chord, relative note, previous pitch) triples: 8 relative kinds x pcs of real chords (7-, 12-, 3..7-tone '
        'systems incl. modifiers) x previous pitch in -72..84 on and off the system x val/octave; plus raw '
        'get_relative_scale_value calls on arbitrary pitch-class sets; non-trivial = request distinct and step count != 0 '
        'or reference off the system')
TRUSTED = ['model of relative_scale_up/down_value and get_relative_scale_value (MV/Model/Rel.lean) is hand-written, '
           'tied to the code by the streams rel/relraw', 'numpy indexing semantics (negative index wraps, out of range raises)']
ASSUMPTIONS = ['results inside the +-10 octave window of the implementation; outside it code and model raise IndexError']


def system_pcs(chord, note):
    """pitch classes of the system a relative note moves in (independent of the model)"""
    k = note.type[0]
    if k == 's':
        real = chord if note.mode is None else chord.change_mode(note.mode)
        return sorted({p % 12 for p in real.scale_pitches})
    if k == 'h':
        return list(range(12))
    if k == 'c':
        return sorted({p % 12 for p in chord.chord_pitches})
    if k == 'b':
        return sorted({p % 12 for p in chord.chord_extension_pitches})
    raise ValueError(k)


def step(pcs, last, k):
    """k-th system pitch strictly above (k>0) / below (k<0) `last`; k == 0: nearest, ties up"""
    S = set(pcs)
    if not S:
        # a figure whose omissions remove every chord tone leaves an empty chord- / bass-tone system: nothing to step
        # along (the library raises ZeroDivisionError there); without this guard the loops below never end
        raise ZeroDivisionError('empty system')
    if k > 0:
        x = last
        while k:
            x += 1
            if x % 12 in S:
                k -= 1
        return x
    if k < 0:
        x = last
        while k:
            x -= 1
            if x % 12 in S:
                k += 1
        return x
    if last % 12 in S:
        return last
    up = last
    while up % 12 not in S:
        up += 1
    down = last
    while down % 12 not in S:
        down -= 1
    return up if up - last <= last - down else down


def expected_rel(chord, note, last):
    pcs = system_pcs(chord, note)
    total = note.val + len(pcs) * note.octave
    if note.type[1] == 'd':
        total = -total
    return step(pcs, last, total)


def mk(inp):
    from musiclang import Chord, Tonality, Note
    c = Chord(inp['elem'], extension=inp['ext'], tonality=Tonality(inp['deg'], inp['mode'], inp['toct']),
              octave=inp['coct'])
    k, v, o, m = inp['note']
    return c, Note(k, v, o, 1, mode=m)


def check_rel(inp):
    c, n = mk(inp)
    exp = expected_rel(c, n, inp['last'])
    try:
        got = int(c.to_pitch(n, last_pitch=inp['last']))
    except Exception as e:
        got = f'{type(e).__name__}: {e}'
    if got == exp:
        return None
    if not (-120 <= exp < 120) and isinstance(got, str) and got.startswith('IndexError'):
        return None      # outside the +-10 octave window the library raises: the stated error branch
    return {'observed': got, 'expected': exp}


def check_inverse(inp):
    """from a system pitch, up k then down k returns"""
    from musiclang import Note
    c, n = mk(inp)
    pcs = system_pcs(c, n)
    if not pcs:
        return None          # empty system (every chord tone omitted): outside the claim
    p = inp['last']
    while p % 12 not in pcs:
        p += 1
    k = n.type[0]
    up = Note(k + 'u', n.val, n.octave, 1, mode=n.mode)
    dn = Note(k + 'd', n.val, n.octave, 1, mode=n.mode)
    if up.val + len(pcs) * up.octave <= 0:
        return None
    if not (-120 <= expected_rel(c, up, p) < 120):
        return None
    try:
        r = c.to_pitch(up, last_pitch=p)
        back = int(c.to_pitch(dn, last_pitch=r))
    except Exception as e:
        return {'observed': f'{type(e).__name__}: {e}', 'expected': p}
    return None if back == p else {'observed': back, 'expected': p}


def check_thread(inp):
    """the reference pitch survives rests, continuations and chord changes (render level)"""
    from musiclang import Score
    from musiclang.write.out.to_midi import get_notes
    score = Score.from_str(inp['score']) if isinstance(inp, dict) and 'score' in inp else None
    if inp.get('plain_rests'):
        import sound
        score = sound.plain_rests(score)       # rests as plain notes of type 'r' (what replace(x, r) produces): seed C09-6
    exp = []
    last = None
    for ch in score.chords:
        (part, mel), = ch.score.items()
        for n in mel.notes:
            if n.type in ('r', 'l'):
                continue
            if n.is_relative:
                last = expected_rel(ch, n, last)
            else:
                last = int(ch.to_pitch(n))
            exp.append(last)
    got = [int(r[0]) for r in get_notes(score) if not r[5] and not r[6]]
    return None if got == exp else {'observed': got, 'expected': exp}


ORACLES = {'rel': check_rel, 'inverse': check_inverse, 'thread': check_thread}


def gen_triples(ctx, n):
    rng = ctx.rng
    out = []
    for _ in range(n):
        c, text = gen.rand_chord(rng, octaves=(-1, 1))
        note = gen.rand_note(rng, kinds=gen.REL, vals=(0, 9), octs=(-2, 2), p_acc=0)
        pcs = system_pcs(c, note)
        x = rng.random()
        last = rng.randint(-72, 84)
        if x < 0.5 and pcs:  # on the system (an empty system - every chord tone omitted - has no such pitch)
            while last % 12 not in pcs:
                last += 1
        inp = {'elem': int(c.element), 'ext': text, 'deg': int(c.tonality.degree), 'mode': c.tonality.mode,
               'toct': int(c.tonality.octave), 'coct': int(c.octave),
               'note': (note.type, int(note.val), int(note.octave), note.mode), 'last': last}
        out.append((c, text, note, last, inp))
    return out


def correspondence(ctx):
    from musiclang.write.pitches.pitches_utils import get_relative_scale_value
    from musiclang import Note
    trip = gen_triples(ctx, ctx.n(4000, 120000))
    cases = []
    for c, text, n, last, inp in trip:
        total = n.val + len(system_pcs(c, n)) * n.octave
        cases.append({'line': sx('pitch', enc_chord(c, ext_text=text), enc_note(n), last),
                      'impl': py_res(lambda: c.to_pitch(n, last_pitch=last), show_opt_int), 'input': inp,
                      'bucket': [f'kind={n.type}', f'size={len(system_pcs(c, n))}',
                                 'on' if last % 12 in system_pcs(c, n) else 'off', 'k0' if total == 0 else 'k!=0'],
                      'nontrivial': total != 0 or last % 12 not in system_pcs(c, n)})
    ctx.compare('rel', 'C01', cases)
    # raw function on arbitrary pitch-class sets (incl. duplicates, unsorted, far references -> IndexError)
    rng = ctx.rng
    cases = []
    for _ in range(ctx.n(1500, 40000)):
        size = rng.randint(1, 8)
        scale = [rng.randint(-30, 40) for _ in range(size)]
        kind = rng.choice(gen.REL)
        n = Note(kind, rng.randint(0, 14), rng.randint(-3, 3), 1)
        last = rng.choice([rng.randint(-72, 84), rng.randint(-140, 140)])
        cases.append({'line': sx('rel', n.is_down, int(n.val), int(n.octave), last, scale),
                      'impl': py_res(lambda: int(get_relative_scale_value(n, last, scale))),
                      'input': {'raw': (kind, int(n.val), int(n.octave), last, scale)},
                      'bucket': [f'size={size}', 'far' if abs(last) > 90 else 'near']})
    ctx.compare('relraw', 'C01', cases)
    # kernel-level streams of the source tie (DESIGN §9.6)
    import srctie
    srctie.run(ctx, SRC_TIE)


def oracle(ctx):
    todo = [i for s, i in ctx.suspects if s == 'rel' and i]
    trip = gen_triples(ctx, ctx.n(2500, 80000))
    for inp in todo + [t[4] for t in trip]:
        ctx.count('oracle', key=str(inp), bucket=f'rel:{inp["note"][0]}')
        try:
            r = check_rel(inp)
        except Exception:
            continue
        if r:
            ctx.fail(f'rel:{inp["note"][0]}', inp, r['observed'], r['expected'], oracle='rel')
    for t in trip[:ctx.n(600, 20000)]:
        inp = t[4]
        ctx.count('oracle', key='inv' + str(inp), bucket='inverse')
        r = check_inverse(inp)
        if r:
            ctx.fail(f'inverse:{inp["note"][0][0]}', inp, r['observed'], r['expected'], oracle='inverse')
    # threading through rests, continuations and chord changes
    rng = ctx.rng
    from musiclang import Score
    for _ in range(ctx.n(150, 3000)):
        s = gen.rand_score(rng, n_chords=(2, 4), parts=('piano__0',), p_absent=0, kinds=gen.NONREL + gen.REL * 2,
                           p_rest=0.25, p_cont=0.2, p_acc=0, p_mode=0.1, p_amp=0, vals=(0, 6), octs=(-1, 1))
        # make sure a non-relative note sounds first
        from musiclang.library import s0
        first = s.chords[0]
        s.chords[0] = first(piano__0=s0 + first.score['piano__0'])
        inp = {'score': str(s), 'plain_rests': rng.random() < 0.4}
        ctx.count('oracle', key=inp['score'], bucket='thread')
        try:
            r = check_thread(inp)
        except IndexError:
            continue
        if r:
            ctx.fail('thread', inp, r['observed'], r['expected'], oracle='thread')
