"""C05 — the text form of any object evaluates back to an equal object."""
import sys
sys.dont_write_bytecode = True
import ast, copy, json, os, pickle, tempfile, warnings
from fractions import Fraction
import core, gen
from core import sx, SX, py_res, frac_str

ID = 'C05'
LEAN_MODULES = ['MV.Props.C05', 'MV.Props.C05b', 'MV.Props.C05c']
LEAN_HELPERS = ['MV.Lemmas.Text', 'MV.Lemmas.TextPrint', 'MV.Lemmas.TextChord', 'MV.Lemmas.TextScore', 'MV.Lemmas.Rows',
                'MV.Model.Text', 'MV.Model.Equality', 'MV.Model.Duration', 'MV.Model.ExtText', 'MV.Model.Render',
                'MV.Model.Pitch', 'MV.Model.Rel', 'MV.Model.Basic', 'MV.Model.Types', 'MV.Lemmas.Duration',
                'MV.Lemmas.Equality', 'MV.Lemmas.Window', 'MV.Lemmas.Asc']
DRIVERS = ['C05']
GEN = ['Tables', 'Library', 'Dynamics', 'NoteAttrs']
SRC_TIE = ['SrcText']   # py2lean source images of Note.to_code / amp_figure and of the melody / tonality / chord / custom chord / score printers proved equal to the text of the model's codes (MV/Props/TieSrcText.lean)
RULE = ('objects described field by field over the library symbols (17 kinds x every library value, octaves, table '
        'and augment durations, modes, accidentals, the nine dynamics and integer amplitudes, tags; chords over every '
        'degree / valid extension text / tonality / octave with 1..4 parts incl. drums; custom chords; scores of 1..5 '
        'chords); streams print (str(x) == model text), ops (ast.parse(str(x)) == model chain), eval (real eval of a '
        'random chain == model evaluator, incl. invalid names and extensions), fromstr (Score.from_str(str(score)) == '
        'model, incl. nesting), rows (to_sequence / from_sequence); a case is non-trivial when the object is not a '
        'bare symbol; distinct = distinct request line')
TRUSTED = ['model of to_code / __repr__ (printer) and of the attribute / method protocol (evaluator) is hand-written '
           '(MV/Model/Text.lean) and tied to the code by the streams print / ops / eval / fromstr / rows',
           "Python's eval of the printed text: parsing into the attribute chain, left-to-right application "
           '(exercised by the streams ops and eval, not proved)',
           'pickle, copy.deepcopy, file I/O, pandas (DataFrame construction, sort_values, groupby): runtime behaviours, '
           'exercised by the oracle, not proved; the model of from_sequence takes the row order pandas produced as input',
           'amp_figure is computed with floats by the code and with exact rationals by the model (table Dynamics, C20)']
ASSUMPTIONS = ['note symbols are library symbols (kind and value of a module-level note of musiclang.library)',
               'rests / continuations are Silence / Continuation objects: compared on kind, duration, tags (their '
               'constructor takes nothing else; copy() rebuilds them from these)',
               'tempo and pedal marks are not part of the compared fields (the property lists kind, value, octave, '
               'duration, mode, accidental, dynamics figure, tags); scores with such marks are outside the sound clause',
               'tags are identifier-like strings (the set is printed with repr)',
               'chords carry a tonality with degree 0..11 and a degree 0..6; part names are name__index; drums parts '
               'hold drum notes, rests and continuations (what Chord.__call__ produces); melodies are non-empty',
               'one-note melodies are read back as a note (Melody.__eq__ accepts it): compared as note lists',
               'velocity of the re-read object is the one of its dynamics figure (the text holds the figure, not the '
               'amplitude; the figure n, amplitude <= 0, is written .set_amp(0))',
               'DataFrame clause: positive durations (ties in start are ordered by an unstable sort), parts compared as '
               'a dictionary (groupby order), at least one note per chord']

MODES = gen.MODES
ACCS = gen.ACCS
DYN = ['ppp', 'pp', 'p', 'mp', 'mf', 'f', 'ff', 'fff']
ORNAMENTS = ['interpolate', 'accent', 'mordant', 'chroma_mordant', 'inv_chroma_mordant', 'inv_mordant', 'grupetto',
             'inv_grupetto', 'chroma_grupetto', 'inv_chroma_grupetto', 'roll', 'roll_fast', 'suspension_prev',
             'suspension_prev_repeat', 'retarded']
TAGS = ['accent', 'mordant', 'staccato', 'a', 'b', 'c', 'interpolate', 'trill', 'roll', 'x1', 'x2', 'label']
PARTS = ['piano__0', 'violin__0', 'cello__0', 'flute__1', 'piano__1', 'drums_0__0', 'drums__1', 'harp__12']
ELEMS = ['I', 'II', 'III', 'IV', 'V', 'VI', 'VII']
ALL_KINDS = ['s', 'h', 'c', 'b', 'a', 'd', 'x', 'r', 'l', 'su', 'sd', 'hu', 'hd', 'cu', 'cd', 'bu', 'bd']


def esc(s):
    return s.replace('\n', '\\n').replace('\t', '\\t')


def dyn_amp(name):
    return {'ppp': 120 * 0.16, 'pp': 120 * 0.26, 'p': 120 * 0.36, 'mp': 120 * 0.5, 'mf': 120 * 0.65, 'f': 120 * 0.8,
            'ff': 120 * 0.9, 'fff': 120 * 0.95}[name]


_LIB = {}


def lib_values():
    """kind -> values of the library symbols `<kind><val>`"""
    if not _LIB:
        import musiclang.library as L
        from musiclang import Note
        for k, v in vars(L).items():
            if isinstance(v, Note) and v.type not in ('r', 'l') and k == f'{v.type}{v.val}' and v.octave == 0:
                _LIB.setdefault(v.type, []).append(int(v.val))
    return _LIB


def namespace():
    import musiclang.library as L
    return dict(vars(L))

# ----------------------------------------------------------------------------- descriptions <-> objects


def amp_of(a):
    return dyn_amp(a) if isinstance(a, str) else a


def note_from_j(j):
    from musiclang import Note, Silence, Continuation
    dur = Fraction(j['dur'])
    tags = set(j.get('tags', []))
    if j['type'] == 'r':
        n = Silence(dur, tags=tags)
    elif j['type'] == 'l':
        n = Continuation(dur, tags=tags)
    else:
        n = Note(j['type'], j['val'], j['oct'], dur, mode=j.get('mode'), accident=j.get('acc'),
                 amp=amp_of(j.get('amp', 66)), tags=tags)
    if n.duration != dur:          # denominators > 1000 (reached by chaining .t7.t7.t7): bypass the constructor
        n.duration = dur
    if j['type'] not in ('r', 'l') and n.amp != amp_of(j.get('amp', 66)):
        # the source object has exactly the described fields whatever the constructor does with them
        # (seed C05-1: `amp or DEFAULT_AMP` in __init__ made amplitude 0 unreachable through the constructor,
        # while .set_amp(0) still reaches it)
        n.amp = amp_of(j.get('amp', 66))
    return n


def melody_from_j(js):
    from musiclang import Melody
    return Melody([note_from_j(n) for n in js])


def ton_from_j(j):
    from musiclang import Tonality
    return Tonality(j['deg'], j['mode'], j['oct'])


def item_from_j(j):
    from musiclang import Chord
    from musiclang.write.custom_chord import CustomChord
    score = {name: melody_from_j(m) for name, m in j['parts']}
    if j.get('custom'):
        return CustomChord(tuple(note_from_j(n) for n in j['notes']), tonality=ton_from_j(j['ton']), octave=j['oct'],
                           score=score)
    return Chord(j['elem'], extension=j['ext'], tonality=ton_from_j(j['ton']), octave=j['oct'], score=score)


def score_from_j(j):
    from musiclang import Score
    return Score([item_from_j(c) for c in j['items']])


def build(kind, j):
    return {'note': note_from_j, 'melody': melody_from_j, 'tonality': ton_from_j, 'item': item_from_j,
            'score': score_from_j}[kind](j)

# ----------------------------------------------------------------------------- encoding for the driver


def amp_frac(amp):
    return Fraction(*amp.as_integer_ratio()) if isinstance(amp, float) else Fraction(amp)


def enc_note(n, sort_tags=False):
    tags = sorted(n.tags) if sort_tags else list(n.tags)
    return SX(sx('n', n.type, int(n.val), int(n.octave), Fraction(n.duration), n.mode, n.accident, amp_frac(n.amp),
                 tags, n.tempo, n.pedal))


def enc_melody(m, sort_tags=False):
    return [enc_note(n, sort_tags) for n in m.notes]


def enc_ton(t):
    return SX(sx('t', int(t.degree), t.mode, int(t.octave)))


def enc_chord(c, sort_tags=False):
    parts = [[k, enc_melody(m, sort_tags)] for k, m in c.score.items()]
    return SX(sx('c', int(c.element), core.enc_ext(c.extension), enc_ton(c.tonality), int(c.octave), parts))


def is_custom(c):
    return type(c).__name__ == 'CustomChord'


def enc_item(c, sort_tags=False):
    if is_custom(c):
        return SX(sx('x', [enc_note(n, sort_tags) for n in c.notes], enc_chord(c, sort_tags)))
    return SX(sx('p', enc_chord(c, sort_tags)))


def enc_obj(o):
    """element of Score.chords after from_str: a chord, or (defect) a nested score"""
    from musiclang import Score
    if isinstance(o, Score):
        return SX(sx('score', *[enc_item(c, True) for c in o.chords]))
    return enc_item(o, True)

# ----------------------------------------------------------------------------- text -> chain, by Python's own parser


class NotInGrammar(Exception):
    pass


def _int(node):
    v = ast.literal_eval(node)
    if not isinstance(v, int) or isinstance(v, bool):
        raise NotInGrammar(ast.dump(node))
    return v


def note_chain(node):
    ops = []
    while True:
        if isinstance(node, ast.Name):
            return ['k', node.id, ops[::-1]]
        if isinstance(node, ast.Attribute):
            ops.append(['attr', node.attr])
            node = node.value
        elif isinstance(node, ast.Call) and isinstance(node.func, ast.Attribute) and len(node.args) == 1 and not node.keywords:
            name, arg = node.func.attr, node.args[0]
            if name in ('o', 'oabs'):
                ops.append([name, _int(arg)])
            elif name == 'augment':
                if not (isinstance(arg, ast.Call) and isinstance(arg.func, ast.Name) and arg.func.id == 'frac'
                        and len(arg.args) == 2):
                    raise NotInGrammar(ast.dump(node))
                ops.append(['aug', _int(arg.args[0]), _int(arg.args[1])])
            elif name == 'set_amp':
                ops.append(['setamp', _int(arg)])
            elif name == 'add_tags':
                if not isinstance(arg, ast.Set):
                    raise NotInGrammar(ast.dump(node))
                ops.append(['tags', sorted(ast.literal_eval(e) for e in arg.elts)])
            else:
                raise NotInGrammar(ast.dump(node))
            node = node.func.value
        else:
            raise NotInGrammar(ast.dump(node))


def melody_chain(node):
    out = []
    while isinstance(node, ast.BinOp) and isinstance(node.op, ast.Add):
        out.append(note_chain(node.right))
        node = node.left
    out.append(note_chain(node))
    return out[::-1]


def ton_chain(node):
    ops = []
    while True:
        if isinstance(node, ast.Name):
            return ['tc', node.id, ops[::-1]]
        if isinstance(node, ast.Attribute):
            ops.append(node.attr if node.attr in ('b', 's') else ['m', node.attr])
            node = node.value
        elif (isinstance(node, ast.Call) and isinstance(node.func, ast.Attribute) and node.func.attr == 'o'
              and len(node.args) == 1):
            ops.append(['o', _int(node.args[0])])
            node = node.func.value
        else:
            raise NotInGrammar(ast.dump(node))


def ext_sx(text):
    fig, repl, add, rem = core.split_ext(text)
    return ['e', fig if fig else '""', repl, add, rem]


def item_chain(node):
    """a chord / custom chord expression `HEAD(part=melody, ...)`"""
    if not (isinstance(node, ast.Call) and not node.args or isinstance(node, ast.Call)):
        raise NotInGrammar(ast.dump(node))
    parts = [[kw.arg, melody_chain(kw.value)] for kw in node.keywords]
    head = node.func
    oct_ = '-'
    if isinstance(head, ast.Call) and isinstance(head.func, ast.Attribute) and head.func.attr == 'o' and len(head.args) == 1:
        oct_ = _int(head.args[0])
        head = head.func.value
    if isinstance(head, ast.BinOp) and isinstance(head.op, ast.Mod):
        left = head.left
        ext = '-'
        if isinstance(left, ast.Subscript):
            ext = ext_sx(ast.literal_eval(left.slice))
            left = left.value
        if not isinstance(left, ast.Name):
            raise NotInGrammar(ast.dump(node))
        return ['cc', left.id, ext, ton_chain(head.right), oct_, parts]
    if isinstance(head, ast.Call):          # custom chord: TON(note, ...)
        return ['xc', ton_chain(head.func), [note_chain(a) for a in head.args], oct_, parts]
    raise NotInGrammar(ast.dump(node))


def to_sx(x):
    if isinstance(x, list):
        return '(' + ' '.join(to_sx(i) for i in x) + ')'
    return str(x)


def parse_text(kind, text):
    node = ast.parse(text.replace('\n', '').strip(), mode='eval').body
    if kind == 'note':
        return to_sx(note_chain(node))
    if kind == 'tonality':
        return to_sx(ton_chain(node))
    return to_sx(item_chain(node))

# ----------------------------------------------------------------------------- chain -> text (harness side renderer of the eval stream)


def render_op(op):
    if op[0] == 'attr':
        return '.' + op[1]
    if op[0] in ('o', 'oabs'):
        return f'.{op[0]}({op[1]})'
    if op[0] == 'aug':
        return f'.augment(frac({op[1]}, {op[2]}))'
    if op[0] == 'tags':
        return '.add_tags({' + ', '.join(repr(t) for t in op[1]) + '})'
    if op[0] == 'setamp':
        return f'.set_amp({op[1]})'
    raise ValueError(op)


def render_code(c):
    return c['sym'] + ''.join(render_op(o) for o in c['ops'])


def render_melody(cs):
    return ' + '.join(render_code(c) for c in cs)


def render_tcode(t):
    out = t['sym']
    for o in t['ops']:
        out += '.' + o if isinstance(o, str) else (f'.o({o[1]})' if o[0] == 'o' else '.' + o[1])
    return out


def render_parts(parts):
    return '(' + ', '.join(f'{k}={render_melody(m)}' for k, m in parts) + ')'


def render_item(c):
    o = '' if c['oct'] is None else f".o({c['oct']})"
    if c.get('custom'):
        return render_tcode(c['ton']) + '(' + ','.join(render_code(n) for n in c['notes']) + ')' + o + render_parts(c['parts'])
    ext = '' if c['ext'] is None else f"[{c['ext']!r}]"
    return f"({c['sym']}{ext} % {render_tcode(c['ton'])})" + o + render_parts(c['parts'])


def enc_code(c):
    ops = []
    for o in c['ops']:
        if o[0] == 'tags':
            ops.append(['tags', list(o[1])])
        else:
            ops.append(list(o))
    return SX(sx('k', c['sym'], ops))


def enc_tcode(t):
    return SX(sx('tc', t['sym'], [o if isinstance(o, str) else list(o) for o in t['ops']]))


def enc_partcodes(parts):
    return [[k, [enc_code(c) for c in m]] for k, m in parts]


def enc_itemcode(c):
    o = '-' if c['oct'] is None else c['oct']
    if c.get('custom'):
        return SX(sx('xc', enc_tcode(c['ton']), [enc_code(n) for n in c['notes']], o, enc_partcodes(c['parts'])))
    ext = '-' if c['ext'] is None else core.enc_ext(c['ext'])
    return SX(sx('cc', c['sym'], ext, enc_tcode(c['ton']), o, enc_partcodes(c['parts'])))

# ----------------------------------------------------------------------------- random descriptions


def rdur(rng, wide=True):
    from musiclang.write.constants import STR_TO_DURATION
    x = rng.random()
    if x < 0.35:
        return '1'
    if x < 0.8:
        return frac_str(Fraction(STR_TO_DURATION[rng.choice(list(STR_TO_DURATION))]))
    if x < 0.97 or not wide:
        return frac_str(Fraction(rng.randint(1, 40), rng.choice([1, 2, 3, 4, 5, 6, 7, 8, 9, 11, 16, 24, 125, 999, 1000])))
    return frac_str(Fraction(rng.randint(1, 5), rng.choice([1001, 21952, 1024])))      # outside the resolution


def ramp(rng, zero=True):
    x = rng.random()
    if x < 0.45:
        return 66
    if x < 0.8:
        return rng.choice(DYN)
    if x < 0.94 or not zero:
        return rng.randint(1, 127)
    return 0


def rtags(rng):
    if rng.random() < 0.65:
        return []
    return rng.sample(TAGS, rng.choice([1, 1, 2, 2, 3]))


def rnote_j(rng, kinds=None, wide=True, plain_p=0.0):
    L = lib_values()
    k = rng.choice(kinds or ALL_KINDS)
    if k in ('r', 'l'):
        return {'type': k, 'val': 0, 'oct': 0, 'dur': rdur(rng, wide), 'mode': None, 'acc': None, 'amp': 66,
                'tags': rtags(rng)}
    j = {'type': k, 'val': rng.choice(L[k]), 'oct': rng.choice([0, 0, 0, 1, -1, 2, -3, 5]), 'dur': rdur(rng, wide),
         'mode': None, 'acc': None, 'amp': ramp(rng, zero=wide), 'tags': rtags(rng)}
    if rng.random() < plain_p:
        j.update(oct=0, amp=66, tags=[])
        return j
    if rng.random() < 0.25:
        j['mode'] = rng.choice(MODES)
    if rng.random() < 0.25:
        j['acc'] = rng.choice(ACCS)
    return j


def rmelody_j(rng, n=(1, 4), kinds=None, wide=True):
    return [rnote_j(rng, kinds=kinds, wide=wide) for _ in range(rng.randint(*n))]


def rton_j(rng):
    return {'deg': rng.randrange(12), 'mode': rng.choice(MODES), 'oct': rng.choice([0, 0, 0, 1, -1, 2, -4])}


def text_is_structured(text):
    """the library's regex parser reads the text as the written structure (no modifier is a substring of another)"""
    from musiclang import Chord
    fig, repl, add, rem = core.split_ext(text)
    try:
        got = core.split_ext(Chord(0, extension=text).extension)
    except Exception:
        return False
    return got == (fig, sorted(repl), sorted(add), sorted(rem)) and fig in gen.FIGS


def rext(rng, valid=True):
    for _ in range(60):
        text = gen.rand_ext_text(rng, max_mods=3, p_plain=0.4)
        if not text_is_structured(text):
            continue
        if not valid:
            return text
        try:
            from musiclang import Chord, Tonality
            Chord(0, extension=text, tonality=Tonality(0)).extension_notes
            return text
        except Exception:
            continue
    return ''


DRUM_KINDS = ['d', 'd', 'd', 'r', 'l']


def rparts_j(rng, nparts=(1, 3), wide=True, kinds=None):
    names = rng.sample(PARTS, rng.randint(*nparts))
    return [[nm, rmelody_j(rng, kinds=DRUM_KINDS if nm.startswith('drums') else kinds, wide=wide)] for nm in names]


def rchord_j(rng, nparts=(1, 3), wide=True, kinds=None):
    return {'elem': rng.randrange(7), 'ext': rext(rng), 'ton': rton_j(rng), 'oct': rng.choice([0, 0, 1, -1, 3]),
            'parts': rparts_j(rng, nparts, wide, kinds)}


def rcustom_j(rng, nparts=(1, 2), wide=True, kinds=None):
    notes = [rnote_j(rng, kinds=['s', 'h', 's', 'a'], wide=False, plain_p=0.6) for _ in range(rng.randint(0, 4))]
    return {'custom': True, 'notes': notes, 'ton': rton_j(rng), 'oct': rng.choice([0, 0, 1, -2]),
            'parts': rparts_j(rng, nparts, wide, kinds)}


def ritem_j(rng, p_custom=0.2, **kw):
    return rcustom_j(rng, **kw) if rng.random() < p_custom else rchord_j(rng, **kw)


def rscore_j(rng, n=(1, 5), p_custom=0.2, **kw):
    return {'items': [ritem_j(rng, p_custom=p_custom, **kw) for _ in range(rng.randint(*n))]}

# --- random chains for the evaluator stream


def rcode(rng, p_bad=0.06):
    L = lib_values()
    x = rng.random()
    if x < p_bad:
        sym = rng.choice(['s7', 'q1', 'h12', 'zz', 'su7', 'S0'])
    elif x < 0.2:
        sym = rng.choice(['r', 'l'])
    else:
        k = rng.choice([k for k in ALL_KINDS if k not in ('r', 'l')])
        sym = f'{k}{rng.choice(L[k])}'
    from musiclang.write.constants import STR_TO_DURATION
    ops = []
    for _ in range(rng.choice([0, 1, 1, 2, 2, 3, 4, 6])):
        y = rng.random()
        if y < 0.22:
            ops.append(['attr', rng.choice(list(STR_TO_DURATION))])
        elif y < 0.34:
            ops.append(['o' if rng.random() < 0.6 else 'oabs', rng.choice([1, -1, 2, -3, 0, 7])])
        elif y < 0.46:
            ops.append(['aug', rng.choice([1, 2, 3, 5, 7, 11, -1, 0, 999, 1001, 4097]),
                        rng.choice([1, 2, 3, 4, 7, 8, 9, 16, 1000, 1001, -3, 0 if rng.random() < 0.15 else 5])])
        elif y < 0.56:
            ops.append(['attr', rng.choice(MODES)])
        elif y < 0.64:
            ops.append(['attr', rng.choice(ACCS)])
        elif y < 0.78:
            ops.append(['attr', rng.choice(DYN + ['n'])])
        elif y < 0.82:
            ops.append(['setamp', rng.choice([0, 0, 1, 40, 127, -3])])
        elif y < 0.86:
            ops.append(['tags', rng.sample(TAGS, rng.choice([0, 1, 2, 3]))])
        elif y < 0.93:
            ops.append(['attr', rng.choice(ORNAMENTS + ['pedal_on', 'pedal_off'])])
        else:
            ops.append(['attr', rng.choice(['zz', 'fortissimo', 'q9', 'Maj', 'ph'])])
    return {'sym': sym, 'ops': ops}


def rtcode(rng, valid=True, bare_ok=True):
    ops = []
    first = rng.choice(['b', 's', 'm', 'm', 'm'])
    ops.append(first if first != 'm' else ['m', rng.choice(MODES)])
    for _ in range(rng.choice([0, 0, 1, 1, 2, 3])):
        y = rng.random()
        if y < 0.25:
            ops.append('b')
        elif y < 0.5:
            ops.append('s')
        elif y < 0.8:
            ops.append(['m', rng.choice(MODES)])
        else:
            ops.append(['o', rng.choice([1, -1, 2, -5])])
    sym = rng.choice(ELEMS)
    if not valid:
        if rng.random() < 0.5 and bare_ok:
            ops = []                  # a bare element is not a tonality (as the head of a call it is a plain chord)
        else:
            sym = 'VIII'
    return {'sym': sym, 'ops': ops}


def rpartcodes(rng, allow_bad=False, drums_pure=False):
    names = rng.sample(PARTS + ['piano', 'violin__3'], rng.randint(0, 3))
    if allow_bad and rng.random() < 0.15:
        names.append(rng.choice(['piano__x', 'cello__', 'flute__1__2', 'oboe___2']))
    out = []
    for nm in names:
        ms = [rcode(rng, p_bad=0.01) for _ in range(rng.randint(1, 3))]
        if nm.startswith('drums') and (drums_pure or rng.random() < 0.7):
            for c in ms:                # mostly what the printer writes into a drums part
                if c['sym'][0] not in 'drl':
                    c['sym'] = rng.choice(['d3', 'd11', 'r', 'l', 'd0'])
        out.append([nm, ms])
    return out


def ritemcode(rng):
    if rng.random() < 0.2:
        return {'custom': True, 'ton': rtcode(rng, valid=rng.random() > 0.05, bare_ok=False),
                'notes': [rcode(rng, p_bad=0.01) for _ in range(rng.randint(0, 3))],
                'oct': rng.choice([None, None, 1, -2]), 'parts': rpartcodes(rng, drums_pure=True)}
    x = rng.random()
    ext = None if x < 0.4 else rext(rng, valid=rng.random() > 0.25)
    return {'sym': rng.choice(ELEMS) if rng.random() > 0.03 else 'VIII', 'ext': ext,
            'ton': rtcode(rng, valid=rng.random() > 0.05), 'oct': rng.choice([None, None, 1, -2, 0]),
            'parts': rpartcodes(rng, allow_bad=True)}

# ----------------------------------------------------------------------------- correspondence


def real_eval(text):
    from musiclang import Score
    return Score.from_str(text)


def show_note(n):
    from musiclang import Note
    if not isinstance(n, Note):
        return f'not-a-note:{type(n).__name__}'
    return str(enc_note(n, sort_tags=True))


def show_melody(m):
    from musiclang import Note
    notes = [m] if isinstance(m, Note) else m.notes
    return '(' + ' '.join(str(enc_note(n, True)) for n in notes) + ')'


def show_objs(res):
    from musiclang import Score, Chord
    objs = [res] if isinstance(res, Chord) else list(res.chords)
    return '(' + ' '.join(str(enc_obj(o)) for o in objs) + ')'


def note_bucket(j):
    b = [f"kind={j['type']}"]
    d = Fraction(j['dur'])
    b.append('dur=1' if d == 1 else ('dur=den>1000' if d.denominator > 1000 else 'dur=other'))
    if j['oct']:
        b.append('oct')
    if j['mode']:
        b.append('mode')
    if j['acc']:
        b.append('acc')
    if j['amp'] != 66:
        b.append('amp=dyn' if isinstance(j['amp'], str) else 'amp=int')
    if j['tags']:
        b.append('tags')
    return b


def correspondence(ctx):
    warnings.filterwarnings('ignore')
    rng = ctx.rng
    L = lib_values()
    # ---- notes: every library symbol bare, then random field combinations
    note_js = []
    for k in ALL_KINDS:
        if k in ('r', 'l'):
            note_js.append({'type': k, 'val': 0, 'oct': 0, 'dur': '1', 'mode': None, 'acc': None, 'amp': 66, 'tags': []})
            continue
        for v in L[k]:
            note_js.append({'type': k, 'val': v, 'oct': 0, 'dur': '1', 'mode': None, 'acc': None, 'amp': 66, 'tags': []})
    n_bare = len(note_js)
    note_js += [rnote_j(rng) for _ in range(ctx.n(900, 20000))]
    # every duration name, every dynamics, every mode / accidental on one note each
    from musiclang.write.constants import STR_TO_DURATION
    for nm, d in STR_TO_DURATION.items():
        note_js.append({'type': 's', 'val': 1, 'oct': 0, 'dur': frac_str(Fraction(d)), 'mode': None, 'acc': None, 'amp': 66, 'tags': []})
    for a in DYN + list(range(0, 128, 7)):
        note_js.append({'type': 'h', 'val': 3, 'oct': -1, 'dur': '1/2', 'mode': None, 'acc': None, 'amp': a, 'tags': []})
    cases_p, cases_o = [], []
    for i, j in enumerate(note_js):
        n = note_from_j(j)
        text = str(n)
        b = note_bucket(j)
        cases_p.append({'line': sx('ncode', enc_note(n)), 'impl': esc(text), 'input': {'kind': 'note', 'j': j},
                        'bucket': ['obj=note'] + b, 'nontrivial': i >= n_bare})
        if '-' not in text.split('.')[0]:
            cases_o.append({'line': sx('nops', enc_note(n)), 'impl': py_res(lambda: parse_text('note', text)),
                            'input': {'kind': 'note', 'j': j}, 'bucket': ['obj=note'] + b, 'nontrivial': i >= n_bare})
    # ---- melodies
    for _ in range(ctx.n(150, 3000)):
        j = rmelody_j(rng, n=(1, 6))
        m = melody_from_j(j)
        cases_p.append({'line': sx('mcode', enc_melody(m)), 'impl': esc(str(m)), 'input': {'kind': 'melody', 'j': j},
                        'bucket': ['obj=melody', f'len={len(j)}']})
    # ---- tonalities: all 12 x 9, octaves
    ton_js = [{'deg': d, 'mode': m, 'oct': o} for d in range(12) for m in MODES for o in (0, rng.choice([1, -1, 2, -7]))]
    ton_js += [{'deg': d, 'mode': 'M', 'oct': 0} for d in (-1, 12, 13)]        # KeyError of DEGREE_TO_STR
    for j in ton_js:
        t = ton_from_j(j)
        impl = py_res(lambda: str(t))
        cases_p.append({'line': sx('tcode', enc_ton(t)), 'impl': impl, 'input': {'kind': 'tonality', 'j': j},
                        'bucket': ['obj=tonality', f"mode={j['mode']}"]})
        cases_o.append({'line': sx('tops', enc_ton(t)), 'impl': py_res(lambda: parse_text('tonality', str(t))),
                        'input': {'kind': 'tonality', 'j': j}, 'bucket': ['obj=tonality']})
    # ---- chords / custom chords
    item_js = []
    for e in range(7):
        for fig in gen.FIGS:
            item_js.append({'elem': e, 'ext': fig, 'ton': rton_j(rng), 'oct': rng.choice([0, 1, -1]),
                            'parts': rparts_j(rng, (1, 2), wide=False)})
    item_js += [ritem_j(rng, p_custom=0.25) for _ in range(ctx.n(250, 6000))]
    item_js.append({'elem': 7, 'ext': '', 'ton': rton_j(rng), 'oct': 0, 'parts': []})      # KeyError of ELEMENT_TO_STR
    for j in item_js:
        c = item_from_j(j)
        impl = py_res(lambda: esc(str(c)))
        b = ['obj=custom' if j.get('custom') else 'obj=chord', f"parts={len(j['parts'])}",
             'fig=' + core.split_ext(j.get('ext', ''))[0], 'oct' if j['oct'] else 'oct=0']
        cases_p.append({'line': sx('icode', enc_item(c)), 'impl': impl, 'input': {'kind': 'item', 'j': j}, 'bucket': b})
        if not impl.startswith('ERR'):
            cases_o.append({'line': sx('iops', enc_item(c)), 'impl': py_res(lambda: parse_text('item', str(c))),
                            'input': {'kind': 'item', 'j': j}, 'bucket': b})
    # ---- scores
    score_js = [rscore_j(rng, p_custom=0.3) for _ in range(ctx.n(120, 3000))]
    for j in score_js:
        s = score_from_j(j)
        cases_p.append({'line': sx('scode', [enc_item(c) for c in s.chords]), 'impl': esc(str(s)),
                        'input': {'kind': 'score', 'j': j}, 'bucket': ['obj=score', f"chords={len(j['items'])}"]})
    ctx.compare('print', 'C05', cases_p)
    ctx.compare('ops', 'C05', cases_o)

    # ---- evaluator: random chains
    cases = []
    for _ in range(ctx.n(1500, 30000)):
        c = rcode(rng)
        text = render_code(c)
        cases.append({'line': sx('neval', enc_code(c)), 'impl': py_res(lambda: real_eval(text), show_note),
                      'input': {'kind': 'code', 'text': text}, 'bucket': ['ev=note', f"nops={len(c['ops'])}"] +
                      [f'op={o[0]}' for o in c['ops']], 'nontrivial': bool(c['ops'])})
    for _ in range(ctx.n(150, 3000)):
        cs = [rcode(rng, p_bad=0.02) for _ in range(rng.randint(1, 4))]
        text = render_melody(cs)
        cases.append({'line': sx('meval', [enc_code(c) for c in cs]), 'impl': py_res(lambda: real_eval(text), show_melody),
                      'input': {'kind': 'code', 'text': text}, 'bucket': ['ev=melody', f'len={len(cs)}']})
    ns = namespace()
    for _ in range(ctx.n(400, 6000)):
        t = rtcode(rng, valid=rng.random() > 0.06)
        text = render_tcode(t)

        def ev(text=text):
            from musiclang import Tonality
            r = eval(text, dict(ns))
            if not isinstance(r, Tonality):
                raise Exception('not a tonality')
            return r
        cases.append({'line': sx('teval', enc_tcode(t)), 'impl': py_res(ev, lambda r: str(enc_ton(r))),
                      'input': {'kind': 'code', 'text': text}, 'bucket': ['ev=tonality', f"nops={len(t['ops'])}"]})
    for _ in range(ctx.n(500, 10000)):
        c = ritemcode(rng)
        text = render_item(c)
        cases.append({'line': sx('ieval', enc_itemcode(c)), 'impl': py_res(lambda: real_eval(text), lambda r: str(enc_item(r, True))),
                      'input': {'kind': 'code', 'text': text},
                      'bucket': ['ev=custom' if c.get('custom') else 'ev=chord', f"parts={len(c['parts'])}",
                                 'ext' if c.get('ext') else 'noext']})
    ctx.compare('eval', 'C05', cases)

    # ---- from_str of whole scores (pieces, nesting, copies)
    cases = []
    shapes = [[0], [1], [0, 0], [0, 1], [1, 0], [1, 1], [0, 0, 1], [0, 1, 0], [1, 0, 0], [0, 0, 0, 1], [0, 1, 0, 1],
              [0, 0, 1, 1], [1, 0, 0, 1], [0, 1, 1, 0, 1]]
    js = []
    for sh in shapes:
        js.append({'items': [rcustom_j(rng, wide=False) if x else rchord_j(rng, wide=False) for x in sh]})
    js += [rscore_j(rng, p_custom=0.3, wide=False) for _ in range(ctx.n(150, 3000))]
    js += [rscore_j(rng, p_custom=0.15) for _ in range(ctx.n(60, 1500))]
    for j in js:
        s = score_from_j(j)
        shape = ''.join('x' if c.get('custom') else 'p' for c in j['items'])
        cases.append({'line': sx('reread', [enc_item(c) for c in s.chords]),
                      'impl': py_res(lambda: real_eval(str(s)), show_objs), 'input': {'kind': 'score', 'j': j},
                      'bucket': ['shape=' + shape[:5], f'chords={len(shape)}']})
    ctx.compare('fromstr', 'C05', cases)

    # ---- the tabular form
    cases = []
    for _ in range(ctx.n(60, 1200)):
        j = rscore_df_j(rng, strict=rng.random() < 0.7)
        s = score_from_j(j)
        impl_rows = py_res(lambda: s.to_sequence(), show_rows_sorted)
        cases.append({'line': sx('rows', SX(sx('s', *[enc_chord(c) for c in s.chords]))), 'impl': impl_rows,
                      'canon': canon_rows, 'input': {'kind': 'score', 'j': j}, 'bucket': ['df=rows']})
        try:
            df = s.to_sequence()
        except Exception:
            continue
        cases.append({'line': sx('fromrows', df_rows_sx(df)),
                      'impl': py_res(lambda: type(s).from_sequence(df), lambda r: '(' + ' '.join(str(enc_chord(c, True)) for c in r.chords) + ')'),
                      'input': {'kind': 'score', 'j': j}, 'bucket': ['df=fromrows', f'rows={len(df)}']})
    ctx.compare('rows', 'C05', cases)
    # kernel-level streams of the source tie (DESIGN §9.6): the printers function by function, against the model and the source image
    import srctie
    srctie.run(ctx, SRC_TIE)

# --- DataFrame helpers


def rscore_df_j(rng, strict=True):
    """scores of plain chords; strict = inside the clause's sub-domain"""
    kinds = ['s', 'h', 'c', 'b', 'a', 'd', 'x'] if strict else ['s', 'h', 'c', 'b', 'a', 'su', 'hd', 'x', 'r', 'l']
    items = []
    for _ in range(rng.randint(1, 4)):
        c = rchord_j(rng, nparts=(1, 3), wide=False, kinds=kinds + ['r', 'l'])
        for nm, m in c['parts']:
            for n in m:
                if strict:
                    n['mode'] = n['acc'] = None
                    n['tags'] = []
                n['dur'] = frac_str(Fraction(rng.randint(1, 12), rng.choice([1, 2, 4, 8] if strict else [1, 2, 3, 8, 16])))
                if not isinstance(n['amp'], str) and strict:
                    n['amp'] = rng.choice([66, 66, 40, 100, 127, 1])
        items.append(c)
    return {'items': items}


def row_sx(r):
    return sx(int(r['chord_idx']), Fraction(r['start']), int(r['chord_degree']), core.enc_ext(r['chord_extension']),
              int(r['chord_octave']), SX(sx('t', int(r['tonality_degree']), r['tonality_mode'], int(r['tonality_octave']))),
              r['instrument'], bool(r['silence']), bool(r['continuation']), r['note_type'], int(r['note_val']),
              int(r['note_octave']), amp_frac(float(r['note_amp'])) if float(r['note_amp']) != int(r['note_amp']) else int(r['note_amp']),
              Fraction(r['note_duration']))


def df_rows_sx(df):
    return [SX(row_sx(r)) for _, r in df.iterrows()]


def show_rows_sorted(df):
    return '(' + ' '.join(sorted(row_sx(r) for _, r in df.iterrows())) + ')'


def canon_rows(out):
    rows = core.parse_sx(out)
    return '(' + ' '.join(sorted(to_sx(r) for r in rows)) + ')'

# ----------------------------------------------------------------------------- oracle: the property on the real objects


def figure(n):
    return n.amp_figure


def note_fields(n):
    """the fields the property compares"""
    if n.type in ('r', 'l'):
        return (n.type, Fraction(n.duration), tuple(sorted(n.tags)))
    return (n.type, int(n.val), int(n.octave), Fraction(n.duration), n.mode, n.accident, figure(n), tuple(sorted(n.tags)))


FIELD_NAMES = ['kind', 'value', 'octave', 'duration', 'mode', 'accidental', 'dynamics', 'tags']


def notes_of(x):
    from musiclang import Note
    return [x] if isinstance(x, Note) else list(x.notes)


def ext_equiv(e):
    return '' if e == '5' else e


def chord_fields(c, strict_ext=True):
    e = c.extension if strict_ext else ext_equiv(c.extension)
    t = c.tonality
    head = (int(c.element), e, (int(t.degree), t.mode, int(t.octave)), int(c.octave))
    parts = [(k, [note_fields(n) for n in m.notes]) for k, m in c.score.items()]
    custom = [note_fields(n) for n in c.notes] if is_custom(c) else None
    return (type(c).__name__, head, parts, custom)


def first_note_diff(a, b):
    """(expected fields, observed fields, name of the first differing field) of the first differing note"""
    if len(a) != len(b):
        return (None, None, 'length')
    for x, y in zip(a, b):
        if x != y:
            if x[0] != y[0]:
                return (x, y, 'kind')
            if x[0] in ('r', 'l'):
                return (x, y, 'duration' if x[1] != y[1] else 'tags')
            return (x, y, next(nm for i, nm in enumerate(FIELD_NAMES) if x[i] != y[i]))
    return None


def classify_note(d):
    """signature of a note-level failure: the narrow class of the note whose text form loses a field"""
    x, y, field = d
    if field == 'length':
        return 'melody:length'
    kind = x[0]
    dur = x[1] if kind in ('r', 'l') else x[3]
    if field == 'duration' and dur.denominator > 1000:
        return 'note:duration-denominator>1000'
    return f'note:{kind}:{field}'


def roundtrip_check(kind, j, reader='from_str'):
    """None when the text form of the described object evaluates back to an equal object"""
    x = build(kind, j)
    text = str(x)
    if reader == 'from_str':
        y = real_eval(text)
    else:
        y = eval(text.replace('\n', ''), namespace())
    return compare_reread(kind, x, y, text)


def compare_reread(kind, x, y, text):
    from musiclang import Score, Chord, Note, Melody
    if kind in ('note', 'melody'):
        if not isinstance(y, (Note, Melody)):
            return ('reread:type', f'{type(y).__name__}', 'a note or melody')
        a, b = [note_fields(n) for n in notes_of(x)], [note_fields(n) for n in notes_of(y)]
        d = first_note_diff(a, b)
        if d:
            return (classify_note(d), b, a)
        return None
    if kind == 'tonality':
        a, b = (int(x.degree), x.mode, int(x.octave)), (int(y.degree), y.mode, int(y.octave))
        return None if a == b else ('tonality', f'{b} from the text {text!r}', a)
    xs = [x] if isinstance(x, Chord) else list(x.chords)
    if isinstance(y, Chord):
        ys = [y]
    elif isinstance(y, Score):
        ys = list(y.chords)
    else:
        return ('reread:type', type(y).__name__, 'a chord or score')
    if any(isinstance(c, Score) for c in ys):
        shape = ''.join('x' if is_custom(c) else 'p' for c in xs)
        return ('score:nested-score', f'chords of the re-read score: {[type(c).__name__ for c in ys]}',
                f'{len(xs)} chords ({shape})')
    if len(xs) != len(ys):
        return ('score:length', len(ys), len(xs))
    for cx, cy in zip(xs, ys):
        fx, fy = chord_fields(cx), chord_fields(cy)
        if fx == fy:
            continue
        if fx[0] != fy[0]:
            return ('chord:class', fy[0], fx[0])
        if fx[1] != fy[1]:
            hx, hy = fx[1], fy[1]
            sig = 'chord:' + next(nm for nm, p, q in zip(['degree', 'extension', 'tonality', 'octave'], hx, hy) if p != q)
            return (sig, hy, hx)
        if [k for k, _ in fx[2]] != [k for k, _ in fy[2]]:
            return ('chord:parts', [k for k, _ in fy[2]], [k for k, _ in fx[2]])
        for (k, a), (_, b) in zip(fx[2], fy[2]):
            d = first_note_diff(a, b)
            if d:
                return (classify_note(d), (k, b), (k, a))
        if fx[3] != fy[3]:
            d = first_note_diff(fx[3], fy[3])
            return ('custom:' + classify_note(d), fy[3], fx[3])
    return None


def as_score(x):
    from musiclang import Score, Chord
    return Score([x]) if isinstance(x, Chord) else x


def sound_of(s):
    """what the library's renderer plays: {part: [(pitch, onset, duration, velocity)]}"""
    import sound
    return sound.impl_sound(as_score(s))


def canonical_amp(n):
    """velocity the text form stands for: the amplitude of the note's dynamics figure"""
    f = figure(n)
    return 66 if f == 'mf' else (0 if f == 'n' else int(dyn_amp(f)))


def expected_sound(s):
    """sound of the score with every velocity replaced by the one of its figure"""
    from musiclang import Score
    t = copy.deepcopy(as_score(s))
    for c in t.chords:
        for m in c.score.values():
            for n in m.notes:
                if n.type not in ('r', 'l'):
                    n.amp = canonical_amp(n)
    return sound_of(t)


def check_roundtrip(inp):
    """oracle `roundtrip`: from_str(str(x)) and eval(str(x)) are field-equal to x; for scores also ==, sound"""
    kind, j = inp['kind'], inp['j']
    for reader in ('from_str', 'eval'):
        try:
            r = roundtrip_check(kind, j, reader)
        except Exception as e:
            return {'signature': f'{kind}:raises:{type(e).__name__}', 'observed': f'{type(e).__name__}: {e}'[:300],
                    'expected': 'an equal object'}
        if r:
            return {'signature': r[0], 'observed': r[1], 'expected': r[2]}
    if kind in ('item', 'score'):
        x = build(kind, j)
        y = real_eval(str(x))
        # the library's own `==` compares printed melodies, i.e. the iteration order of tag sets
        # (C20, known finding): only consulted when no note carries two tags or more
        few_tags = all(len(n.tags) < 2 for c in as_score(x).chords for m in c.score.values() for n in m.notes)
        if few_tags and not (x == y):
            return {'signature': f'{kind}:library-eq', 'observed': 'x == from_str(str(x)) is False', 'expected': True}
        if inp.get('sound'):
            try:
                b = expected_sound(x)
            except Exception:
                return None          # the source itself does not render (a relative note outside the window, C09)
            a = sound_of(y)
            if a != b:
                return {'signature': 'sound', 'observed': str(a)[:300], 'expected': str(b)[:300]}
    return None


def exact_state(x):
    """every field (amplitude, tempo, pedal included) for the runtime round trips"""
    from musiclang import Chord
    out = []
    for c in as_score(x).chords:
        t = c.tonality
        def st(n):
            return (type(n).__name__, n.type, int(n.val), int(n.octave), Fraction(n.duration), n.mode, n.accident,
                    amp_frac(n.amp), tuple(sorted(n.tags)), n.tempo, n.pedal)
        out.append((type(c).__name__, int(c.element), c.extension, (int(t.degree), t.mode, int(t.octave)), int(c.octave),
                    [(k, [st(n) for n in m.notes]) for k, m in c.score.items()],
                    [st(n) for n in c.notes] if is_custom(c) else None))
    return out


def check_runtime(inp):
    """oracle `runtime`: text file, pickle, deepcopy round trips (runtime behaviours, not proved)"""
    from musiclang import Score
    s = score_from_j(inp['j'])
    want = exact_state(s)
    d = copy.deepcopy(s)
    if exact_state(d) != want or d is s or any(a is b for a, b in zip(d.chords, s.chords)):
        return {'signature': 'runtime:deepcopy', 'observed': str(exact_state(d))[:300], 'expected': str(want)[:300]}
    p = pickle.loads(pickle.dumps(s))
    if exact_state(p) != want:
        return {'signature': 'runtime:pickle', 'observed': str(exact_state(p))[:300], 'expected': str(want)[:300]}
    tmp = tempfile.mkdtemp(prefix='c05-')
    try:
        fp = os.path.join(tmp, 's.pickle')
        s.to_pickle(fp)
        q = Score.from_pickle(fp)
        if exact_state(q) != want:
            return {'signature': 'runtime:to_pickle', 'observed': str(exact_state(q))[:300], 'expected': str(want)[:300]}
        ft = os.path.join(tmp, 's.txt')
        s.to_text_file(ft)
        r = compare_reread('score', s, Score.from_file(ft), str(s))
        r2 = compare_reread('score', s, real_eval(str(s)), str(s))
        if (r and r[0]) != (r2 and r2[0]):
            return {'signature': 'runtime:text-file', 'observed': str(r)[:300], 'expected': f'same as from_str: {r2}'[:300]}
        if open(ft).read() != str(s):
            return {'signature': 'runtime:text-file', 'observed': 'file content differs from str(score)', 'expected': 'str(score)'}
    finally:
        import shutil
        shutil.rmtree(tmp, ignore_errors=True)
    return None


def df_fields(s):
    out = []
    for c in s.chords:
        f = chord_fields(c)
        out.append((f[1], sorted(f[2])))
    return out


def check_dataframe(inp):
    """oracle `dataframe`: from_sequence(to_sequence(s)) is field-equal to s (parts as a dictionary) and == s"""
    from musiclang import Score
    s = score_from_j(inp['j'])
    try:
        t = Score.from_sequence(s.to_sequence())
    except Exception as e:
        return {'signature': f'dataframe:raises:{type(e).__name__}', 'observed': f'{type(e).__name__}: {e}'[:300],
                'expected': 'a score'}
    a, b = df_fields(s), df_fields(t)
    if a != b:
        if any(n.tags for c in s.chords for m in c.score.values() for n in m.notes):
            sig = 'dataframe:tags-dropped'
        elif len(a) != len(b):
            sig = 'dataframe:chord-without-notes-dropped'
        else:
            sig = 'dataframe:fields'
        return {'signature': sig, 'observed': str(b)[:400], 'expected': str(a)[:400]}
    if not (t == s):
        return {'signature': 'dataframe:library-eq', 'observed': 'from_sequence(to_sequence(s)) == s is False', 'expected': True}
    return None


def _wrap(fn):
    def run(inp):
        r = fn(inp)
        if r is None:
            return None
        if inp.get('signature') and r.get('signature') != inp['signature']:
            r['observed'] = f"[signature now {r.get('signature')}] " + str(r['observed'])
        return r
    return run


ORACLES = {'roundtrip': _wrap(check_roundtrip), 'runtime': _wrap(check_runtime), 'dataframe': _wrap(check_dataframe)}


_KNOWN = []


def known_signatures():
    if not _KNOWN:
        _KNOWN.append({k['signature'] for k in core.load_known() if k.get('property') == ID and k.get('status') == 'finding'})
    return _KNOWN[0]


def sanitize_note(j):
    """the same note without the features of the known findings (so that a new failure is reported on an input
    that passes on the clean tree)"""
    j = dict(j)
    if Fraction(j['dur']).denominator > 1000:
        j['dur'] = '1'
    return j


def sanitize(name, inp):
    inp = json.loads(json.dumps(core.jsonable(inp)))
    inp.pop('signature', None)

    def item(c):
        c = dict(c)
        c['parts'] = [[k, [sanitize_note(n) for n in m]] for k, m in c['parts']]
        if name == 'dataframe':
            c['parts'] = [[k, [dict(n, tags=[]) for n in m]] for k, m in c['parts'] if m]
        if c.get('custom'):
            c['notes'] = [sanitize_note(n) for n in c['notes']]
        return c
    kind = inp.get('kind', 'score')
    j = inp['j']
    if kind == 'note':
        inp['j'] = sanitize_note(j)
    elif kind == 'melody':
        inp['j'] = [sanitize_note(n) for n in j]
    elif kind == 'item':
        inp['j'] = item(j)
    elif kind == 'score':
        items = [item(c) for c in j['items']]
        if name == 'dataframe':
            items = [c for c in items if c['parts']]
        inp['j'] = {'items': items}
    return inp


def evaluate(name, inp):
    try:
        return ORACLES[name](inp)
    except Exception as e:
        return {'signature': f'{name}:oracle-raises:{type(e).__name__}', 'observed': f'{type(e).__name__}: {e}'[:300],
                'expected': 'no exception'}


def run_oracle(ctx, name, inp, bucket):
    ctx.count('oracle', key=json.dumps(core.jsonable(inp), sort_keys=True), bucket=bucket)
    r = evaluate(name, inp)
    if r and r['signature'] not in known_signatures():
        # a failure outside the known findings: report it on the input without the known-finding features when it
        # still fails there (the replay then passes on the clean tree)
        try:
            inp2 = sanitize(name, inp)
            r2 = evaluate(name, inp2) if inp2 != core.jsonable(inp) else None
        except Exception:
            r2 = None
        if r2 and r2['signature'] not in known_signatures():
            inp, r = inp2, r2
    if r:
        # core.Ctx keeps at most 500 failures: inputs of a known finding are recorded a few times only (and counted),
        # so that they can never crowd out a new failure found later in the run
        if r['signature'] in known_signatures():
            seen = ctx.__dict__.setdefault('_c05_known_seen', {})
            seen[r['signature']] = seen.get(r['signature'], 0) + 1
            ctx.count('oracle-known-findings', bucket=r['signature'])
            if seen[r['signature']] > 3:
                return r
        ctx.fail(r['signature'], dict(inp, signature=r['signature']), r['observed'], r['expected'], oracle=name)
    return r


def well_referenced_j(j):
    """sound clause domain: no relative note without a reference, no pattern notes, pitched notes only in pitched parts"""
    import sound
    try:
        return sound.well_referenced(score_from_j(j))
    except Exception:
        return False


# inputs that failed before the repairs 3b164a5 / bb99a14 / 5da6dce / 814ef78 / b066a4a (they must pass now), and the
# witnesses of what is still a known finding
WITNESSES = [
    # D9: pattern note with an octave
    ('roundtrip', {'kind': 'note', 'j': {'type': 'x', 'val': 3, 'oct': 1, 'dur': '1/2', 'mode': None, 'acc': None, 'amp': 66, 'tags': []}}),
    # D9: explicit figure '5'
    ('roundtrip', {'kind': 'item', 'j': {'elem': 0, 'ext': '5', 'ton': {'deg': 0, 'mode': 'M', 'oct': 0}, 'oct': 0,
                                          'parts': [['piano__0', [{'type': 's', 'val': 0, 'oct': 0, 'dur': '1', 'mode': None, 'acc': None, 'amp': 66, 'tags': []}]]]}}),
    # drum note with a dynamic
    ('roundtrip', {'kind': 'note', 'j': {'type': 'd', 'val': 0, 'oct': 0, 'dur': '1', 'mode': None, 'acc': None, 'amp': 'f', 'tags': []}}),
    # amplitude 0: figure `n` is read as the duration suffix `n`
    ('roundtrip', {'kind': 'note', 'j': {'type': 's', 'val': 0, 'oct': 0, 'dur': '1', 'mode': None, 'acc': None, 'amp': 0, 'tags': []}}),
    # duration outside the resolution (s0.t7.t7.t7)
    ('roundtrip', {'kind': 'note', 'j': {'type': 's', 'val': 0, 'oct': 0, 'dur': '1/21952', 'mode': None, 'acc': None, 'amp': 66, 'tags': []}}),
    # pattern note with a mode
    ('roundtrip', {'kind': 'note', 'j': {'type': 'x', 'val': 0, 'oct': 0, 'dur': '1', 'mode': 'm', 'acc': None, 'amp': 66, 'tags': []}}),
]


def plain_chord_j(deg=3):
    return {'elem': deg, 'ext': '', 'ton': {'deg': 0, 'mode': 'M', 'oct': 0}, 'oct': 0,
            'parts': [['piano__0', [{'type': 's', 'val': 0, 'oct': 0, 'dur': '1', 'mode': None, 'acc': None, 'amp': 66, 'tags': []}]]]}


def custom_chord_j():
    return {'custom': True, 'notes': [{'type': 's', 'val': 0, 'oct': 0, 'dur': '1', 'mode': None, 'acc': None, 'amp': 66, 'tags': []}],
            'ton': {'deg': 0, 'mode': 'M', 'oct': 0}, 'oct': 0,
            'parts': [['piano__0', [{'type': 'b', 'val': 0, 'oct': 0, 'dur': '2', 'mode': None, 'acc': None, 'amp': 66, 'tags': []}]]]}


WITNESSES.append(('roundtrip', {'kind': 'score', 'j': {'items': [plain_chord_j(), plain_chord_j(4), custom_chord_j()]}}))
WITNESSES.append(('dataframe', {'j': {'items': [{'elem': 0, 'ext': '', 'ton': {'deg': 0, 'mode': 'M', 'oct': 0}, 'oct': 0,
                                                 'parts': [['piano__0', [{'type': 's', 'val': 0, 'oct': 0, 'dur': '1', 'mode': None, 'acc': None, 'amp': 66, 'tags': ['accent']}]]]}]}}))
WITNESSES.append(('dataframe', {'j': {'items': [plain_chord_j(), {'elem': 0, 'ext': '', 'ton': {'deg': 0, 'mode': 'M', 'oct': 0}, 'oct': 0, 'parts': []}]}}))


def oracle(ctx):
    warnings.filterwarnings('ignore')
    rng = ctx.rng
    # 1 suspects of the correspondence
    for stream, inp in ctx.suspects:
        if not inp or 'j' not in inp:
            continue
        if inp['kind'] in ('note', 'melody', 'tonality', 'item', 'score'):
            run_oracle(ctx, 'roundtrip', {'kind': inp['kind'], 'j': inp['j']}, 'suspect')
        if inp['kind'] == 'score' and stream == 'rows':
            run_oracle(ctx, 'dataframe', {'j': inp['j']}, 'suspect')
    # 2 witnesses of the defects known on the pinned tree
    for name, inp in WITNESSES:
        run_oracle(ctx, name, inp, 'witness')
    # 3 enumerated: every library symbol x a few field settings
    L = lib_values()
    for k in ALL_KINDS:
        vals = [0] if k in ('r', 'l') else L[k]
        for v in vals:
            for variant in range(5):
                j = {'type': k, 'val': v, 'oct': 0, 'dur': '1', 'mode': None, 'acc': None, 'amp': 66, 'tags': []}
                if variant == 4:
                    if k in ('r', 'l'):
                        continue
                    j.update(amp=0, tags=rng.choice([['accent'], [], ['mordant', 'accent']]), dur=rng.choice(['1', '1/2', '3']))
                elif variant == 1:
                    j.update(dur='3/4', tags=['accent'])
                elif variant == 2 and k not in ('r', 'l'):
                    j.update(oct=rng.choice([1, -2]), amp=rng.choice(DYN))
                elif variant == 3 and k not in ('r', 'l', 'd', 'x'):
                    j.update(mode=rng.choice(MODES), acc=rng.choice(ACCS), dur='5/7')
                run_oracle(ctx, 'roundtrip', {'kind': 'note', 'j': j}, f'enum:{k}')
    for d in range(12):
        for m in MODES:
            run_oracle(ctx, 'roundtrip', {'kind': 'tonality', 'j': {'deg': d, 'mode': m, 'oct': rng.choice([0, 1, -3])}},
                       'enum:tonality')
    # 4 random objects
    for _ in range(ctx.n(1200, 30000)):
        run_oracle(ctx, 'roundtrip', {'kind': 'note', 'j': rnote_j(rng)}, 'note')
    for _ in range(ctx.n(200, 5000)):
        run_oracle(ctx, 'roundtrip', {'kind': 'melody', 'j': rmelody_j(rng, n=(1, 6))}, 'melody')
    for _ in range(ctx.n(300, 8000)):
        run_oracle(ctx, 'roundtrip', {'kind': 'item', 'j': ritem_j(rng, p_custom=0.2)}, 'item')
    for _ in range(ctx.n(200, 5000)):
        j = rscore_j(rng, p_custom=0.2)
        run_oracle(ctx, 'roundtrip', {'kind': 'score', 'j': j}, 'score')
    # sound clause: plain well-referenced scores inside the library domain
    for _ in range(ctx.n(120, 3000)):
        j = rscore_j(rng, p_custom=0.0, wide=False, kinds=['s', 'h', 'c', 'b', 'a', 'su', 'sd', 'hu', 'cd', 'bu', 'r', 'l'])
        if well_referenced_j(j):
            run_oracle(ctx, 'roundtrip', {'kind': 'score', 'j': j, 'sound': True}, 'sound')
    for _ in range(ctx.n(80, 2000)):
        run_oracle(ctx, 'runtime', {'j': rscore_j(rng, p_custom=0.2)}, 'runtime')
    for _ in range(ctx.n(120, 3000)):
        run_oracle(ctx, 'dataframe', {'j': rscore_df_j(rng, strict=True)}, 'dataframe')
