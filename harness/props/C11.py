"""C11 — re-notating a score never changes what is played."""
import sys
sys.dont_write_bytecode = True
from fractions import Fraction
import core, gen, sound
from core import sx, enc_score, enc_chord, enc_note, py_res, frac_str

ID = 'C11'
LEAN_MODULES = ['MV.Props.C11']
LEAN_HELPERS = ['MV.Lemmas.Renotate', 'MV.Lemmas.RenotateScore', 'MV.Lemmas.RenotateEvents', 'MV.Lemmas.RenotateSplit', 'MV.Lemmas.RenotateNames', 'MV.Model.Renotate', 'MV.Model.Render',
                'MV.Model.Pitch', 'MV.Model.Rel', 'MV.Model.Basic', 'MV.Model.Types']
DRIVERS = ['C11']
SRC_TIE = ['SrcConv']   # py2lean source images of the note / melody / chord / score conversions and of the octave correction, proved equal to the model (MV/Props/TieSrcConv.lean)
GEN = ['Tables', 'Library']
RULE = ('random scores: 1-3 chords (any figure with modifiers, tonic, mode, octaves), 1-3 parts (one may be a drum '
        'part), all note systems s h c b a, relative kinds su..bd, drum notes, accidentals, per-note modes, rests '
        'and continuations anywhere, parts of unequal length and parts absent from chords (half of the scores have '
        'every part as long as its chord); durations from one palette per score (binary / triplet / quintuplet / '
        'septuplet grid plus a few non-table values) so that all sums stay in the library resolution; each of the '
        '12 re-notations and random compositions of two; streams: renotate (the re-notated score, note by note), '
        'sound (what the re-notated score plays: library note matrix vs model note matrix), note (the five note-level '
        'conversions and decompose_duration on stratified (chord, note, last pitch) triples), between '
        '(get_melody_between on random cuts); non-trivial = at least one sounding note is rewritten or the layout '
        'changes; distinct = distinct request line')
TRUSTED = ['hand-written model of note.py / melody.py / chord.py / score.py conversions, inverse_recursive_correct_octave '
           'and the time_utils slicing used by Chord.split (MV/Model/Renotate.lean), tied by the streams '
           'renotate / sound / note / between; the projection pipeline of Chord.split (project_on_one_chord, '
           'put_on_same_chord, offsets) is modelled in the specialised form it takes on a one-chord score',
           'MV/Model/Render.lean (note matrix) as validated by C03',
           'chord(**parts) is modelled as "same chord, new parts" (part names name__idx; drum parts already hold drum notes)',
           'amplitude / tags / tempo / pedal bookkeeping of copy() is not compared (the property is about pitches, onsets, durations)']
ASSUMPTIONS = ['durations and their partial sums have denominators <= 1000 (library resolution, cf. C10); note durations positive',
               'no two parts get the same name from normalize_instrument_names (RenamingInjective; holds for name__idx, '
               'its instances are computed by the model at run time in the renotate stream, not by the Lean kernel)',
               'chord degree in 0..6; part names of the form name__idx',
               'relative notes have a reference: an earlier sounding non-drum note of the same part with no chord in '
               'between from which the part is absent (otherwise the renderer itself falls back to pitch 0; the '
               're-notations that thread the reference differ there: known findings)',
               'split / normalize: every part lasts as long as its chord (as the property states)']

OPS = ['to_absolute_note', 'to_scale_note', 'to_standard_note', 'to_chord_note', 'to_extension_note',
       'decompose_duration', 'correct_chord_octave', 'normalize_instruments', 'normalize_instrument_names',
       'split', 'remove_empty_chords', 'normalize']
NEEDS_EQUAL = ('split', 'normalize')
SPLIT_MAX = [Fraction(1), Fraction(3, 2), Fraction(2), Fraction(4), Fraction(8), Fraction(7, 3), Fraction(5, 4)]

PALETTES = [
    [Fraction(4), Fraction(2), Fraction(1), Fraction(1, 2), Fraction(1, 4), Fraction(3), Fraction(3, 2), Fraction(3, 4),
     Fraction(1, 8)],
    [Fraction(2), Fraction(1), Fraction(1, 2), Fraction(4, 3), Fraction(2, 3), Fraction(1, 3), Fraction(3, 2)],
    [Fraction(2), Fraction(1), Fraction(1, 2), Fraction(2, 5), Fraction(1, 5), Fraction(4, 5)],
    [Fraction(2), Fraction(1), Fraction(2, 7), Fraction(4, 7), Fraction(1, 2)],
    [Fraction(11, 8), Fraction(7, 3), Fraction(5, 4), Fraction(1), Fraction(9, 2), Fraction(5), Fraction(7, 8),
     Fraction(10), Fraction(13, 3), Fraction(1, 2)],
]
PART_POOL = ['piano__0', 'violin__0', 'piano__2', 'flute__1', 'cello__3', 'violin__1']


# ----------------------------------------------------------------------------- apply / rebuild / print

def apply_op(score, op, arg=None):
    if op == 'split':
        return score.split_too_long_chords(arg)
    return getattr(score, op)()


def apply_ops(score, ops, arg=None):
    for op in ops:
        score = apply_op(score, op, arg)
    return score


def score_to_json(s):
    out = []
    for c in s.chords:
        parts = [[k, [[n.type, int(n.val), int(n.octave), frac_str(n.duration), n.mode, n.accident,
                       frac_str(Fraction(*n.amp.as_integer_ratio()) if isinstance(n.amp, float) else Fraction(n.amp))]
                      for n in m.notes]] for k, m in c.score.items()]
        row = [int(c.element), c.extension, int(c.tonality.degree), c.tonality.mode, int(c.tonality.octave),
               int(c.octave), parts]
        if type(c).__name__ == 'CustomChord':
            row.append([[n.type, int(n.val), int(n.octave)] for n in c.notes])     # the tones, in the written order
        out.append(row)
    return out


def score_from_json(data):
    from musiclang import Score, Chord, Tonality, Note, Melody
    chords = []
    for el, ext, deg, mode, toct, coct, parts, *custom in data:
        sc = {}
        for name, notes in parts:
            ns = []
            for k, v, o, d, m, a, amp in notes:
                q = core.to_frac(amp)
                ns.append(Note(k, v, o, core.to_frac(d), mode=m, accident=a, amp=int(q) if q.denominator == 1 else float(q)))
            sc[name] = Melody(ns)
        if custom and custom[0]:
            from musiclang import CustomChord
            chords.append(CustomChord([Note(k, v, o, 1) for k, v, o in custom[0]], extension=ext, tonality=Tonality(deg, mode, toct),
                                      score=sc, octave=coct))
        else:
            chords.append(Chord(el, extension=ext, tonality=Tonality(deg, mode, toct), score=sc, octave=coct))
    return Score(chords)


def show_note(n):
    return f'({n.type} {int(n.val)} {int(n.octave)} {frac_str(n.duration)} {n.mode or "-"} {n.accident or "-"})'


def show_ext(text):
    fig, repl, add, rem = core.split_ext(text)
    t = fig + ''.join(f'<{r}>' for r in repl) + ''.join(f'[{a}]' for a in add) + ''.join('{' + r + '}' for r in rem)
    return t or '""'


def show_score(s):
    out = []
    for c in s.chords:
        parts = sorted(c.score.items())
        out.append(f'(c {int(c.element)} {show_ext(c.extension)} {int(c.tonality.degree)} {c.tonality.mode} '
                   f'{int(c.tonality.octave)} {int(c.octave)} '
                   + ' '.join('(' + ' '.join([k] + [show_note(n) for n in m.notes]) + ')' for k, m in parts) + ')')
    return '(' + ' '.join(out) + ')'


def unparse(x):
    if isinstance(x, list):
        return '(' + ' '.join(unparse(i) for i in x) + ')'
    return x


def canon_score(out):
    """sort the parts of every chord of the model's reply by name (set order is not observable)"""
    chords = core.parse_sx(out)
    res = []
    for c in chords:
        head, parts = c[:7], sorted(c[7:], key=lambda p: p[0])
        res.append(head + parts)
    return unparse(res)


RENAMERS = ('normalize_instrument_names', 'normalize')


def _reindex(names_content):
    """{old name: new name}: inside every instrument the voices are numbered in the order of their content.  Which voice of
    an instrument gets which index after normalize_instrument_names depends on the order in which normalize_instruments
    met / added the parts (an iteration over a set of names): not observable, not claimed (false alarm seen in a thorough
    run on a stretched score with violin__0 and violin__1)."""
    groups = {}
    for name, content in names_content.items():
        groups.setdefault(name.split('__')[0], []).append((content, name))
    ren = {}
    for base, lst in groups.items():
        for i, (_c, name) in enumerate(sorted(lst)):
            ren[name] = f'{base}__{i}'
    return ren


def canon_score_names(out):
    chords = core.parse_sx(out)
    content = {}
    for ci, c in enumerate(chords):
        for p in c[7:]:
            content.setdefault(p[0], {})[ci] = unparse(p[1:])
    ren = _reindex({n: tuple(sorted(d.items())) for n, d in content.items()})
    res = []
    for c in chords:
        res.append(c[:7] + sorted(([ren[p[0]]] + p[1:] for p in c[7:]), key=lambda p: p[0]))
    return unparse(res)


def canon_sound_names(out):
    parts = core.parse_sx(out)
    ren = _reindex({p[0]: unparse(p[1:]) for p in parts})
    return unparse(sorted(([ren[p[0]]] + p[1:] for p in parts), key=lambda p: p[0]))


def sound3(s):
    """{part: [(pitch, onset, duration)]} of the library's own rendering"""
    return {p: [(a, b, c) for a, b, c, _ in v] for p, v in sound.impl_sound(s).items()}


def show_sound(snd):
    return '(' + ' '.join('(' + ' '.join([p] + [f'({a} {frac_str(b)} {frac_str(c)})' for a, b, c in evs]) + ')'
                          for p, evs in sorted(snd.items())) + ')'


def canon_sound(out):
    parts = core.parse_sx(out)
    return unparse(sorted(parts, key=lambda p: p[0]))


def has_empty_melody(s):
    return any(len(m.notes) == 0 for c in s.chords for m in c.score.values())


# ----------------------------------------------------------------------------- classification of inputs

def referenced(score):
    """every relative note has a reference the renderer and the re-notations agree on: an earlier sounding,
    non-drum note of its part, with no chord in between from which the part is absent"""
    bad = set()
    for part in sound.part_names(score):
        last = False
        for ch in score.chords:
            if part not in ch.score:
                last = False
                continue
            for n in ch.score[part].notes:
                if n.type in ('r', 'l'):
                    continue
                if n.type in ('d', 'x'):
                    if n.type == 'x':
                        bad.add('pattern-note')
                    last = 'drum'
                    continue
                if n.is_relative and last is not True:
                    bad.add('relative-after-drum' if last == 'drum' else 'unreferenced-relative')
                last = True
    return sorted(bad)


def equal_parts(score):
    return all(len({sum((Fraction(n.duration) for n in m.notes), Fraction(0)) for m in c.score.values()}) <= 1
               for c in score.chords)


def features(s):
    f = set()
    for c in s.chords:
        for m in c.score.values():
            for n in m.notes:
                f.add('kind=' + n.type)
                if n.accident:
                    f.add('acc')
                if n.mode:
                    f.add('notemode')
    names = sound.part_names(s)
    if any(p not in c.score for c in s.chords for p in names):
        f.add('absent')
    f.add('equal' if equal_parts(s) else 'unequal')
    for r in referenced(s):
        f.add(r)
    return sorted(f)


# ----------------------------------------------------------------------------- generators

def rand_notes(rng, n, kinds, durs, p_rest=0.15, p_cont=0.15):
    from musiclang import Silence, Continuation
    notes = []
    for _ in range(n):
        d = rng.choice(durs)
        x = rng.random()
        if x < p_rest:
            notes.append(Silence(d))
        elif x < p_rest + p_cont:
            notes.append(Continuation(d))
        else:
            notes.append(gen.rand_note(rng, kinds=kinds, vals=(-3, 9), octs=(-1, 1), dur=d, p_acc=0.15, p_mode=0.15,
                                       p_amp=0.2))
    return notes


def rand_score(ctx, equal=None, referenced_only=False, kinds=None):
    from musiclang import Score, Melody, Silence, Chord
    rng = ctx.rng
    for _ in range(200):
        durs = rng.choice(PALETTES)
        k = kinds or (gen.NONREL + (gen.REL if rng.random() < 0.5 else []) + (['d'] if rng.random() < 0.15 else []))
        parts = rng.sample(PART_POOL, rng.randint(1, 3))
        eq = (rng.random() < 0.5) if equal is None else equal
        chords = []
        for _c in range(rng.randint(1, 3)):
            c, _t = gen.rand_chord(rng, octaves=(-2, 2), max_mods=2)
            sc = {}
            for p in parts:
                if rng.random() < 0.2 and len(parts) > 1:
                    continue
                sc[p] = Melody(rand_notes(rng, rng.randint(1, 5), k, durs))
            if not sc:
                sc[parts[0]] = Melody(rand_notes(rng, rng.randint(1, 5), k, durs))
            if eq:
                D = max(m.duration for m in sc.values())
                for p, m in sc.items():
                    if m.duration < D:
                        sc[p] = Melody(m.notes + [Silence(D - m.duration)])
            chords.append(Chord(c.element, extension=c.extension, tonality=c.tonality, score=sc, octave=c.octave))
        s = Score(chords)
        if referenced_only and referenced(s):
            continue
        return s
    return s


def customised(rng, s):
    """the same score with its chords turned into custom chords (a tonality called with its tones), the tones listed
    in any order — not necessarily bottom-up (seed C11-5 sorted the pitch table of bass-tone notes, which only differs
    from the written order for such chords)"""
    from musiclang import CustomChord, Score, Note
    out = []
    for c in s.chords:
        tones = [Note('s', v, rng.choice([0, 0, 1]), 1) for v in rng.sample(range(7), rng.randint(3, 4))]
        out.append(CustomChord(tones, tonality=c.tonality, score=dict(c.score), octave=c.octave))
    return Score(out)


def rand_ops(rng, i):
    """each re-notation in turn, then compositions of two"""
    if i % 3 != 2:
        return [OPS[(i // 3 * 2 + i % 3) % len(OPS)]]
    return [rng.choice(OPS), rng.choice(OPS)]


def changes(s, t):
    return show_score(s) != show_score(t)


def corpus():
    """minimised past disagreements (model vs code), run first in every tier"""
    from musiclang import Score, Note
    from musiclang.library import I, V, s0, s1, s2, r, l, b1
    C = []
    # an empty melody left by split on unequal parts makes Melody.decompose_duration raise AttributeError
    C.append((Score([(I % I.M)(piano__0=s0 + s1, violin__0=s2.w + l.h + b1.o(-1).w)]), ['split', 'decompose_duration'], Fraction(2)))
    C.append((Score([(I % I.M)(piano__0=s0 + s1, violin__0=s2.w + l.h)]), ['split', 'to_absolute_note'], Fraction(2)))
    C.append((Score([(V % I.M)(piano__0=s0.augment(Fraction(11, 8)) + r.augment(Fraction(7, 3)) + l.augment(Fraction(5, 4)))]),
              ['decompose_duration', 'decompose_duration'], Fraction(2)))
    return C


def correspondence(ctx):
    rng = ctx.rng
    cases, cases2 = [], []
    fixed = corpus()
    for i in range(ctx.n(900, 9000) + len(fixed)):
        if i < len(fixed):
            s, ops, arg = fixed[i]
        else:
            ops = rand_ops(rng, i)
            need_eq = any(o in NEEDS_EQUAL for o in ops)
            s = rand_score(ctx, equal=True if (need_eq and rng.random() < 0.8) else None)
            arg = rng.choice(SPLIT_MAX)
        enc = enc_score(s)
        inp = {'score': score_to_json(s), 'ops': ops, 'arg': frac_str(arg)}
        ft = features(s)
        res = {}

        def run():
            res['t'] = apply_ops(s, ops, arg)
            return res['t']
        renames = any(o in RENAMERS for o in ops)
        cs, cn = (canon_score_names, canon_sound_names) if renames else (canon_score, canon_sound)
        impl = py_res(run, (lambda t: canon_score_names(show_score(t))) if renames else show_score)
        nontriv = 't' in res and changes(s, res['t'])
        bucket = ['op=' + '+'.join(ops)] + ft + (['ERR'] if impl.startswith('ERR:') else [])
        cases.append({'line': sx('renotate', ops, arg, enc), 'impl': impl, 'canon': cs, 'input': inp,
                      'bucket': bucket, 'nontrivial': nontriv})
        if 't' in res and not has_empty_melody(res['t']):
            cases2.append({'line': sx('sound', ops, arg, enc),
                           'impl': py_res(lambda: sound3(res['t']), (lambda x: canon_sound_names(show_sound(x))) if renames else show_sound),
                           'canon': cn, 'input': inp, 'bucket': bucket, 'nontrivial': nontriv})
    ctx.compare('renotate', 'C11', cases)
    ctx.compare('sound', 'C11', cases2)

    # note level: stratified (chord, note, last pitch)
    from musiclang import Note
    cases = []
    NOTE_OPS = ['to_absolute_note', 'to_scale_note', 'to_standard_note', 'to_chord_note', 'to_extension_note',
                'decompose_duration']
    for i in range(ctx.n(3000, 40000)):
        c, text = gen.rand_chord(rng, max_mods=2)
        kind = (gen.NONREL + gen.REL + ['d', 'r', 'l'])[i % 16]
        n = gen.rand_note(rng, kinds=[kind], vals=(-15, 15), octs=(-3, 3), p_acc=0.3, p_mode=0.3,
                          dur=rng.choice(rng.choice(PALETTES)))
        if kind == 'a' and rng.random() < 0.2:
            n.mode = rng.choice(gen.MODES)
        if kind == 'a' and rng.random() < 0.1:
            n.accident = rng.choice(gen.ACCS)
        last = rng.choice([None, None, rng.randint(-30, 30)])
        op = NOTE_OPS[(i // 16) % len(NOTE_OPS)]
        if op == 'to_absolute_note':
            f = lambda: show_note(n.to_absolute_note(c, last_pitch=last))
        elif op == 'decompose_duration':
            def f():
                r = n.decompose_duration()
                return '(' + ' '.join(show_note(x) for x in r.notes) + ')'
        else:
            f = lambda: show_note(getattr(n, op)(c))
        cases.append({'line': sx('note', op, enc_chord(c, ext_text=text, with_parts=False), enc_note(n),
                                 '-' if last is None else last),
                      'impl': py_res(f),
                      'input': {'op': op, 'note': show_note(n), 'chord': str(c), 'last': last, 'ops': [op], 'arg': '8',
                                'score': [[int(c.element), text, int(c.tonality.degree), c.tonality.mode,
                                           int(c.tonality.octave), int(c.octave),
                                           [['piano__0', [[n.type, int(n.val), int(n.octave), frac_str(n.duration), n.mode,
                                                           n.accident, '66']]]]]]},
                      'bucket': ['op=' + op, 'kind=' + kind] + (['acc'] if n.accident else []) + (['notemode'] if n.mode else []),
                      'nontrivial': kind not in ('r', 'l', 'd')})
    ctx.compare('note', 'C11', cases)

    # get_melody_between on random cuts
    from musiclang.write.time_utils.time_utils import get_melody_between
    from musiclang import Melody
    cases = []
    for _ in range(ctx.n(600, 8000)):
        durs = rng.choice(PALETTES)
        m = Melody(rand_notes(rng, rng.randint(1, 6), gen.NONREL, durs))
        total = m.duration
        grid = [Fraction(0)] + [rng.choice(durs) * rng.randint(0, 4) for _ in range(2)] + [total, total + 1]
        a = rng.choice(grid)
        b = a + rng.choice(durs) * rng.randint(1, 4)
        cases.append({'line': sx('between', core.enc_melody(m), a, b),
                      'impl': py_res(lambda: '(' + ' '.join(show_note(x) for x in get_melody_between(m, a, b).notes) + ')'),
                      'input': {'melody': str(m), 'start': frac_str(a), 'end': frac_str(b)},
                      'bucket': ['cut-head' if a > 0 else 'from-start', 'beyond-end' if b > total else 'inside']})
    ctx.compare('between', 'C11', cases)

    # kernel-level streams of the source tie (DESIGN §9.6): real function vs model, real function vs generated source image
    import srctie
    srctie.run(ctx, SRC_TIE)


# ----------------------------------------------------------------------------- oracle (independent of the model)

def sounding(snd):
    return {p: v for p, v in snd.items() if v}


def check_step(s, op, arg):
    """the property for one re-notation applied to score `s`; None if it holds"""
    try:
        before = sound3(s)
    except Exception:
        return 'skip'          # the source does not render: nothing is played before
    try:
        t = apply_op(s, op, arg)
    except Exception as e:
        return {'observed': f'{op} raises {type(e).__name__}: {e}'[:300], 'expected': f'what the source plays: {show_sound(before)[:300]}'}
    try:
        after = sound3(t)
    except Exception as e:
        return {'observed': f'the result of {op} does not render: {type(e).__name__}: {e}'[:300], 'expected': show_sound(before)[:300]}
    exp = sounding(before)
    got = sounding(after)
    if op in ('normalize_instrument_names', 'normalize'):
        # the parts get new names: the property is about what each part plays, so the parts are matched
        # by content (a bijection between old and new names must exist), not by the naming scheme
        if sorted(map(str, exp.values())) != sorted(map(str, got.values())):
            return {'observed': {p: [str(x) for x in v][:8] for p, v in list(got.items())[:3]},
                    'expected': {p: [str(x) for x in v][:8] for p, v in list(exp.items())[:3]}}
    elif got != exp:
        bad = sorted(p for p in set(exp) | set(got) if exp.get(p) != got.get(p))
        return {'observed': {p: [str(x) for x in got.get(p, [])][:8] for p in bad[:3]},
                'expected': {p: [str(x) for x in exp.get(p, [])][:8] for p in bad[:3]}}
    if op in ('split', 'normalize'):
        mx = arg if op == 'split' else Fraction(8)
        long = [frac_str(c.duration) for c in t.chords if c.duration > mx]
        if long:
            return {'observed': f'chord durations {long} after splitting', 'expected': f'every chord <= {mx}'}
    if op in ('correct_chord_octave', 'normalize'):
        bass = [int(c.chord_extension_pitches[0]) for c in t.chords]
        if any(not (-6 < b <= 6) for b in bass):
            return {'observed': f'chord basses {bass}', 'expected': 'every bass in (-6, 6]'}
    return None


def classify(s, op):
    ref = referenced(s)
    if op == 'normalize_instruments' and 'unreferenced-relative' in ref:
        # normalize_instruments only changes what a relative note refers to across a gap (the part absent from a chord);
        # a drum note in front of another relative note of the same score is beside the point here
        return 'unreferenced-relative'
    if ref and op in ('to_absolute_note', 'to_scale_note', 'normalize_instruments'):
        return ref[0]
    if op in NEEDS_EQUAL and not equal_parts(s):
        return 'unequal-parts(not claimed)'
    kinds = sorted({n.type for c in s.chords for m in c.score.values() for n in m.notes})
    extra = (['acc'] if any(n.accident for c in s.chords for m in c.score.values() for n in m.notes) else []) + \
            (['notemode'] if any(n.mode for c in s.chords for m in c.score.values() for n in m.notes) else [])
    return 'kinds=' + ','.join(kinds + extra)


def check_renotation(inp):
    """oracle `sound`: every step of the composition keeps what is played"""
    s = score_from_json(inp['score'])
    arg = core.to_frac(inp['arg'])
    for op in inp['ops']:
        if op in NEEDS_EQUAL and not equal_parts(s):
            return None             # not claimed
        r = check_step(s, op, arg)
        if r == 'skip':
            return None
        if r is not None:
            r['signature'] = f'sound:{op}:{classify(s, op)}'
            return r
        s = apply_op(s, op, arg)
    return None


ORACLES = {'sound': check_renotation}


def J(score, ops, arg=8):
    return {'score': score_to_json(score), 'ops': ops, 'arg': frac_str(Fraction(arg))}


def witnesses():
    from musiclang import Score, Note
    from musiclang.library import I, V, III, s0, s1, s2, s4, su1, a2, r, l
    W = []
    # D5a (fixed): octave correction and absolute notes
    W.append(J(Score([(I % I.M).o(1)(violin__0=a2 + s0)]), ['correct_chord_octave']))
    W.append(J(Score([(I % I.M).o(1)(violin__0=a2 + s0)]), ['normalize']))
    # D5b (fixed): chord-tone / bass-tone notes and accidentals
    W.append(J(Score([(V['7'] % V.m)(violin__0=s2.dim)]), ['to_chord_note']))
    W.append(J(Score([(V['7'] % V.m)(violin__0=s2.dim)]), ['to_extension_note']))
    # fixed: standard note of an absolute note with a per-note mode
    W.append(J(Score([(III % I.M)(piano__0=Note('a', 4, 0, 1, mode='m'))]), ['to_standard_note']))
    # D5c / D5d (known findings): relative notes without a reference
    W.append(J(Score([(I % I.M)(piano__0=su1)]), ['to_absolute_note']))
    W.append(J(Score([(I % I.M)(piano__0=su1)]), ['to_scale_note']))
    three = Score([(I % I.M)(piano__0=s0, violin__0=s4.o(1)), (I % I.M)(piano__0=s0), (I % I.M)(piano__0=s0, violin__0=su1)])
    W.append(J(three, ['normalize_instruments']))
    W.append(J(three, ['to_absolute_note']))
    W.append(J(Score([(I % I.M)(piano__0=s0 + Note('d', 3, 0, 1) + su1)]), ['to_absolute_note']))
    # layout changes
    W.append(J(Score([(V % I.M)(violin__0=s0.w + s1.w + s2.w, piano__5=s1.w.o(1) + l.w + s2.h.o(-1) + r.h)]), ['normalize']))
    W.append(J(Score([(I % I.M)(violin__0=s0 + su1 + r + l, piano__0=s1.h + l.h)]), ['split'], Fraction(3, 2)))
    W.append(J(Score([(I % I.M)(violin__0=s1.augment(Fraction(11, 8)) + s2.augment(Fraction(7, 3)))]), ['decompose_duration']))
    return W


def oracle(ctx):
    rng = ctx.rng
    todo = witnesses()
    for st, i in ctx.suspects:
        if i and 'score' in i and 'ops' in i:
            todo.append(i)
    for i in range(ctx.n(800, 8000)):
        ops = rand_ops(rng, i)
        need_eq = any(o in NEEDS_EQUAL for o in ops)
        # mostly referenced scores (the domain), a share of arbitrary ones (the quantifier says "all scores")
        s = rand_score(ctx, equal=True if need_eq else None, referenced_only=rng.random() < 0.85)
        if rng.random() < 0.06:
            s = customised(rng, s)
        todo.append(J(s, ops, rng.choice(SPLIT_MAX)))
    for inp in todo:
        try:
            s = score_from_json(inp['score'])
        except Exception:
            continue
        ft = features(s)
        ctx.count('oracle', key=str(inp), bucket=['op=' + '+'.join(inp['ops'])] + [f for f in ft if not f.startswith('kind=')])
        try:
            r = check_renotation(inp)
        except Exception as e:  # noqa
            r = {'observed': f'oracle crashed: {type(e).__name__}: {e}', 'expected': 'an evaluation',
                 'signature': 'sound:oracle-crash'}
        if r:
            ctx.fail(r['signature'], inp, r['observed'], r['expected'], oracle='sound')
