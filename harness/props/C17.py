"""C17 — metric grids place notes exactly on their pulses; Euclidean rhythms are even."""
import sys
sys.dont_write_bytecode = True
from fractions import Fraction as F
import core
from core import sx, py_res, show_ints, frac_str

ID = 'C17'
LEAN_MODULES = ['MV.Props.C17']
LEAN_HELPERS = ['MV.Lemmas.Metric', 'MV.Lemmas.Bjorklund', 'MV.Model.Metric', 'MV.Model.Basic', 'MV.Model.Types']
DRIVERS = ['C17']
GEN = ['Tables', 'MetricTables']
SRC_TIE = ['SrcMetric', 'SrcEuclid']   # py2lean source images proved equal to the model: get_beat_durations / complementary / circular_shift (MV/Props/TieMetric.lean); bjorklund_algorithm, Metric.duration / _nb_steps / Euclidian / euclidian / reversed / get_array_between / _apply_durations_to_melody / apply_to_melody / FromMelody / from_melody (MV/Props/TieSrcEuclid.lean)
RULE = ('metric: grids over the 9 signatures x 14 tatums x 1..3 bars (steps integral, <= 96) with random binary arrays '
        '(all-0, all-1, leading-rest and single-pulse grids forced) x random melodies (pitched, relative, drum/pattern '
        'notes, rests, continuations), three observations per case (produced melody, get_note_times, FromMelody of the '
        'result); window: the same with start/end as ScoreRhythm passes them; algebra: complement / reversal / shift by '
        'any n; raw: get_beat_durations and _apply_durations_to_melody on non-binary arrays, malformed constructors; '
        'euclid: every (steps, pulses), 0 <= pulses <= steps <= N, plus out-of-domain pairs and Metric.Euclidian; '
        'a case is non-trivial when the implementation returns a value (not an exception) and the grid has a pulse; '
        'distinct = distinct request line')
TRUSTED = ['model of Metric.get_beat_durations / _apply_durations_to_melody / apply_to_melody / get_array_between / '
           'complementary / reversed / circular_shift / FromMelody / Euclidian, of bjorklund_algorithm and of '
           'Fraction.limit_denominator is hand-written (MV/Model/Metric.lean) and tied to the code by the correspondence '
           'streams metric/window/algebra/raw/euclid/limit',
           'Note.copy bookkeeping of amp/tags/tempo/pedal is not modelled (not observed by the property)']
ASSUMPTIONS = ['tatum is a positive Fraction/int whose denominator is <= LIMIT_DENOM = 1000 (a finer tatum is not '
               'representable as a note duration: set_duration rounds it; modelled, reported as an observation)',
               'grid cells are 0 or 1 (get_beat_durations has a third branch for other values; modelled, not part of the property)',
               'melody non-empty; onsets / FromMelody are stated for melodies whose elements sound '
               '(get_note_times: is_note or type in x, d)',
               'maximal evenness = rotation of the canonical Euclidean word i -> [(i*pulses) mod steps < pulses]']

TATUMS = [F(1, 4), F(1, 2), F(1), F(1, 8), F(1, 3), F(1, 6), F(2), F(3, 2), F(3), F(1, 12), F(3, 4), F(1, 5), F(4), F(6)]
PITCHED = ['s', 'h', 'c', 'b', 'a', 'su', 'sd', 'hu', 'hd', 'cu', 'cd', 'bu', 'bd']
DURS = [F(1), F(1, 2), F(1, 4), F(2), F(3, 2), F(1, 3), F(3, 4), F(4), F(1, 8), F(2, 3)]


def signatures():
    from musiclang import Metric
    return [tuple(s) for s in Metric.SIGNATURES]


# ----------------------------------------------------------------------------- building inputs


def mk_note(spec):
    from musiclang import Note, Silence, Continuation
    t, v, o, d, mode, acc = spec
    d = F(d)
    if t == 'r':
        return Silence(d)
    if t == 'l':
        return Continuation(d)
    return Note(t, v, o, d, mode=mode, accident=acc)


def mk_notes(specs):
    return [mk_note(s) for s in specs]


def mk_metric(inp):
    from musiclang import Metric
    t = F(inp['tatum'])
    if inp.get('tatum_int') and t.denominator == 1:
        t = int(t)
    return Metric(list(inp['array']), tuple(inp['sig']), tatum=t, nb_bars=inp['nb'])


def enc_specs(specs):
    return [core.SX(sx('n', t, v, o, F(d), mode, acc, 66, [], None, None)) for (t, v, o, d, mode, acc) in specs]


def show_mel(mel):
    notes = mel.notes if hasattr(mel, 'notes') else mel
    return '(' + ' '.join(sx(n.type, int(n.val), int(n.octave), F(n.duration), n.mode, n.accident) for n in notes) + ')'


def show_rats(l):
    return '(' + ' '.join(frac_str(x) for x in l) + ')'


def show_beats(res):
    beats, first = res
    return sx([[bool(b), F(d)] for b, d in beats], bool(first))


def sounding(t):
    """Melody.get_note_times' notion of an element that has an onset"""
    return t not in ('r', 'l')


def rand_spec(rng, kinds, p_rest=0.0, p_cont=0.0):
    x = rng.random()
    d = str(rng.choice(DURS))
    if x < p_rest:
        return ('r', 0, 0, d, None, None)
    if x < p_rest + p_cont:
        return ('l', 0, 0, d, None, None)
    k = rng.choice(kinds)
    mode = rng.choice(['m', 'M', 'dorian']) if (k in ('s', 'h') and rng.random() < 0.1) else None
    acc = None
    v = rng.randint(-8, 10)
    if k == 's' and mode is None and rng.random() < 0.1:
        acc, v = rng.choice(['min', 'maj', 'dim', 'aug', 'natural']), rng.randrange(7)
    return (k, v, rng.randint(-2, 2), d, mode, acc)


def rand_melody_specs(rng, flavour=None):
    flavour = flavour or rng.choice(['pitched', 'pitched', 'pitched', 'drum', 'mixed'])
    n = rng.choice([1, 1, 2, 3, 3, 4, 5, 7])
    if flavour == 'pitched':
        return [rand_spec(rng, PITCHED) for _ in range(n)], flavour
    if flavour == 'drum':
        return [rand_spec(rng, ['d', 'd', 'x'] + PITCHED[:2]) for _ in range(n)], flavour
    return [rand_spec(rng, PITCHED + ['d', 'x'], p_rest=0.2, p_cont=0.15) for _ in range(n)], flavour


def grids(max_steps=96):
    out = []
    for sig in signatures():
        for t in TATUMS:
            for nb in (1, 2, 3):
                steps = nb * sig[0] * F(4, sig[1]) / t
                if steps.denominator == 1 and 1 <= steps <= max_steps:
                    out.append((sig, t, nb, int(steps)))
    return out


def rand_array(rng, n):
    k = rng.random()
    if k < 0.04:
        return [0] * n
    if k < 0.08:
        return [1] * n
    if k < 0.14:
        a = [0] * n
        a[rng.randrange(n)] = 1
        return a
    p = rng.choice([0.15, 0.3, 0.5, 0.7])
    a = [1 if rng.random() < p else 0 for _ in range(n)]
    if k < 0.32:     # leading rest
        for i in range(rng.randint(1, max(1, min(n, 4)))):
            a[i] = 0
    return a


def grid_inp(sig, t, nb, array, rng=None):
    return {'sig': list(sig), 'tatum': str(t), 'nb': nb, 'array': list(array),
            'tatum_int': bool(rng and t.denominator == 1 and rng.random() < 0.3)}


def margs(inp):
    return (list(inp['array']), list(inp['sig']), F(inp['tatum']), inp['nb'])


def lead(inp):
    a = inp['array']
    return 'empty' if not a else ('lead1' if a[0] == 1 else 'lead0')


# ----------------------------------------------------------------------------- oracles (the property, on the real code)


def spec_duration(inp):
    nom, den = inp['sig']
    return inp['nb'] * nom * F(4, den)


def expected_elements(inp, off=None):
    """the melody the property prescribes, built from the pulse positions (not by run-length folding):
    list of (onset, duration, source index into the melody or None for the leading rest).
    `off` = index of the melody note placed on the first pulse (the property fixes it to 0 when the grid
    starts on a pulse and leaves it open otherwise; the code uses 1 then)"""
    a = inp['array']
    t = F(inp['tatum'])
    n = len(a)
    pulses = [i for i, x in enumerate(a) if x == 1]
    L = len(inp['notes'])
    out = []
    if a[0] != 1:
        first = pulses[0] if pulses else n
        out.append((F(0), first * t, None))
        off = 1 if off is None else off
    else:
        off = 0
    for j, p in enumerate(pulses):
        nxt = pulses[j + 1] if j + 1 < len(pulses) else n
        out.append((p * t, (nxt - p) * t, (j + off) % L))
    return out


def offsets(inp):
    """admissible starting notes: the first one when the grid starts on a pulse, any (but cyclic) otherwise"""
    return [0] if inp['array'][0] == 1 else [1] + [c for c in range(len(inp['notes'])) if c != 1]


def ident(n):
    return (n.type, int(n.val), int(n.octave), n.mode, n.accident)


REST = ('r', 0, 0, None, None)


def elements(mel):
    got, t = [], F(0)
    for n in mel.notes:
        got.append((t, F(n.duration), ident(n)))
        t += n.duration
    return got


def match_elements(inp, src, got):
    """None when `got` is the prescribed melody for some admissible starting note, else (aspect, observed, expected)"""
    want = None
    for off in offsets(inp):
        exp = expected_elements(inp, off)
        want_off = [(o, d, REST if i is None else ident(src[i])) for o, d, i in exp]
        if want is None:
            want = want_off
            if [(o, d) for o, d, _ in got] != [(o, d) for o, d, _ in want]:
                return ('onsets', show_rats([o for o, _, _ in got]), show_rats([o for o, _, _ in want]))
        if got == want_off:
            return None
    return ('order', str([g[2] for g in got]), str([w[2] for w in want]))


def check_apply(inp):
    """duration = metric duration; every element of the result is the prescribed one (onset, length, which melody
    note, cyclically); get_note_times = the pulse positions carrying a sounding element"""
    from musiclang import Melody
    m = mk_metric(inp)
    src = mk_notes(inp['notes'])
    out = m.apply_to_melody(Melody(mk_notes(inp['notes'])))
    D = spec_duration(inp)
    if out.duration != D:
        return {'aspect': 'duration', 'observed': frac_str(out.duration), 'expected': frac_str(D)}
    got = elements(out)
    r = match_elements(inp, src, got)
    if r:
        return {'aspect': r[0], 'observed': r[1], 'expected': r[2]}
    times = [F(x) for x in out.get_note_times()]
    t = F(inp['tatum'])
    wt = [o for o, d, idn in got if sounding(idn[0]) and inp['array'][int(o / t)] == 1]
    if times != wt:
        return {'aspect': 'note_times', 'observed': show_rats(times), 'expected': show_rats(wt)}
    # the documented flag expand=False (the melody is not repeated cyclically: pulses beyond its notes get silences): the
    # result still lasts exactly the metric's duration (seed C17-9 stopped one pulse early on grids that start on a rest)
    if sum(inp['array']) > 0:
        out2 = m.apply_to_melody(Melody(mk_notes(inp['notes'])), expand=False)
        if out2.duration != D:
            return {'aspect': 'duration-expand-false', 'observed': frac_str(out2.duration), 'expected': frac_str(D)}
    return None


def check_window(inp):
    """apply_to_melody(start=, end=) on a window aligned with the tatum grid (what ScoreRhythm asks for each chord,
    possibly spanning several cycles of the grid): the result lasts end - start and is the prescribed melody of the
    grid read cyclically over the window (seed C17-6 read the window in 'the grid followed by itself')"""
    from musiclang import Melody
    m = mk_metric(inp)
    src = mk_notes(inp['notes'])
    s0, e0, t = F(inp['start']), F(inp['end']), F(inp['tatum'])
    if (s0 / t).denominator != 1 or (e0 / t).denominator != 1 or e0 <= s0 or s0 < 0:
        return None
    n = len(inp['array'])
    virt = dict(inp, array=[inp['array'][i % n] for i in range(int(s0 / t), int(e0 / t))])
    if sum(virt['array']) == 0:
        return None
    out = m.apply_to_melody(Melody(mk_notes(inp['notes'])), start=s0, end=e0)
    if out.duration != e0 - s0:
        return {'aspect': 'window-duration', 'observed': frac_str(out.duration), 'expected': frac_str(e0 - s0)}
    r = match_elements(virt, src, elements(out))
    if r:
        return {'aspect': 'window-' + r[0], 'observed': r[1], 'expected': r[2]}
    return None


def check_from_melody(inp):
    """extracting the metric of the produced melody returns the grid: a 1 exactly on the pulses whose element
    sounds (for a melody of sounding elements: the grid itself)"""
    from musiclang import Melody
    m = mk_metric(inp)
    out = m.apply_to_melody(Melody(mk_notes(inp['notes'])))
    back = [int(x) for x in m.from_melody(out).array]
    t = F(inp['tatum'])
    want = [0] * len(inp['array'])
    for o, d, idn in elements(out):
        k = o / t
        if sounding(idn[0]) and k.denominator == 1 and k < len(want) and inp['array'][int(k)] == 1:
            want[int(k)] = 1
    if all(sounding(s[0]) for s in inp['notes']):
        want = [int(x) for x in inp['array']]
    if back == want:
        return None
    # narrow class of the failure: every wrong cell is a pulse carrying a drum / pattern note read back as 0
    unpitched = {int(o / t) for o, d, idn in elements(out) if idn[0] in ('d', 'x') and (o / t).denominator == 1}
    wrong = [i for i in range(max(len(back), len(want))) if i >= len(back) or i >= len(want) or back[i] != want[i]]
    cls = ('d-or-x-note-read-as-rest' if len(back) == len(want) and all(i in unpitched and back[i] == 0 for i in wrong)
           else 'other')
    return {'observed': back, 'expected': want, 'cls': cls}


def canonical_word(n, k):
    return [1 if (i * k) % n < k else 0 for i in range(n)]


def check_word(p, n, k):
    if len(p) != n:
        return 'length', len(p), n
    if sum(p) != k or any(x not in (0, 1) for x in p):
        return 'count', sum(p), k
    if p[0] != 1:
        return 'downbeat', p[0], 1
    idx = [i for i, x in enumerate(p) if x]
    gaps = [(idx[(j + 1) % k] - idx[j]) % n or n for j in range(k)]
    lo, hi = n // k, -(-n // k)
    if any(g not in (lo, hi) for g in gaps):
        return 'gaps', gaps, [lo, hi]
    c = canonical_word(n, k)
    if not any(p == c[i:] + c[:i] for i in range(n)):
        return 'max_even', p, c
    return None


def check_euclid(inp):
    from musiclang.write.rhythm.utils_metric import bjorklund_algorithm
    n, k = inp['steps'], inp['pulses']
    try:
        p = [int(x) for x in bjorklund_algorithm(n, k)]
    except Exception as e:
        return {'aspect': 'raises', 'observed': type(e).__name__, 'expected': 'a pattern'}
    r = check_word(p, n, k)
    if r:
        return {'aspect': r[0], 'observed': r[1], 'expected': r[2]}
    return None


def check_euclidian(inp):
    from musiclang import Metric
    sig, t, nb, k = tuple(inp['sig']), F(inp['tatum']), inp['nb'], inp['pulses']
    m = Metric.Euclidian(k, sig, t, nb_bars=nb)
    n = int(spec_duration(inp) / t)
    r = check_word([int(x) for x in m.array], n, k)
    if r is None and (m.nb_notes != k or m.duration != spec_duration(inp) or m.euclidian(k).array != m.array):
        r = ('metric', (int(m.nb_notes), frac_str(m.duration)), (k, frac_str(spec_duration(inp))))
    if r:
        return {'aspect': r[0], 'observed': r[1], 'expected': r[2]}
    return None


def check_algebra(inp):
    from musiclang import Melody, Metric
    from musiclang.library import s0, s1, s2, r as rest
    m = mk_metric(inp)
    a = list(inp['array'])
    L = len(a)
    n = inp['n']
    # the metric has been *used* before it is transformed: a grid derived from it must behave like the same grid
    # written afresh (seed C17-5 cached the beat durations on the instance and derived metrics by a shallow copy)
    mel = s0 + s1.e + rest.e + s2
    py_res(lambda: m.apply_to_melody(mel))
    py_res(lambda: m.get_beat_durations())
    c = m.complementary()
    if [int(x) for x in c.array] != [1 - x for x in a] or [int(x) for x in c.complementary().array] != a:
        return {'aspect': 'complement', 'observed': (c.array, c.complementary().array), 'expected': ([1 - x for x in a], a)}
    r = m.reversed()
    if [int(x) for x in r.array] != [a[L - 1 - i] for i in range(L)] or [int(x) for x in r.reversed().array] != a:
        return {'aspect': 'reverse', 'observed': (r.array, r.reversed().array), 'expected': (a[::-1], a)}
    s = m.circular_shift(n)
    want = [a[(i - n) % L] for i in range(L)]
    back = s.circular_shift(-n)
    if [int(x) for x in s.array] != want or [int(x) for x in back.array] != a:
        return {'aspect': 'shift', 'observed': (s.array, back.array), 'expected': (want, a)}
    for q in (c, r, s, back):
        if (q.signature, F(q.tatum), q.nb_bars) != (m.signature, F(m.tatum), m.nb_bars):
            return {'aspect': 'params', 'observed': str((q.signature, q.tatum, q.nb_bars)), 'expected': 'unchanged'}
    for name, q in (('complement', c), ('reverse', r), ('shift', s), ('shift-back', back)):
        fresh = Metric([int(x) for x in q.array], signature=q.signature, tatum=q.tatum, nb_bars=q.nb_bars)
        got = py_res(lambda: str(q.apply_to_melody(mel)) + ' | ' + str(q.get_beat_durations()))
        exp = py_res(lambda: str(fresh.apply_to_melody(mel)) + ' | ' + str(fresh.get_beat_durations()))
        if got != exp:
            return {'aspect': 'derived-after-use:' + name, 'observed': got, 'expected': exp}
    return None


def check_score_rhythm(inp):
    """ScoreRhythm over chords lasting exactly the metric's duration gives every chord the whole-grid melody"""
    from musiclang import Melody, ScoreRhythm, Chord, Tonality, Score, Silence
    m = mk_metric(inp)
    D = spec_duration(inp)
    score = None
    for specs in inp['chords']:
        mel = Melody(mk_notes(specs))
        mel = mel.augment(D / mel.duration)        # chord duration == metric duration
        score += Chord(0, tonality=Tonality(0))(piano__0=mel, violin__0=Melody([Silence(D)]))
    out = ScoreRhythm({'piano__0': m})(score)
    for ch, specs in zip(out.chords, inp['chords']):
        sub = dict(inp, notes=specs)
        r = match_elements(sub, mk_notes(specs), elements(ch.score['piano__0']))
        if r:
            return {'aspect': r[0], 'observed': r[1], 'expected': r[2]}
        if ch.score['violin__0'].duration != D:
            return {'aspect': 'other-part', 'observed': frac_str(ch.score['violin__0'].duration), 'expected': frac_str(D)}
    return None


def check_score_grid(inp):
    """ScoreRhythm lays the grid over the absolute time of the score: a chord that starts at time T and lasts d (both on
    the tatum grid) gets the prescribed melody of the grid read cyclically from T to T + d, whatever the earlier chords
    hold — including chords in which the rhythmed part is missing (seed C17-7 stopped the clock over those)"""
    from musiclang import Melody, ScoreRhythm, Chord, Tonality, Silence
    m = mk_metric(inp)
    t = F(inp['tatum'])
    n = len(inp['array'])
    score = None
    spans = []
    T = 0
    for specs, (k, has) in zip(inp['chords'], inp['layout']):
        d = k * t
        # the written rhythm of the part does not matter (the grid replaces it); one tatum per note keeps every
        # duration inside the library's resolution, the silent part fixes the chord's length
        mel = Melody([x.set_duration(t) for x in mk_notes(specs)[:k]])
        parts = {'violin__0': Melody([Silence(d)])}
        if has:
            parts['piano__0'] = mel
        score += Chord(0, tonality=Tonality(0))(**parts)
        spans.append((T, T + k, has, specs))
        T += k
    out = ScoreRhythm({'piano__0': m})(score)
    if len(out.chords) != len(spans):
        return {'aspect': 'grid-chords', 'observed': len(out.chords), 'expected': len(spans)}
    for ch, (i0, i1, has, specs) in zip(out.chords, spans):
        if ch.duration != (i1 - i0) * t:
            return {'aspect': 'grid-duration', 'observed': frac_str(ch.duration), 'expected': frac_str((i1 - i0) * t)}
        if not has:
            continue
        used = specs[:i1 - i0]
        virt = dict(inp, array=[inp['array'][i % n] for i in range(i0, i1)], notes=used)
        if sum(virt['array']) == 0:
            continue
        r = match_elements(virt, mk_notes(used), elements(ch.score['piano__0']))
        if r:
            return {'aspect': 'grid-' + r[0], 'observed': r[1], 'expected': r[2]}
    return None


ORACLES = {'apply': check_apply, 'window': check_window, 'from_melody': check_from_melody, 'euclid': check_euclid,
           'euclidian': check_euclidian, 'algebra': check_algebra, 'score_rhythm': check_score_rhythm,
           'score_grid': check_score_grid}


def run_oracle(ctx, name, inp, sig_fn, bucket):
    ctx.count('oracle', key=(name, str(inp)), bucket=bucket)
    try:
        r = ORACLES[name](inp)
    except Exception as e:  # the property promises a value on these inputs
        r = {'aspect': 'raises', 'observed': f'{type(e).__name__}: {e}'[:300], 'expected': 'no exception'}
    if r:
        ctx.fail(sig_fn(inp, r), inp, r.get('observed'), r.get('expected'), oracle=name)
    return r


# ----------------------------------------------------------------------------- correspondence


def in_domain(inp):
    """grid and melody inside the property's quantifier (binary non-empty array of the right size, notes present)"""
    a = inp['array']
    t = F(inp['tatum'])
    return (bool(a) and all(x in (0, 1) for x in a) and t > 0 and t.denominator <= 1000 and inp['nb'] >= 1
            and tuple(inp['sig']) in signatures() and spec_duration(inp) / t == len(a) and len(inp.get('notes', [1])) > 0)


def metric_cases(ctx, n_cases, windows=False):
    rng = ctx.rng
    G = grids()
    cases = []
    for it in range(n_cases):
        sig, t, nb, steps = rng.choice(G) if it >= len(G) else G[it]
        arr = rand_array(rng, steps)
        specs, flavour = rand_melody_specs(rng)
        inp = dict(grid_inp(sig, t, nb, arr, rng), notes=specs)
        a, s, tt, n = margs(inp)
        enc = enc_specs(specs)
        bucket = [f'sig={sig[0]}/{sig[1]}', f'tatum={t}', f'nb={nb}', lead(inp), f'mel={flavour}',
                  'pulses=0' if sum(arr) == 0 else ('pulses=all' if sum(arr) == steps else 'pulses=some')]
        if windows:
            # start/end as ScoreRhythm passes them: chord boundaries, mostly on the tatum grid
            unit = t if rng.random() < 0.7 else t / 2
            s0 = unit * rng.randint(0, 2 * steps)
            e0 = s0 + unit * rng.randint(0, steps + 3)
            ex = rng.random() < 0.85
            winp = dict(inp, start=str(s0), end=str(e0), expand=ex, op='window')
            impl = py_res(lambda: mk_metric(inp).apply_to_melody(mk_melody(specs), expand=ex, start=s0, end=e0), show_mel)
            cases.append({'line': sx('apply', a, s, tt, n, enc, ex, s0, e0), 'impl': impl, 'input': winp,
                          'bucket': bucket + [f'expand={ex}', 'aligned' if (s0 / t).denominator == 1 and (e0 / t).denominator == 1 else 'unaligned',
                                              'err' if impl.startswith('ERR') else 'ok'],
                          'nontrivial': not impl.startswith('ERR') and sum(arr) > 0})
            continue
        ex = rng.random() < 0.8
        impl = py_res(lambda: mk_metric(inp).apply_to_melody(mk_melody(specs), expand=ex), show_mel)
        nt = not impl.startswith('ERR') and sum(arr) > 0
        cases.append({'line': sx('apply', a, s, tt, n, enc, ex, None, None), 'impl': impl, 'input': dict(inp, op='apply', expand=ex),
                      'bucket': bucket + ['op=apply', f'expand={ex}'], 'nontrivial': nt})
        impl = py_res(lambda: mk_metric(inp).apply_to_melody(mk_melody(specs)).get_note_times(), show_rats)
        cases.append({'line': sx('times', a, s, tt, n, enc), 'impl': impl, 'input': dict(inp, op='times'),
                      'bucket': ['op=times'], 'nontrivial': nt})

        def rt():
            m = mk_metric(inp)
            return m.from_melody(m.apply_to_melody(mk_melody(specs))).array
        impl = py_res(rt, show_ints)
        cases.append({'line': sx('applyfrom', a, s, tt, n, enc), 'impl': impl, 'input': dict(inp, op='applyfrom'),
                      'bucket': ['op=applyfrom'], 'nontrivial': nt})
    return cases


def mk_melody(specs):
    from musiclang import Melody
    return Melody(mk_notes(specs))


def algebra_cases(ctx, n_cases):
    rng = ctx.rng
    G = grids(48)
    cases = []
    for it in range(n_cases):
        sig, t, nb, steps = rng.choice(G)
        arr = rand_array(rng, steps)
        n = rng.choice([0, 1, -1, steps, -steps, rng.randint(-3 * steps, 3 * steps), rng.randint(-5, 5)])
        inp = dict(grid_inp(sig, t, nb, arr, rng), n=n, op='algebra')
        a, s, tt, nbb = margs(inp)
        for op, f in (('compl', lambda m: m.complementary()), ('rev', lambda m: m.reversed())):
            cases.append({'line': sx(op, a, s, tt, nbb), 'impl': py_res(lambda: f(mk_metric(inp)).array, show_ints),
                          'input': inp, 'bucket': [f'op={op}'], 'nontrivial': True})
        cases.append({'line': sx('shift', a, s, tt, nbb, n), 'impl': py_res(lambda: mk_metric(inp).circular_shift(n).array, show_ints),
                      'input': inp, 'bucket': ['op=shift', 'n<0' if n < 0 else ('n=0' if n == 0 else 'n>0'),
                                               '|n|>=len' if abs(n) >= steps else '|n|<len'], 'nontrivial': n % steps != 0})
        # FromMelody on a free melody (tatum given or inferred)
        from musiclang import Metric
        specs, flavour = rand_melody_specs(rng)
        tat = rng.choice([None, t, F(1, 4), F(1, 12)])
        if rng.random() < 0.7:
            # a melody that fits the grid: run lengths that add up to `steps` tatums
            cuts = sorted(rng.sample(range(1, steps), min(steps - 1, rng.randint(0, 6)))) if steps > 1 else []
            lens = [b - a for a, b in zip([0] + cuts, cuts + [steps])]
            kinds = PITCHED + ['d', 'x', 'r', 'l']
            specs = [(k, 0 if k in 'rl' else rng.randint(-3, 6), 0, str(l * t), None, None)
                     for l, k in ((l, rng.choice(kinds)) for l in lens)]
            tat = rng.choice([t, t, None, t / 2 if (steps * 2) <= 96 else t])
        impl = py_res(lambda: Metric.FromMelody(mk_melody(specs), signature=tuple(sig), tatum=tat, nb_bars=nb).array, show_ints)
        cases.append({'line': sx('frommel', enc_specs(specs), list(sig), tat, nb), 'impl': impl,
                      'input': {'op': 'frommel', 'notes': specs, 'sig': list(sig), 'tatum': None if tat is None else str(tat), 'nb': nb},
                      'bucket': ['op=frommel', 'tatum=None' if tat is None else 'tatum=given', 'err' if impl.startswith('ERR') else 'ok'],
                      'nontrivial': not impl.startswith('ERR')})
    return cases


def raw_cases(ctx, n_cases):
    """get_beat_durations / _apply_durations_to_melody on arbitrary cells, malformed constructors"""
    from musiclang import Metric
    rng = ctx.rng
    cases = []
    for it in range(n_cases):
        t = rng.choice(TATUMS)
        n = rng.randint(0, 9)
        arr = [rng.choice([0, 0, 1, 1, 1, 2, -1]) for _ in range(n)]
        m = Metric([1, 0, 0, 0], (4, 4), tatum=F(1))
        m.tatum = t
        impl = py_res(lambda: m.get_beat_durations(list(arr)), show_beats)
        cases.append({'line': sx('beats', t, arr), 'impl': impl, 'input': {'op': 'beats', 'tatum': str(t), 'array': arr},
                      'bucket': ['op=beats', 'binary' if all(x in (0, 1) for x in arr) else 'nonbinary'], 'nontrivial': n > 0})
        beats = [(rng.random() < 0.7, rng.choice(DURS) * rng.randint(1, 3)) for _ in range(rng.randint(0, 6))]
        specs, _ = rand_melody_specs(rng)
        if rng.random() < 0.1:
            specs = []
        first, ex = rng.random() < 0.6, rng.random() < 0.6
        impl = py_res(lambda: Metric._apply_durations_to_melody(mk_notes(specs), list(beats), first_has_note=first, expand=ex), show_mel)
        cases.append({'line': sx('applydur', enc_specs(specs), [[b, d] for b, d in beats], first, ex), 'impl': impl,
                      'input': {'op': 'applydur', 'notes': specs, 'beats': [[b, str(d)] for b, d in beats], 'first': first, 'expand': ex},
                      'bucket': ['op=applydur', f'expand={ex}', f'first={first}', 'empty-melody' if not specs else 'melody'],
                      'nontrivial': bool(specs) and bool(beats)})
        # constructors: wrong sizes, unknown signatures, zero / negative / fine tatums, zero bars
        sig = rng.choice(signatures() + [(5, 4), (4, 0), (7, 8)])
        tt = rng.choice(TATUMS + [F(0), F(-1, 2), F(4, 1001), F(1, 1024), F(3, 1000)])
        nb = rng.choice([1, 1, 2, 0, -1])
        ln = rng.randint(0, 8)
        if rng.random() < 0.6 and tt != 0 and sig[1] != 0:
            q = nb * sig[0] * F(4, sig[1]) / tt
            if q.denominator == 1 and 0 <= q <= 4200:
                ln = int(q)
        arr = [rng.choice([0, 1]) for _ in range(ln)]
        inp = {'op': 'mk', 'sig': list(sig), 'tatum': str(tt), 'nb': nb, 'array': arr}
        impl = py_res(lambda: mk_metric(inp).duration, frac_str)
        cases.append({'line': sx('mk', arr, list(sig), tt, nb), 'impl': impl, 'input': inp,
                      'bucket': ['op=mk', 'err=' + impl if impl.startswith('ERR') else 'ok'], 'nontrivial': not impl.startswith('ERR')})
        if not impl.startswith('ERR') and ln <= 1100:
            specs, _ = rand_melody_specs(rng)
            if rng.random() < 0.15:
                specs = []
            inp2 = dict(inp, op='apply', notes=specs, expand=True)
            impl = py_res(lambda: mk_metric(inp).apply_to_melody(mk_melody(specs)), show_mel)
            cases.append({'line': sx('apply', arr, list(sig), tt, nb, enc_specs(specs), True, None, None), 'impl': impl, 'input': inp2,
                          'bucket': ['op=apply-odd', 'fine-tatum' if tt.denominator > 1000 else 'tatum-ok',
                                     'err=' + impl if impl.startswith('ERR') else 'ok'], 'nontrivial': not impl.startswith('ERR')})
    return cases


def euclid_pairs(N):
    return [(n, k) for n in range(0, N + 1) for k in range(0, n + 1)]


def euclid_cases(ctx, N, n_big):
    from musiclang.write.rhythm.utils_metric import bjorklund_algorithm
    from musiclang import Metric
    rng = ctx.rng
    cases = []
    pairs = euclid_pairs(N)
    for _ in range(n_big):
        n = rng.randint(N + 1, 4 * N)
        pairs.append((n, rng.randint(1, n)))
    pairs += [(3, 5), (0, 1), (-2, -3), (-3, -2), (5, -1), (5, -2), (7, -7), (-1, 0)]
    for n, k in pairs:
        impl = py_res(lambda: bjorklund_algorithm(n, k), show_ints)
        cases.append({'line': sx('euclid', n, k), 'impl': impl, 'input': {'op': 'euclid', 'steps': n, 'pulses': k},
                      'bucket': ['op=euclid', 'in-domain' if 1 <= k <= n else 'out-of-domain',
                                 'err=' + impl if impl.startswith('ERR') else 'ok'],
                      'nontrivial': 1 <= k <= n})
    for sig, t, nb, steps in grids(64):
        for k in sorted({1, steps, rng.randint(1, steps), rng.randint(1, steps), 0, steps + 1}):
            impl = py_res(lambda: Metric.Euclidian(k, tuple(sig), t, nb_bars=nb).array, show_ints)
            cases.append({'line': sx('euclidian', k, list(sig), t, nb), 'impl': impl,
                          'input': {'op': 'euclidian', 'pulses': k, 'sig': list(sig), 'tatum': str(t), 'nb': nb},
                          'bucket': ['op=euclidian', 'err=' + impl if impl.startswith('ERR') else 'ok'], 'nontrivial': 1 <= k <= steps})
    # non-integral step counts: int() truncates, the constructor rejects
    for sig, t, nb in [((3, 8), F(1, 4), 1), ((4, 4), F(3, 4), 1), ((3, 4), F(2), 1), ((9, 8), F(1), 1), ((4, 4), F(0), 1), ((2, 2), F(-1), 1)]:
        impl = py_res(lambda: Metric.Euclidian(2, sig, t, nb_bars=nb).array, show_ints)
        cases.append({'line': sx('euclidian', 2, list(sig), t, nb), 'impl': impl,
                      'input': {'op': 'euclidian', 'pulses': 2, 'sig': list(sig), 'tatum': str(t), 'nb': nb},
                      'bucket': ['op=euclidian-odd', 'err=' + impl if impl.startswith('ERR') else 'ok'], 'nontrivial': False})
    return cases


def limit_cases(ctx, n_cases):
    rng = ctx.rng
    cases = []
    for _ in range(n_cases):
        q = F(rng.randint(-5000, 50000), rng.randint(1, 40000))
        if rng.random() < 0.3:
            q = F(rng.randint(1, 64), rng.choice([1001, 1024, 1003, 2000, 1999, 3001, 1536]))
        M = rng.choice([1000, 1000, 1000, 1, 7, 100])
        cases.append({'line': sx('limit', q, M), 'impl': frac_str(q.limit_denominator(M)), 'input': {'op': 'limit', 'q': str(q), 'M': M},
                      'bucket': ['op=limit', 'identity' if q.denominator <= M else 'rounded'], 'nontrivial': q.denominator > M})
    return cases


def correspondence(ctx):
    ctx.compare('metric', 'C17', metric_cases(ctx, ctx.n(700, 25000)))
    ctx.compare('window', 'C17', metric_cases(ctx, ctx.n(500, 15000), windows=True))
    ctx.compare('algebra', 'C17', algebra_cases(ctx, ctx.n(300, 10000)))
    ctx.compare('raw', 'C17', raw_cases(ctx, ctx.n(300, 8000)))
    ctx.compare('limit', 'C17', limit_cases(ctx, ctx.n(300, 5000)))
    ctx.compare('euclid', 'C17', euclid_cases(ctx, ctx.n(96, 400) if not ctx.search else 96, ctx.n(40, 400)))
    # kernel-level streams of the source tie (DESIGN §9.6)
    import srctie
    srctie.run(ctx, [g for g in SRC_TIE if g != 'SrcEuclid'])
    srctie.run(ctx, ['SrcEuclid'], quick=450, thorough=8000)      # four families of operations, see srcgroups/SrcEuclid.py


# ----------------------------------------------------------------------------- oracle driver


def sig_apply(inp, r):
    return f"apply:{r.get('aspect')}:{lead(inp)}"


def sig_from_melody(inp, r):
    if r.get('aspect') == 'raises':
        return f'from_melody:raises:{lead(inp)}'
    return f"from_melody:{r.get('cls', 'other')}"


def sig_euclid(inp, r):
    return f"euclid:{r.get('aspect')}"


def sig_euclidian(inp, r):
    return f"euclidian:{r.get('aspect')}"


def sig_algebra(inp, r):
    return f"algebra:{r.get('aspect')}"


def sig_score_rhythm(inp, r):
    return f"score_rhythm:{r.get('aspect', 'melody')}:{lead(inp)}"


# former witness of the FromMelody defect (fixed by patches/C17-frommelody-unpitched-notes.diff), kept as a regression input
WITNESS_FROM_MELODY = {'sig': [4, 4], 'tatum': '1', 'nb': 1, 'array': [1, 0, 1, 0], 'tatum_int': False,
                       'notes': [['d', 3, 0, '1', None, None]]}


def oracle(ctx):
    rng = ctx.rng
    # 1. suspects (inputs on which model and code disagreed)
    for stream, inp in ctx.suspects:
        if not isinstance(inp, dict):
            continue
        op = inp.get('op')
        if op in ('apply', 'times', 'applyfrom') and in_domain(inp):
            run_oracle(ctx, 'apply', inp, sig_apply, 'suspect')
            run_oracle(ctx, 'from_melody', inp, sig_from_melody, 'suspect')
        elif op == 'window' and in_domain(inp):
            run_oracle(ctx, 'window', inp, sig_apply, 'suspect')
        elif op == 'algebra' and in_domain(inp):
            run_oracle(ctx, 'algebra', inp, sig_algebra, 'suspect')
        elif op == 'euclid' and 1 <= inp['pulses'] <= inp['steps']:
            run_oracle(ctx, 'euclid', inp, sig_euclid, 'suspect')
        elif op == 'euclidian':
            t = F(inp['tatum'])
            if t > 0 and tuple(inp['sig']) in signatures():
                st = spec_duration(inp) / t
                if st.denominator == 1 and 1 <= inp['pulses'] <= st:
                    run_oracle(ctx, 'euclidian', inp, sig_euclidian, 'suspect')
    # 2. Euclid: every (steps, pulses) in the box, then larger random pairs
    N = ctx.n(64, 300)
    for n in range(1, N + 1):
        for k in range(1, n + 1):
            run_oracle(ctx, 'euclid', {'steps': n, 'pulses': k}, sig_euclid, 'euclid:box')
    for _ in range(ctx.n(60, 600)):
        n = rng.randint(N + 1, 6 * N)
        run_oracle(ctx, 'euclid', {'steps': n, 'pulses': rng.randint(1, n)}, sig_euclid, 'euclid:random')
    for sig, t, nb, steps in grids(64):
        for k in sorted({1, steps, rng.randint(1, steps)}):
            run_oracle(ctx, 'euclidian', {'pulses': k, 'sig': list(sig), 'tatum': str(t), 'nb': nb}, sig_euclidian, 'euclidian')
    # 3. metric application: every binary grid of the small signatures, then random grids
    mels = [[('s', 0, 0, '1', None, None)],
            [('s', 0, 0, '1', None, None), ('s', 1, 0, '1/2', None, None)],
            [('s', 0, 0, '1', None, None), ('h', 1, 1, '1/2', None, None), ('a', 2, -1, '2', None, None)],
            [('s', 0, 0, '1', None, None), ('r', 0, 0, '1', None, None), ('su', 1, 0, '1/2', None, None), ('l', 0, 0, '1', None, None)]]
    small = [g for g in grids(8 if ctx.tier == 'quick' and not ctx.search else 10)]
    for sig, t, nb, steps in small:
        for bits in range(2 ** steps):
            arr = [(bits >> i) & 1 for i in range(steps)]
            for mel in (mels if steps <= 6 else mels[1:3]):
                inp = dict(grid_inp(sig, t, nb, arr), notes=[list(x) for x in mel])
                run_oracle(ctx, 'apply', inp, sig_apply, 'apply:exhaustive')
                run_oracle(ctx, 'from_melody', inp, sig_from_melody, 'from_melody:exhaustive')
    G = grids()
    for it in range(ctx.n(1500, 30000)):
        sig, t, nb, steps = rng.choice(G)
        arr = rand_array(rng, steps)
        specs, flavour = rand_melody_specs(rng)
        inp = dict(grid_inp(sig, t, nb, arr, rng), notes=[list(x) for x in specs])
        run_oracle(ctx, 'apply', inp, sig_apply, f'apply:{flavour}')
        run_oracle(ctx, 'from_melody', inp, sig_from_melody, f'from_melody:{flavour}')
        if it % 3 == 0:
            n = rng.choice([0, 1, -1, steps, rng.randint(-3 * steps, 3 * steps)])
            run_oracle(ctx, 'algebra', dict(inp, n=n), sig_algebra, 'algebra')
        if it % 3 == 1:
            # windows on the tatum grid, up to several cycles of the grid long (a chord held over several bars)
            i0 = rng.randint(0, 2 * steps)
            i1 = i0 + rng.choice([rng.randint(1, steps), rng.randint(steps, 4 * steps)])
            run_oracle(ctx, 'window', dict(inp, start=str(i0 * t), end=str(i1 * t)), sig_apply,
                       'window:' + ('>2cycles' if i1 > 2 * steps else '<=2cycles'))
        if it % 10 == 0:
            chords = [[list(x) for x in rand_melody_specs(rng, 'pitched')[0]] for _ in range(rng.randint(1, 3))]
            run_oracle(ctx, 'score_rhythm', dict(inp, chords=chords), sig_score_rhythm, 'score_rhythm')
        if it % 10 == 5:
            nch = rng.randint(2, 4)
            chords = [[list(x) for x in rand_melody_specs(rng, 'pitched')[0]] for _ in range(nch)]
            layout = [[rng.choice([steps, rng.randint(1, 2 * steps), rng.randint(1, steps)]), rng.random() < 0.7] for _ in range(nch)]
            layout[-1][1] = True
            run_oracle(ctx, 'score_grid', dict(inp, chords=chords, layout=layout), sig_score_rhythm, 'score_grid')
    # 4. the former FromMelody witness
    run_oracle(ctx, 'from_melody', WITNESS_FROM_MELODY, sig_from_melody, 'witness')
