"""Source tie (DESIGN.md §9.6): kernel-level correspondence for the functions that py2lean translates.

For every kernel the real Python function is called on generated inputs and its canonical result is compared with
  * the hand-written model          (stream `kernel:<name>`, a regular correspondence stream), and
  * the generated source image      (stream `src:<name>`, *advisory*: it validates the translator; a disagreement
                                     means py2lean mis-translated something, not that the library is wrong).
The equality  source image = model  is a theorem (MV/Props/Tie*.lean), re-checked on every run against the
freshly generated definitions.
"""
import sys, random
sys.dont_write_bytecode = True
from core import sx, py_res, show_ints, show_opt_int, enc_note, enc_chord, enc_ton, SX
import gen

GROUPS = {
    'SrcRel': dict(gen=['SrcRel'], modules=['MV.Props.TieRel'], kernels=['relup', 'reldown', 'relval']),
    'SrcPitch': dict(gen=['SrcRel', 'SrcPitch', 'KindPreds'], modules=['MV.Props.TiePitch', 'MV.Props.TieKinds'],
                     kernels=['v2s', 'npr', 'cscale', 'cchrom', 'tscale']),
    'SrcTonality': dict(gen=['SrcTonality'], modules=['MV.Props.TieTonality'], kernels=['tadd', 'tsub', 'teq']),
    'SrcOps': dict(gen=['SrcRel', 'SrcPitch', 'SrcTonality', 'SrcOps'], modules=['MV.Props.TieOps'],
                   kernels=['noabs', 'no', 'neq', 'to', 'tflat', 'tsharp', 'co', 'cmod', 'parse']),
    'SrcRender': dict(gen=['SrcRel', 'SrcPitch', 'SrcRender', 'KindPreds'], modules=['MV.Props.TieRender', 'MV.Props.TieKinds'],
                      kernels=['n2p', 'm2p']),
    'SrcSlice': dict(gen=['SrcSlice'], modules=['MV.Props.TieSlice'], kernels=['gmb'], driver='Src2'),
    'SrcDur': dict(gen=['SrcDur'], modules=['MV.Props.TieDur', 'MV.Props.TieDurC10'], kernels=['mdur', 'cdur', 'sdur'],
                   driver='Src2'),
    'SrcMetric': dict(gen=['SrcMetric'], modules=['MV.Props.TieMetric'], kernels=['beats', 'compl', 'cshift'], driver='Src2'),
}
HELPERS = ['MV.Lemmas.PyTie', 'MV.Lemmas.TieDurLemmas']
import srcgroups
PLUGIN_KERNELS = {}
for _pl in srcgroups.load():            # plug-in groups (harness/srcgroups/*.py)
    GROUPS[_pl.NAME] = _pl.TIE
    HELPERS += [h for h in getattr(_pl, 'HELPERS', []) if h not in HELPERS]
    for _k in _pl.TIE['kernels']:
        PLUGIN_KERNELS[_k] = _pl


def _scale(rng):
    k = rng.random()
    if k < 0.5:
        c, _ = gen.rand_chord(rng)
        return [int(x) for x in rng.choice([c.scale_pitches, c.chord_pitches, c.chord_extension_pitches,
                                            c.chromatic_pitches])]
    if k < 0.9:
        return [rng.randint(-30, 40) for _ in range(rng.randint(1, 8))]
    return []


def _show_ton(t):
    return sx('t', int(t.degree), t.mode, int(t.octave))


def cases(rng, kernel, n):
    """list of (request tail, impl string, jsonable input, buckets)"""
    import musiclang.write.pitches.pitches_utils as PU
    from musiclang import Note, Tonality
    out = []
    if kernel in PLUGIN_KERNELS:
        return PLUGIN_KERNELS[kernel].cases(rng, kernel, n)
    if kernel in ('relup', 'reldown'):
        f = PU.relative_scale_up_value if kernel == 'relup' else PU.relative_scale_down_value
        for i in range(n):
            s = _scale(rng)
            d = rng.choice([0, 0, 1, 1, 2, 3, 5, 7, 8, 12, 15, -1, 40])
            l = rng.randint(-135, 135) if rng.random() < 0.8 else rng.choice([-121, -120, -119, 107, 108, 118, 119, 120])
            out.append(([d, l, s], py_res(lambda: int(f(d, l, s))), {'d': d, 'last': l, 'scale': s},
                        [f'delta={"0" if d == 0 else ("neg" if d < 0 else "pos")}', f'len={min(len(s), 7)}']))
    elif kernel == 'relval':
        for i in range(n):
            s = _scale(rng)
            nt = Note(rng.choice(gen.REL + ['s', 'c', 'r']), rng.randint(-4, 9), rng.randint(-2, 2), 1)
            l = rng.randint(-100, 100)
            out.append(([enc_note(nt), l, s], py_res(lambda: int(PU.get_relative_scale_value(nt, l, s))),
                        {'note': [nt.type, nt.val, nt.octave], 'last': l, 'scale': s},
                        [f'kind={nt.type}', f'oct={nt.octave}']))
    elif kernel == 'v2s':
        for i in range(n):
            s = [rng.randint(-30, 40) for _ in range(rng.randint(0, 8))]
            v = rng.randint(-40, 40)
            out.append(([v, s], py_res(lambda: int(PU.get_value_to_scale_note(v, s))), {'v': v, 'scale': s},
                        [f'len={len(s)}', f'neg={v < 0}']))
    elif kernel == 'npr':
        kinds = gen.NONREL + gen.REL + ['d', 'x', 'r', 'l']
        for i in range(n):
            c, text = gen.rand_chord(rng)
            nt = gen.rand_note(rng, kinds=kinds, vals=(-9, 12), octs=(-2, 2))
            l = rng.randint(-60, 70)
            out.append(([enc_chord(c, with_parts=False), enc_note(nt), l],
                        py_res(lambda: PU.note_to_pitch_result(nt, c, last_pitch=l), show_opt_int),
                        {'chord': str(c), 'ext': text, 'note': [nt.type, nt.val, nt.octave, nt.mode, nt.accident], 'last': l},
                        [f'kind={nt.type}', f'acc={nt.accident is not None}', f'mode={nt.mode is not None}']))
    elif kernel in ('cscale', 'cchrom'):
        for i in range(n):
            c, text = gen.rand_chord(rng, octaves=(-3, 3))
            f = (lambda: show_ints(c.scale_pitches)) if kernel == 'cscale' else (lambda: show_ints(c.chromatic_pitches))
            out.append(([enc_chord(c, with_parts=False)], py_res(f), {'chord': str(c)},
                        [f'elem={c.element}', f'mode={c.tonality.mode}']))
    elif kernel == 'tscale':
        for i in range(n):
            t = gen.rand_tonality(rng, octaves=(-3, 3))
            out.append(([enc_ton(t)], py_res(lambda: show_ints(t.scale_pitches)), {'ton': str(t)}, [f'mode={t.mode}']))
    elif kernel in ('tadd', 'tsub', 'teq'):
        for i in range(n):
            a = Tonality(rng.randint(-14, 25), rng.choice(gen.MODES), rng.randint(-3, 3))
            b = Tonality(rng.randint(-14, 25), rng.choice(gen.MODES), rng.randint(-3, 3))
            if kernel == 'teq' and rng.random() < 0.5:
                b = Tonality(a.degree + 12 * rng.randint(-1, 1), a.mode, a.octave - rng.randint(-1, 1))
            if kernel == 'tadd':
                f = lambda: _show_ton(a + b)
            elif kernel == 'tsub':
                f = lambda: _show_ton(a - b)
            else:
                f = lambda: '1' if a == b else '0'
            out.append(([enc_ton(a), enc_ton(b)], py_res(f), {'a': [a.degree, a.mode, a.octave], 'b': [b.degree, b.mode, b.octave]},
                        [f'norm={0 <= a.degree < 12 and 0 <= b.degree < 12}']))
    elif kernel in ('noabs', 'no'):
        kinds = gen.NONREL + gen.REL + ['d', 'x', 'r', 'l']
        for i in range(n):
            nt = gen.rand_note(rng, kinds=kinds, vals=(-9, 12), octs=(-3, 3), dur=gen.rand_duration(rng), p_amp=0.3)
            k = rng.randint(-4, 4)
            f = (lambda: enc_note(nt.oabs(k)).s) if kernel == 'noabs' else (lambda: enc_note(nt.o(k)).s)
            out.append(([enc_note(nt), k], py_res(f), {'note': enc_note(nt).s, 'k': k}, [f'kind={nt.type}']))
    elif kernel == 'neq':
        kinds = gen.NONREL + gen.REL + ['d', 'x', 'r', 'l']
        for i in range(n):
            a = gen.rand_note(rng, kinds=kinds, vals=(-2, 3), octs=(-1, 1), dur=gen.rand_duration(rng), p_amp=0.3)
            b = a.copy()
            which = rng.choice(['same', 'type', 'val', 'octave', 'duration', 'mode', 'accident', 'amp', 'tags', 'random'])
            if which == 'type':
                b.type = rng.choice(kinds)
            elif which == 'val':
                b.val += rng.choice([-1, 1, 7])
            elif which == 'octave':
                b.octave += rng.choice([-1, 1])
            elif which == 'duration':
                b.duration = gen.rand_duration(rng)
            elif which == 'mode':
                b.mode = rng.choice(gen.MODES + [None])
            elif which == 'accident':
                b.accident = rng.choice(gen.ACCS + [None])
            elif which == 'amp':
                b.amp = rng.choice([30, 66, 100])
            elif which == 'tags':
                b.tags = {'x'}
            elif which == 'random':
                b = gen.rand_note(rng, kinds=kinds, vals=(-2, 3), octs=(-1, 1), dur=gen.rand_duration(rng))
            out.append(([enc_note(a), enc_note(b)], py_res(lambda: '1' if a == b else '0'),
                        {'a': enc_note(a).s, 'b': enc_note(b).s}, [f'diff={which}']))
    elif kernel in ('to', 'tflat', 'tsharp'):
        for i in range(n):
            t = Tonality(rng.randint(-3, 14), rng.choice(gen.MODES), rng.randint(-3, 3))
            k = rng.randint(-4, 4)
            if kernel == 'to':
                out.append(([enc_ton(t), k], py_res(lambda: _show_ton(t.o(k))), {'t': [t.degree, t.mode, t.octave], 'k': k}, [f'k={k}']))
            else:
                f = (lambda: _show_ton(t.b)) if kernel == 'tflat' else (lambda: _show_ton(t.s))
                out.append(([enc_ton(t)], py_res(f), {'t': [t.degree, t.mode, t.octave]}, [f'deg={t.degree}']))
    elif kernel in ('co', 'cmod'):
        show = lambda r: f'{_show_ton(r.tonality)} {int(r.octave)} {int(r.element)}'
        for i in range(n):
            c, text = gen.rand_chord(rng, octaves=(-3, 3))
            if kernel == 'co':
                k = rng.randint(-4, 4)
                out.append(([enc_chord(c, with_parts=False), k], py_res(lambda: show(c.o(k))), {'chord': str(c), 'k': k}, [f'k={k}']))
            else:
                t = Tonality(rng.randint(-3, 14), rng.choice(gen.MODES), rng.randint(-3, 3))
                out.append(([enc_chord(c, with_parts=False), enc_ton(t)], py_res(lambda: show(c % t)),
                            {'chord': str(c), 't': [t.degree, t.mode, t.octave]}, [f'coct={c.octave}']))
    elif kernel == 'parse':
        from core import frac_str
        for i in range(n):
            c, text = gen.rand_chord(rng, octaves=(-2, 2))
            p = rng.randint(-70, 80)
            out.append(([enc_chord(c, with_parts=False), p],
                        py_res(lambda: (lambda r: f'{r.type} {int(r.val)} {int(r.octave)} {frac_str(r.duration)}')(c.parse(p))),
                        {'chord': str(c), 'pitch': p}, [f'mode={c.tonality.mode}', f'elem={c.element}']))
    elif kernel in ('n2p', 'm2p'):
        import musiclang.write.out.to_midi as TM
        from core import frac_str, enc_melody
        from fractions import Fraction

        def show_row(r):
            v = Fraction(*r[3].as_integer_ratio()) if isinstance(r[3], float) else Fraction(r[3])
            return f'({int(r[0])} {frac_str(r[1])} {frac_str(r[2])} {frac_str(v)} {int(r[4])} {int(bool(r[5]))} {int(bool(r[6]))})'
        kinds = gen.NONREL + gen.REL + ['d', 'r', 'l']
        for i in range(n):
            c, text = gen.rand_chord(rng, octaves=(-1, 1))
            tr = rng.randint(0, 3)
            time = Fraction(rng.randint(0, 24), rng.choice([1, 2, 3, 4]))
            lp = rng.choice([None, None, rng.randint(-30, 40)])
            last = None if lp is None else [lp, 0, 1, 66, tr, 0, 0, None, None]
            if kernel == 'n2p':
                nt = rng.choice([gen.rand_note(rng, kinds=kinds, vals=(-5, 9), octs=(-1, 1), dur=gen.rand_duration(rng), p_amp=0.4)
                                 for _ in range(1)])
                f = lambda: (lambda r: show_row(r[0]) + ' ' + show_opt_int(None if r[1] is None else r[1][0]))(
                    TM.note_to_pitch(nt, c, tr, time, None if last is None else list(last)))
                out.append(([enc_note(nt), enc_chord(c, with_parts=False), tr, time, lp], py_res(f),
                            {'note': enc_note(nt).s, 'chord': str(c), 'time': str(time), 'last': lp},
                            [f'kind={nt.type}', f'last={"none" if lp is None else "some"}']))
            else:
                m = gen.rand_melody(rng, n_notes=(0, 5), kinds=gen.NONREL + gen.REL + ['d'], p_rest=0.2, p_cont=0.25,
                                    vals=(-3, 8), octs=(-1, 1))
                f = lambda: (lambda r: '(' + ' '.join(show_row(x) for x in r[0]) + ') ' + show_opt_int(None if r[1] is None else r[1][0]))(
                    TM.melody_to_pitches(m, c, tr, time, None if last is None else list(last)))
                out.append(([enc_melody(m), enc_chord(c, with_parts=False), tr, time, lp], py_res(f),
                            {'melody': str(m), 'chord': str(c), 'time': str(time), 'last': lp},
                            [f'len={len(m.notes)}', f'last={"none" if lp is None else "some"}']))
    elif kernel == 'gmb':
        from musiclang.write.time_utils import get_melody_between
        from core import enc_melody, frac_str
        from fractions import Fraction
        for i in range(n):
            m = gen.rand_melody(rng, n_notes=(0, 6), kinds=gen.NONREL + gen.REL + ['d'], p_rest=0.15, p_cont=0.2, p_amp=0.3)
            onsets = [Fraction(0)]
            for nt in m.notes:
                onsets.append(onsets[-1] + Fraction(nt.duration))
            total = onsets[-1]

            def point():
                r = rng.random()
                if r < 0.45:
                    return rng.choice(onsets)                                   # on a note boundary
                if r < 0.9:
                    return Fraction(rng.randint(0, int(total * 12) + 6), rng.choice([1, 2, 3, 4, 6, 7, 12]))
                return Fraction(rng.randint(-6, 40), rng.choice([1, 2, 3, 1001, 2003]))   # before 0, far beyond, off-resolution
            a, b = point(), point()
            if rng.random() < 0.8 and a > b:
                a, b = b, a
            f = lambda: '(' + ' '.join(enc_note(x).s for x in get_melody_between(m, a, b).notes) + ')'
            out.append(([enc_melody(m), a, b], py_res(f), {'melody': str(m), 'a': frac_str(a), 'b': frac_str(b)},
                        [f'len={len(m.notes)}', 'a<b' if a < b else 'a>=b', 'a-on' if a in onsets else 'a-off',
                         'b-on' if b in onsets else 'b-off', 'b>total' if b > total else 'b<=total']))
    elif kernel in ('mdur', 'cdur', 'sdur'):
        from core import enc_melody, enc_score, frac_str
        for i in range(n):
            if kernel == 'mdur':
                m = gen.rand_melody(rng, n_notes=(0, 7), p_rest=0.2, p_cont=0.2)
                out.append(([enc_melody(m)], py_res(lambda: frac_str(m.duration)), {'melody': str(m)}, [f'len={len(m.notes)}']))
            else:
                sc = gen.rand_score(rng, n_chords=(1, 4), parts=('piano__0', 'violin__0', 'cello__0')[:rng.randint(1, 3)],
                                    p_absent=0.3)
                if kernel == 'cdur':
                    c = rng.choice(sc.chords)
                    if rng.random() < 0.1:
                        c = c.copy()
                        c.score = {}
                    out.append(([enc_chord(c)], py_res(lambda: frac_str(c.duration)), {'chord': str(c)},
                                [f'parts={len(c.score)}', 'unequal' if len({m.duration for m in c.score.values()}) > 1 else 'equal']))
                else:
                    out.append(([enc_score(sc)], py_res(lambda: frac_str(sc.duration)), {'score': str(sc)}, [f'chords={len(sc.chords)}']))
    elif kernel in ('beats', 'compl', 'cshift'):
        from musiclang import Metric
        from fractions import Fraction as F
        from core import frac_str
        show_beats = lambda r: '((' + ' '.join(f'({int(bool(b))} {frac_str(d)})' for b, d in r[0]) + f') {int(bool(r[1]))})'
        for i in range(n):
            if kernel == 'beats':
                t = rng.choice([F(1), F(1, 2), F(1, 3), F(1, 4), F(3, 8), F(2)])
                arr = [rng.choice([0, 0, 1, 1, 1, 2, -1]) for _ in range(rng.randint(0, 10))]
                m = Metric([1, 0, 0, 0], (4, 4), tatum=F(1))
                m.tatum = t
                out.append(([t, arr], py_res(lambda: show_beats(m.get_beat_durations(list(arr)))), {'tatum': str(t), 'array': arr},
                            [f'len={min(len(arr), 5)}', 'binary' if all(x in (0, 1) for x in arr) else 'nonbinary']))
            else:
                sig = rng.choice([(4, 4), (3, 4), (2, 4), (6, 8), (2, 2)])
                t = rng.choice([F(1), F(1, 2), F(1, 4)])
                nb = rng.randint(1, 2)
                steps = int(nb * sig[0] * F(4, sig[1]) / t)
                arr = [rng.choice([0, 1]) for _ in range(steps)]
                m = Metric(list(arr), sig, tatum=t, nb_bars=nb)
                if kernel == 'compl':
                    out.append(([arr, list(sig), t, nb], py_res(lambda: show_ints(m.complementary().array)),
                                {'array': arr, 'sig': sig, 'tatum': str(t), 'nb': nb}, [f'steps={steps}']))
                else:
                    k = rng.choice([0, 1, -1, steps, -steps, rng.randint(-3 * steps, 3 * steps)])
                    out.append(([arr, list(sig), t, nb, k], py_res(lambda: show_ints(m.circular_shift(k).array)),
                                {'array': arr, 'sig': sig, 'tatum': str(t), 'nb': nb, 'n': k},
                                ['n<0' if k < 0 else ('n=0' if k == 0 else 'n>0'), '|n|>=len' if abs(k) >= steps else '|n|<len']))
    else:
        raise KeyError(kernel)
    return out


def run(ctx, groups, quick=400, thorough=6000, kernels=None):
    """kernel-level streams for the given tie groups; budgets are multiplied when the proof tie is lost"""
    lost = getattr(ctx, 'src_tie_lost', set())
    for g in groups:
        for k in GROUPS[g]['kernels']:
            if kernels is not None and k not in kernels:
                continue
            n = ctx.n(quick, thorough) * (4 if g in lost else 1)
            cs = cases(random.Random(f'{ctx.seed}:{ctx.prop}:{k}'), k, n)   # own stream: the property's streams keep theirs
            ctx.compare(f'kernel:{k}', GROUPS[g].get('driver', 'Src'),
                        [{'line': sx(k, 'mod', *t), 'impl': impl, 'input': {'kernel': k, **inp}, 'bucket': b}
                         for t, impl, inp, b in cs])
            ctx.compare(f'src:{k}', GROUPS[g].get('driver', 'Src'),
                        [{'line': sx(k, 'src', *t), 'impl': impl, 'input': {'kernel': k, **inp}, 'bucket': b}
                         for t, impl, inp, b in cs], advisory=True)
