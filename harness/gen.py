"""Type-directed generators of musiclang objects (one PRNG stream per check)."""
import sys
sys.dont_write_bytecode = True
from fractions import Fraction

MODES = ["M", "m", "mm", "dorian", "phrygian", "lydian", "mixolydian", "aeolian", "locrian"]
ACCS = ["min", "maj", "natural", "dim", "aug"]
FIGS = ['', '5', '6', '64', '7', '65', '43', '2', '9', '11', '13']
PLAIN_INVERTIBLE = ['', '6', '64', '7', '65', '43', '2']
DURS = ['w', 'h', 'q', 'e', 's', 't', 'hd', 'qd', 'ed', 'h3', 'q3', 'e3', 'q5', 'e5', 'q7']
INSTRUMENTS = ['piano', 'violin', 'cello', 'flute', 'drums_0', 'trumpet', 'acoustic_guitar', 'harp']


import os
# A small share of the generated inputs is "stretched" beyond the usual small sizes (more chords, more parts incl. the same
# instrument several times, longer melodies, wider values / octaves), because a change that only shows on large inputs
# would otherwise never be reached by streams of small cases.
STRETCH = float(os.environ.get('VERIF_STRETCH', '0.06'))
EXTRA_PARTS = ('piano__1', 'piano__2', 'flute__0', 'violin__1')
# share of the notes / chords / parts derived from an earlier one of the same stream by changing at most one field
SIBLING = float(os.environ.get('VERIF_SIBLING', '0.1'))


def lib():
    import musiclang.library as L
    return L


def modifier_keys():
    L = lib()
    return list(L.DICT_REPLACEMENT), list(L.DICT_ADDITION), list(L.DICT_REMOVAL)


def rand_ext_text(rng, max_mods=3, p_plain=0.4):
    """random extension text in random written order (may be invalid for the library)"""
    fig = rng.choice(FIGS)
    if rng.random() < p_plain:
        return fig
    R, A, M = modifier_keys()
    mods = []
    for _ in range(rng.randint(1, max_mods)):
        k = rng.random()
        if k < 0.4:
            mods.append('(' + rng.choice(R) + ')')
        elif k < 0.8:
            mods.append('[' + rng.choice(A) + ']')
        else:
            mods.append('{' + rng.choice(M) + '}')
    rng.shuffle(mods)
    return fig + ''.join(dict.fromkeys(mods))


def rand_tonality(rng, octaves=(-2, 2)):
    from musiclang import Tonality
    return Tonality(rng.randrange(12), rng.choice(MODES), rng.randint(*octaves))


def rand_chord(rng, ext=None, valid=True, octaves=(-2, 2), max_mods=3):
    """a chord without parts.  One call in ten returns a *sibling* of a chord this stream produced earlier: the same
    degree, figure and tonality at another chord octave (or exactly the same chord again).  Memo tables keyed on a
    chord's harmony but not its octave (seeds C13-5, C19-5) only go wrong when the same harmony comes back at another
    octave in one process, which independent random chords practically never do."""
    from musiclang import Chord
    recent = rng.__dict__.setdefault('_mv_recent_chords', []) if hasattr(rng, '__dict__') else []
    if valid and recent and octaves[0] < octaves[1] and rng.random() < SIBLING:
        pool = [x for x in recent[-8:] if ext is None or x[1] == ext] or recent[-8:]
        c0, text = rng.choice(pool)
        if ext is not None and text != ext:
            try:
                text = ext
                Chord(int(c0.element), extension=text, tonality=c0.tonality.copy()).chord_notes
            except Exception:
                c0, text = None, None
    else:
        c0 = None
    if c0 is not None:
        o = rng.choice([k for k in range(octaves[0], octaves[1] + 1)])
        to = min(max(int(c0.tonality.octave), octaves[0]), octaves[1])
        c = Chord(int(c0.element), extension=text, tonality=c0.tonality.copy().o(to - int(c0.tonality.octave)), octave=o)
        return c, text
    for _ in range(50):
        text = ext if ext is not None else rand_ext_text(rng, max_mods=max_mods)
        try:
            c = Chord(rng.randrange(7), extension=text, tonality=rand_tonality(rng, octaves),
                      octave=rng.randint(*octaves))
            if valid:
                c.extension_notes
                c.chord_notes
                recent.append((c, text))
                del recent[:-16]
            return c, text
        except Exception:
            if not valid or ext is not None:
                raise
    raise RuntimeError('no valid chord')


NONREL = ['s', 'h', 'c', 'b', 'a']
REL = ['su', 'sd', 'hu', 'hd', 'cu', 'cd', 'bu', 'bd']


def rand_note(rng, kinds=NONREL, vals=(-15, 15), octs=(-3, 3), p_acc=0.25, p_mode=0.25, dur=None, p_amp=0.0):
    from musiclang import Note
    k = rng.choice(kinds)
    n = Note(k, rng.randint(*vals), rng.randint(*octs), Fraction(1) if dur is None else dur)
    if k == 's' and rng.random() < p_acc:
        n.accident = rng.choice(ACCS)
        n.val = rng.randrange(7)
    if k in ('s', 'h', 'su', 'sd') and rng.random() < p_mode:
        n.mode = rng.choice(MODES)
    if k in ('c', 'b') and rng.random() < 0.3 * max(p_mode, p_acc):
        # a per-note mode or accidental written on a chord- / bass-tone note: legal, and ignored while the note is a chord
        # tone (seed C11-6: it started to apply once the note was rewritten as a scale note)
        if rng.random() < 0.5:
            n.mode = rng.choice(MODES)
        else:
            n.accident = rng.choice(ACCS)
    if rng.random() < p_amp:
        n = getattr(n, rng.choice(['ppp', 'pp', 'p', 'mp', 'mf', 'f', 'ff', 'fff']))
    return n


def sibling_note(rng, prev, p_acc, p_mode, p_amp):
    """a note equal to an earlier note of the same chord except for (at most) one field — accidental, per-note mode,
    dynamics — with the same kind, value, octave and duration.  Caches or look-ups keyed on an equality that omits a
    field (seed C03-5: a memoised pitch function keyed on Note.__eq__, which ignores the accidental) only go wrong on
    such near-duplicates, which independent random notes practically never produce."""
    n = prev.copy()
    which = rng.choice(['acc', 'acc', 'mode', 'amp', 'same'])
    if which == 'acc' and n.type == 's' and p_acc > 0 and 0 <= n.val < 7:
        n.accident = rng.choice([a for a in ACCS + [None] if a != n.accident])
    elif which == 'mode' and n.type in ('s', 'h', 'su', 'sd') and p_mode > 0:
        n.mode = rng.choice([m for m in MODES + [None] if m != n.mode])
    elif which == 'amp' and p_amp > 0:
        n = getattr(n, rng.choice(['pp', 'mp', 'f', 'fff']))
    return n


def rand_duration(rng, table_only=False):
    L = lib()
    if table_only or rng.random() < 0.8:
        from musiclang.write.constants import STR_TO_DURATION
        return Fraction(STR_TO_DURATION[rng.choice(DURS)])
    return Fraction(rng.randint(1, 12), rng.choice([1, 2, 3, 4, 6, 8]))


def rand_melody(rng, n_notes=(1, 5), kinds=None, p_rest=0.15, p_cont=0.15, first_free=True, durs=None,
                p_acc=0.1, p_mode=0.1, p_amp=0.3, vals=(-8, 10), octs=(-1, 1), sib=None):
    """list of notes: sounding notes of the given kinds, rests and continuations anywhere"""
    from musiclang import Silence, Continuation, Melody
    kinds = kinds or NONREL
    notes = []
    if sib is None:
        sib = []                                    # sounding notes generated so far for this chord (all parts)
    if rng.random() < STRETCH:
        n_notes = (n_notes[0], n_notes[1] + 6)      # sizes only: value / octave ranges are the caller's (text replay needs them)
    for i in range(rng.randint(*n_notes)):
        d = rand_duration(rng) if durs is None else rng.choice(durs)
        x = rng.random()
        if x < p_rest:
            notes.append(Silence(d))
        elif x < p_rest + p_cont:
            notes.append(Continuation(d))
        elif sib and rng.random() < SIBLING:
            notes.append(sibling_note(rng, rng.choice(sib), p_acc, p_mode, p_amp))
        else:
            notes.append(rand_note(rng, kinds=kinds, vals=vals, octs=octs, dur=d, p_acc=p_acc, p_mode=p_mode,
                                   p_amp=p_amp))
            sib.append(notes[-1])
    return Melody(notes)


def rand_score(rng, n_chords=(1, 4), parts=('piano__0', 'violin__0', 'cello__0'), p_absent=0.2, kinds=None,
               equal_parts=False, plain=False, **mel):
    """random score; with equal_parts every part lasts as long as its chord"""
    from musiclang import Score, Silence
    chords = []
    if rng.random() < STRETCH:
        n_chords = (n_chords[0], n_chords[1] + 4)
        if len(parts) > 1:                            # callers that ask for a single part rely on it
            parts = tuple(parts) + tuple(p for p in EXTRA_PARTS if p not in parts)[:rng.randint(1, 3)]
    for _ in range(rng.randint(*n_chords)):
        c, _t = rand_chord(rng, ext=(rng.choice(PLAIN_INVERTIBLE) if plain else None), octaves=(-1, 1), max_mods=2)
        sc = {}
        sib = []
        for p in parts:
            if rng.random() < p_absent and len(parts) > 1:
                continue
            if sc and rng.random() < SIBLING * 0.8:
                # a doubled voice: an earlier part of this chord again, some notes differing by one field (accidental,
                # mode, dynamics).  Seed C12-5 sliced "distinct" voices once, keyed on Note.__eq__, which ignores those.
                from musiclang import Melody
                src = sc[rng.choice(list(sc))]
                if rng.random() < 0.35:
                    # an exact unison doubling: every note identical (seed C07-9 dropped duplicate rows of one track)
                    sc[p] = Melody([n.copy() for n in src.notes])
                    continue
                sc[p] = Melody([n.copy() if (n.type in ('r', 'l') or rng.random() < 0.5)
                                else sibling_note(rng, n, mel.get('p_acc', 0.1), mel.get('p_mode', 0.1), mel.get('p_amp', 0.3))
                                for n in src.notes])
                continue
            sc[p] = rand_melody(rng, kinds=kinds, sib=sib, **mel)
        if not sc:
            sc[parts[0]] = rand_melody(rng, kinds=kinds, sib=sib, **mel)
        if equal_parts:
            D = max(m.duration for m in sc.values())
            for p, m in sc.items():
                if m.duration < D:
                    sc[p] = m + Silence(D - m.duration)
        chords.append(c(**sc))
    return Score(chords)
