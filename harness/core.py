"""Shared machinery of the checks: encoding of musiclang objects for the Lean drivers,
running a driver, building the Lean project, auditing axioms, bookkeeping of
coverage / disagreements / violations, evidence and replay files.

Everything here runs under /venv/bin/python with PYTHONPATH=/repo (the check script
re-executes itself that way).
"""
import sys, os, json, time, hashlib, subprocess, fcntl, re, random, tempfile, traceback, shutil
sys.dont_write_bytecode = True
from fractions import Fraction

VERIF = os.path.dirname(os.path.dirname(os.path.abspath(__file__)))
LEAN = os.path.join(VERIF, 'lean')
EVID = os.path.join(VERIF, 'evidence')
REPLAY = os.path.join(EVID, 'replay')
REPO = os.environ.get('VERIF_REPO', '/repo')
ALLOWED_AXIOMS = {'propext', 'Classical.choice', 'Quot.sound'}
FORBIDDEN = ['sorry', 'admit', 'native_decide', 'bv_decide', 'implemented_by', 'unsafe ', 'maxHeartbeats 0']

# ----------------------------------------------------------------------------- s-expressions


def sx(*items):
    return '(' + ' '.join(_sx1(i) for i in items) + ')'


def _sx1(i):
    if isinstance(i, SX):
        return i.s
    if isinstance(i, bool):
        return '1' if i else '0'
    if isinstance(i, (list, tuple)):
        return '(' + ' '.join(_sx1(j) for j in i) + ')'
    if i is None:
        return '-'
    if isinstance(i, Fraction):
        return str(i.numerator) if i.denominator == 1 else f'{i.numerator}/{i.denominator}'
    if isinstance(i, float):
        return _sx1(Fraction(*i.as_integer_ratio()))
    if isinstance(i, str):
        if i == '':
            return '""'
        assert not any(ch in i for ch in ' ()\t\n'), i
        return i
    try:
        import numpy as np
        if isinstance(i, np.integer):
            return str(int(i))
    except ImportError:
        pass
    if isinstance(i, int):
        return str(i)
    raise TypeError(f'cannot encode {i!r}')


def parse_sx(s):
    """parse one s-expression (as printed by the Lean drivers) into nested lists of strings"""
    toks = s.replace('(', ' ( ').replace(')', ' ) ').split()
    pos = 0

    def rd():
        nonlocal pos
        t = toks[pos]
        pos += 1
        if t == '(':
            out = []
            while toks[pos] != ')':
                out.append(rd())
            pos += 1
            return out
        return t
    return rd()


def to_frac(t):
    if '/' in t:
        a, b = t.split('/')
        return Fraction(int(a), int(b))
    return Fraction(int(t))


class SX:
    """pre-rendered s-expression"""
    def __init__(self, s):
        self.s = s

    def __repr__(self):
        return self.s


def enc_note(n):
    amp = n.amp
    return SX(sx('n', n.type, int(n.val), int(n.octave), Fraction(n.duration), n.mode, n.accident,
                 Fraction(*amp.as_integer_ratio()) if isinstance(amp, float) else Fraction(amp),
                 sorted(n.tags), n.tempo, n.pedal))


def enc_melody(m):
    return [enc_note(n) for n in m.notes]


def split_ext(text):
    """Independent tokenizer of an extension text: base figure + the three bracket
    groups *in written order* (not the library's regex parser)."""
    fig, repl, add, rem = '', [], [], []
    i = 0
    close = {'(': ')', '[': ']', '{': '}'}
    while i < len(text):
        ch = text[i]
        if ch in close:
            j = text.index(close[ch], i)
            tok = text[i + 1:j]
            {'(': repl, '[': add, '{': rem}[ch].append(tok)
            i = j + 1
        else:
            fig += ch
            i += 1
    return fig, repl, add, rem


def enc_ext(text):
    fig, repl, add, rem = split_ext(text)
    return SX(sx('e', fig, repl, add, rem))


def enc_ton(t):
    return SX(sx('t', int(t.degree), t.mode, int(t.octave)))


def enc_chord(c, ext_text=None, with_parts=True):
    from musiclang import Tonality
    ton = c.tonality if c.tonality is not None else Tonality(0)
    parts = [[k, enc_melody(m)] for k, m in c.score.items()] if with_parts else []
    return SX(sx('c', int(c.element), enc_ext(c.extension if ext_text is None else ext_text), enc_ton(ton),
                 int(c.octave), parts))


def enc_score(s):
    return SX(sx('s', *[enc_chord(c) for c in s.chords]))


def py_res(f, show=str):
    """run f(); canonical string of the result or ERR:<class> (model enum)"""
    try:
        r = f()
    except Exception as e:  # noqa
        return 'ERR:' + canon_err(e)
    return show(r)


def canon_err(e):
    name = type(e).__name__
    if name in ('IndexError', 'KeyError', 'ValueError', 'TypeError', 'ZeroDivisionError', 'AttributeError',
                'AssertionError'):
        return name
    return 'Exception'


def show_ints(l):
    return '(' + ' '.join(str(int(x)) for x in l) + ')'


def show_opt_int(x):
    return 'None' if x is None else str(int(x))


def frac_str(q):
    q = Fraction(q)
    return str(q.numerator) if q.denominator == 1 else f'{q.numerator}/{q.denominator}'

# ----------------------------------------------------------------------------- Lean side


class LeanLock:
    def __enter__(self):
        self.f = open(os.path.join(LEAN, '.lock'), 'w')
        fcntl.flock(self.f, fcntl.LOCK_EX)
        return self

    def __exit__(self, *a):
        fcntl.flock(self.f, fcntl.LOCK_UN)
        self.f.close()


def lake_build(targets, timeout=3000):
    """returns (ok, output)"""
    with LeanLock():
        p = subprocess.run(['lake', 'build'] + list(targets), cwd=LEAN, capture_output=True, text=True,
                           timeout=timeout)
    return p.returncode == 0, (p.stdout + p.stderr)


def translate():
    """regenerate lean/MV/Gen from the live /repo; returns status dict per generator"""
    env = dict(os.environ, PYTHONPATH=REPO, PYTHONDONTWRITEBYTECODE='1')
    with LeanLock():
        p = subprocess.run(['/venv/bin/python', os.path.join(VERIF, 'harness', 'translate.py')], cwd=VERIF,
                           capture_output=True, text=True, env=env, timeout=600)
    try:
        return json.loads(p.stdout.strip().splitlines()[-1])
    except Exception:  # noqa
        return {'_translator': {'ok': False, 'error': (p.stdout + p.stderr)[-2000:]}}


def run_driver(name, lines, timeout=3000):
    """pipe request lines to `lake env lean --run MV/Drivers/<name>.lean`; list of reply lines"""
    if not lines:
        return []
    data = '\n'.join(lines) + '\n'
    p = subprocess.run(['lake', 'env', 'lean', '--run', f'MV/Drivers/{name}.lean'], cwd=LEAN, input=data,
                       capture_output=True, text=True, timeout=timeout)
    out = p.stdout.split('\n')
    if out and out[-1] == '':
        out.pop()
    if p.returncode != 0 or len(out) != len(lines):
        raise DriverError(f'driver {name}: rc={p.returncode}, {len(out)} replies for {len(lines)} requests\n'
                          + p.stderr[-3000:] + '\n' + '\n'.join(out[-3:]))
    return out


class DriverError(Exception):
    pass


def strip_comments(src):
    src = re.sub(r'/-.*?-/', '', src, flags=re.S)
    src = re.sub(r'--.*', '', src)
    return src


def theorems_of(module):
    """(namespace-qualified theorem names, forbidden-token hits) of a Lean module file"""
    path = os.path.join(LEAN, module.replace('.', '/') + '.lean')
    src = strip_comments(open(path).read())
    ns = []
    names = []
    for line in src.split('\n'):
        m = re.match(r'\s*namespace\s+(\S+)', line)
        if m:
            ns.append(m.group(1))
            continue
        m = re.match(r'\s*end\s+(\S+)\s*$', line)
        if m and ns and ns[-1].split('.')[-1] == m.group(1).split('.')[-1]:
            ns.pop()
            continue
        m = re.match(r'\s*(?:@\[[^\]]*\]\s*)?(?:private\s+|protected\s+)?theorem\s+(\S+)', line)
        if m:
            names.append('.'.join(ns + [m.group(1)]))
    hits = [t for t in FORBIDDEN if t in src]
    if re.search(r'^\s*axiom\s', src, flags=re.M):
        hits.append('axiom')
    return names, hits


def audit_axioms(modules, names):
    """#print axioms for every theorem; returns {name: [axioms]} (None value = could not audit)"""
    if not names:
        return {}
    body = ''.join(f'import {m}\n' for m in modules) + ''.join(f'#print axioms {n}\n' for n in names)
    with tempfile.NamedTemporaryFile('w', suffix='.lean', dir=LEAN, delete=False) as f:
        f.write(body)
        tmp = f.name
    try:
        p = subprocess.run(['lake', 'env', 'lean', tmp], cwd=LEAN, capture_output=True, text=True, timeout=1800)
    finally:
        os.unlink(tmp)
    out = p.stdout + p.stderr
    res = {}
    for n in names:
        res[n] = None
    # messages: "'X' depends on axioms: [a, b]" or "'X' does not depend on any axioms"
    for m in re.finditer(r"'([^']+)' depends on axioms: \[([^\]]*)\]", out, flags=re.S):
        res[m.group(1)] = [a.strip() for a in m.group(2).replace('\n', ' ').split(',') if a.strip()]
    for m in re.finditer(r"'([^']+)' does not depend on any axioms", out):
        res[m.group(1)] = []
    return res

# ----------------------------------------------------------------------------- context


class Ctx:
    """State of one check run."""

    def __init__(self, prop, tier, seed):
        self.prop = prop
        self.tier = tier
        self.seed = seed
        self.rng = random.Random(seed * 1000003 + int(hashlib.sha256(prop.encode()).hexdigest()[:8], 16))
        self.search = False            # True once a proof obligation or a correspondence broke
        self.suspects = []             # inputs at which model and code disagreed
        self.streams = {}              # stream -> dict(evaluations, distinct, dist(Counter), samples)
        self.disagreements = []        # dict(stream, input, model, impl)
        self.failures = []             # dict(signature, input, observed, expected, oracle, ...)
        self.fail_counts = {}          # signature -> number of failing inputs seen (only the first 20 are kept)
        self.notes = []
        self.kernel_suspects = []      # inputs of kernel-level streams (srctie) at which model / source image and code disagreed
        self.advisory = []             # disagreements of advisory streams (translator validation): never a violation
        self.src_tie_lost = set()      # source-tie groups whose translation or equality proof no longer checks
        self.t0 = time.time()

    # --- budget helper
    def n(self, quick, thorough):
        n = quick if self.tier == 'quick' else thorough
        return n * 3 if self.search else n

    def stream(self, name):
        return self.streams.setdefault(name, {'evaluations': 0, 'distinct': set(), 'dist': {}, 'samples': []})

    def count(self, stream, key=None, nontrivial=True, bucket=None, sample=None):
        st = self.stream(stream)
        st['evaluations'] += 1
        if key is not None and nontrivial:
            st['distinct'].add(hashlib.md5(str(key).encode()).hexdigest()[:12])
        if bucket is not None:
            for b in (bucket if isinstance(bucket, (list, tuple)) else [bucket]):
                st['dist'][b] = st['dist'].get(b, 0) + 1
        if sample is not None and len(st['samples']) < 4:
            st['samples'].append(sample)

    def compare(self, stream, driver, cases, advisory=False):
        """cases: list of dict(line=<request>, impl=<canonical impl output>, input=<jsonable>, key=, bucket=, nontrivial=)
        Runs the Lean driver on all lines and records disagreements.  `advisory` streams (validation of the
        AST translator, DESIGN §9.6) record theirs separately: they enlarge the search but are never a violation."""
        lines = [c['line'] for c in cases]
        try:
            outs = run_driver(driver, lines)
        except (DriverError, subprocess.TimeoutExpired) as e:
            if advisory or stream.startswith('kernel:'):
                # the kernel-level streams are an addition to the property's own streams: a driver of source images
                # that no longer builds or runs loses the source tie, it does not break the correspondence
                self.advisory.append({'stream': stream, 'model': f'driver failure: {e}'[:800]})
                self.src_tie_lost.add('driver:' + driver)
                return
            self.disagreements.append({'stream': stream, 'input': None, 'model': f'driver failure: {e}'[:1500],
                                       'impl': None})
            for c in cases:
                (self.kernel_suspects if stream.startswith('kernel:') else self.suspects).append((stream, c.get('input')))
            return
        for c, o in zip(cases, outs):
            if c.get('canon') is not None and not o.startswith('ERR:') and not o.startswith('bad-'):
                try:
                    o = c['canon'](o)
                except Exception as e:  # noqa
                    o = f'uncanonicalisable model output: {o[:200]} ({e})'
            self.count(stream, key=c.get('key', c['line']), nontrivial=c.get('nontrivial', True),
                       bucket=c.get('bucket'), sample={'request': c['line'][:400], 'impl': c['impl'][:300], 'model': o[:300]})
            if o != c['impl'] and advisory:
                if len(self.advisory) < 50:
                    self.advisory.append({'stream': stream, 'input': c.get('input', c['line']), 'request': c['line'],
                                          'model': o, 'impl': c['impl']})
                self.kernel_suspects.append((stream, c.get('input')))
            elif o != c['impl']:
                if len(self.disagreements) < 200:
                    self.disagreements.append({'stream': stream, 'input': c.get('input', c['line']), 'request': c['line'],
                                               'model': o, 'impl': c['impl']})
                (self.kernel_suspects if stream.startswith('kernel:') else self.suspects).append((stream, c.get('input')))

    def fail(self, signature, input, observed, expected, oracle=None, what=None):
        """a concrete input on which the *property* fails on the real code"""
        # at most 20 inputs are kept per signature, so that a frequent (known) class cannot crowd out a new one
        n = self.fail_counts[signature] = self.fail_counts.get(signature, 0) + 1
        if n <= 20 and len(self.failures) < 2000:
            self.failures.append({'signature': signature, 'input': input, 'observed': observed, 'expected': expected,
                                  'oracle': oracle, 'what': what})

    def note(self, s):
        self.notes.append(s)

# ----------------------------------------------------------------------------- known findings


def load_known():
    p = os.path.join(VERIF, 'known_findings.json')
    if not os.path.exists(p):
        return []
    return json.load(open(p))


def jsonable(x):
    if isinstance(x, Fraction):
        return frac_str(x)
    if isinstance(x, (set, frozenset)):
        return sorted(jsonable(i) for i in x)
    if isinstance(x, (list, tuple)):
        return [jsonable(i) for i in x]
    if isinstance(x, dict):
        return {str(k): jsonable(v) for k, v in x.items()}
    if isinstance(x, (str, int, float, bool)) or x is None:
        return x
    try:
        import numpy as np
        if isinstance(x, np.integer):
            return int(x)
        if isinstance(x, np.floating):
            return float(x)
    except ImportError:
        pass
    return repr(x)


def write_replay(prop, kind, payload):
    os.makedirs(REPLAY, exist_ok=True)
    body = json.dumps(jsonable(payload), indent=1, sort_keys=True)
    h = hashlib.sha256(body.encode()).hexdigest()[:10]
    path = os.path.join(REPLAY, f'{prop}-{kind}-{h}.json')
    with open(path, 'w') as f:
        f.write(body)
    return os.path.relpath(path, VERIF)
