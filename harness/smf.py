"""Independent pure-Python reader of Standard MIDI Files (no mido, no musiclang).

`read(path_or_bytes)` -> {'format', 'ntracks', 'division', 'tracks': [[event, ...], ...]}
An event is a dict with the absolute tick `tick`, the delta `delta`, and
  channel voice messages : {'type': 'note_on'|'note_off'|'program_change'|'control_change'|..., 'channel', ...}
  meta events            : {'type': 'meta', 'meta': <int>, 'data': bytes} plus decoded fields for
                           set_tempo (`tempo`), time_signature (`numerator`, `denominator`), track_name (`name`),
                           end_of_track.
Written from the SMF 1.0 specification: MThd/MTrk chunks, variable-length quantities, running
status, sysex (F0/F7) and meta (FF) events.  A `note_on` with velocity 0 is reported as it is
written (`note_on`, velocity 0): the caller decides how to read it.
"""
import struct


class SMFError(Exception):
    pass


def _vlq(data, pos):
    val = 0
    for _ in range(4):
        if pos >= len(data):
            raise SMFError('truncated variable-length quantity')
        b = data[pos]
        pos += 1
        val = (val << 7) | (b & 0x7F)
        if not b & 0x80:
            return val, pos
    raise SMFError('variable-length quantity longer than 4 bytes')


_CHANNEL_LEN = {0x8: 2, 0x9: 2, 0xA: 2, 0xB: 2, 0xC: 1, 0xD: 1, 0xE: 2}
_CHANNEL_NAME = {0x8: 'note_off', 0x9: 'note_on', 0xA: 'polytouch', 0xB: 'control_change', 0xC: 'program_change',
                 0xD: 'aftertouch', 0xE: 'pitchwheel'}


def _track(data):
    pos = 0
    tick = 0
    running = None
    out = []
    ended = False
    while pos < len(data):
        if ended:
            raise SMFError('events after end_of_track')
        delta, pos = _vlq(data, pos)
        tick += delta
        if pos >= len(data):
            raise SMFError('truncated event')
        status = data[pos]
        if status & 0x80:
            pos += 1
        else:
            if running is None:
                raise SMFError('data byte without running status')
            status = running
        if status == 0xFF:
            if pos >= len(data):
                raise SMFError('truncated meta event')
            kind = data[pos]
            n, pos = _vlq(data, pos + 1)
            body = bytes(data[pos:pos + n])
            if len(body) != n:
                raise SMFError('truncated meta event')
            pos += n
            ev = {'tick': tick, 'delta': delta, 'type': 'meta', 'meta': kind, 'data': body}
            if kind == 0x51:
                if n != 3:
                    raise SMFError('set_tempo of wrong length')
                ev['name'] = 'set_tempo'
                ev['tempo'] = (body[0] << 16) | (body[1] << 8) | body[2]
            elif kind == 0x58:
                if n != 4:
                    raise SMFError('time_signature of wrong length')
                ev['name'] = 'time_signature'
                ev['numerator'] = body[0]
                ev['denominator'] = 1 << body[1]
            elif kind == 0x03:
                ev['name'] = 'track_name'
                ev['text'] = body.decode('latin-1')
            elif kind == 0x2F:
                ev['name'] = 'end_of_track'
                ended = True
            else:
                ev['name'] = 'meta_%02x' % kind
            running = None
            out.append(ev)
        elif status in (0xF0, 0xF7):
            n, pos = _vlq(data, pos)
            pos += n
            running = None
            out.append({'tick': tick, 'delta': delta, 'type': 'sysex'})
        elif status >= 0xF0:
            raise SMFError('system message %02x inside a track' % status)
        else:
            hi = status >> 4
            n = _CHANNEL_LEN[hi]
            args = data[pos:pos + n]
            if len(args) != n or any(a & 0x80 for a in args):
                raise SMFError('bad data bytes')
            pos += n
            running = status
            ev = {'tick': tick, 'delta': delta, 'type': _CHANNEL_NAME[hi], 'channel': status & 0x0F}
            if hi in (0x8, 0x9, 0xA):
                ev['note'] = args[0]
                ev['velocity'] = args[1]
            elif hi == 0xB:
                ev['control'] = args[0]
                ev['value'] = args[1]
            elif hi == 0xC:
                ev['program'] = args[0]
            elif hi == 0xD:
                ev['value'] = args[0]
            else:
                ev['value'] = (args[0] | (args[1] << 7)) - 8192
            out.append(ev)
    if not ended:
        raise SMFError('track without end_of_track')
    return out


def read(src):
    if isinstance(src, (bytes, bytearray)):
        data = bytes(src)
    else:
        with open(src, 'rb') as f:
            data = f.read()
    if data[:4] != b'MThd':
        raise SMFError('no MThd chunk')
    hlen, = struct.unpack('>I', data[4:8])
    if hlen < 6:
        raise SMFError('short header')
    fmt, ntracks, division = struct.unpack('>HHH', data[8:14])
    if division & 0x8000:
        raise SMFError('SMPTE division not supported')
    pos = 8 + hlen
    tracks = []
    while pos < len(data):
        tag = data[pos:pos + 4]
        if len(data) < pos + 8:
            raise SMFError('truncated chunk header')
        n, = struct.unpack('>I', data[pos + 4:pos + 8])
        body = data[pos + 8:pos + 8 + n]
        if len(body) != n:
            raise SMFError('truncated chunk')
        pos += 8 + n
        if tag == b'MTrk':
            tracks.append(_track(body))
    if len(tracks) != ntracks:
        raise SMFError('header announces %d tracks, file has %d' % (ntracks, len(tracks)))
    return {'format': fmt, 'ntracks': ntracks, 'division': division, 'tracks': tracks}


def notes_of(track):
    """pair note_on / note_off of one track: [(channel, key, on_tick, off_tick, on_velocity)], first-in first-out per
    (channel, key); returns (pairs, leftovers) where leftovers are unmatched events."""
    open_ = {}
    pairs = []
    left = []
    for ev in track:
        if ev['type'] == 'note_on' and ev['velocity'] > 0:
            open_.setdefault((ev['channel'], ev['note']), []).append(ev)
        elif ev['type'] == 'note_off' or (ev['type'] == 'note_on' and ev['velocity'] == 0):
            q = open_.get((ev['channel'], ev['note']))
            if q:
                on = q.pop(0)
                pairs.append((ev['channel'], ev['note'], on['tick'], ev['tick'], on['velocity']))
            else:
                left.append(ev)
    for q in open_.values():
        left.extend(q)
    return pairs, left
