"""Table generators of C07: `musiclang.write.out.constants.INSTRUMENTS_DICT` by value."""
import sys
sys.dont_write_bytecode = True
from translate import HEADER, lint, lstr, Untranslatable


def gen_instruments():
    import musiclang.write.out.constants as C
    d = C.INSTRUMENTS_DICT
    if not isinstance(d, dict):
        raise Untranslatable('INSTRUMENTS_DICT is not a dict')
    o = [HEADER, 'namespace MV.Gen', '',
         '/-- `out.constants.INSTRUMENTS_DICT` in dict order (instrument name, General MIDI program) -/',
         'def INSTRUMENTS_DICT : List (String × Int) := [']
    o.append(',\n'.join(f'  ({lstr(k)}, {lint(v)})' for k, v in d.items()) + ']')
    o += ['', 'end MV.Gen']
    return '\n'.join(o) + '\n'


GENERATORS = {'Instruments': gen_instruments}
