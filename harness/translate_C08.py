"""Table generator for C08: the spelling tables of musiclang/write/out/to_mxl.py, by value.

`Mxl` -> lean/MV/Gen/Mxl.lean:
  MXL_SCALES       : Mode -> Option (List (Int x List String))   (`to_mxl.SCALES[mode]`, dict order; none = no table)
  MXL_EXTRA_MODES  : keys of `to_mxl.SCALES` that are not one of the nine modes
  NOTES_TO_ROOT    : `to_mxl.NOTES_TO_ROOT` in dict order
  KEYS_MAJOR/MINOR : the two name lists of `tonality_to_music21_key` are local to the function; they are
                     not extracted (the header of the export is not part of the sounding claim).
"""
import sys
sys.dont_write_bytecode = True
from translate import HEADER, MODES, lint, lstr, llist, Untranslatable


def gen_mxl():
    import musiclang.write.out.to_mxl as X
    o = [HEADER, 'import MV.Model.Types', 'namespace MV.Gen', '']
    o.append('/-- `to_mxl.SCALES`: mode -> tonic -> seven spelled names (a mode without a table is `none`) -/')
    o.append('def MXL_SCALES : Mode → Option (List (Int × List String))')
    for m in MODES:
        if m in X.SCALES:
            tab = X.SCALES[m]
            if not isinstance(tab, dict):
                raise Untranslatable(f'SCALES[{m!r}] is not a dict')
            rows = []
            for k, names in tab.items():
                if not isinstance(names, (list, tuple)):
                    raise Untranslatable(f'SCALES[{m!r}][{k!r}] is not a list')
                rows.append(f'({lint(k)}, {llist(names, lstr)})')
            o.append(f'  | .{m} => some [\n    ' + ',\n    '.join(rows) + ']')
        else:
            o.append(f'  | .{m} => none')
    o.append('def MXL_EXTRA_MODES : List String := ' + llist([k for k in X.SCALES if k not in MODES], lstr))
    o.append('')
    o.append('/-- `to_mxl.NOTES_TO_ROOT` in dict order -/')
    o.append('def NOTES_TO_ROOT : List (String × Int) := [')
    o.append(',\n'.join(f'  ({lstr(k)}, {lint(v)})' for k, v in X.NOTES_TO_ROOT.items()) + ']')
    o.append('')
    o.append('end MV.Gen')
    return '\n'.join(o) + '\n'


GENERATORS = {'Mxl': gen_mxl}
