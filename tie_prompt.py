import json,sys
name, pids, funcs, models = sys.argv[1], sys.argv[2], sys.argv[3], sys.argv[4]
extra = sys.argv[5] if len(sys.argv) > 5 else ''
ws=f'/var/tmp/ws-{name}'
print(f"""You are extending a Lean-4 verification framework for the Python library MusicLang with one more *source-tie group*.
You work ONLY inside your private workspace: {ws}/verif (a git copy of the framework, baseline committed) and {ws}/repo
(a copy of the library, a git checkout). Never touch /verif or /repo. No network. Python: `/venv/bin/python` with
PYTHONPATH={ws}/repo:{ws}/verif/harness (the `check` script sets this itself when you export VERIF_REPO={ws}/repo).
Lean 4.33 + Mathlib are installed (`lean`, `lake` on PATH; do NOT add a `require`; import single Mathlib modules only in
Lemmas/Props files, never `import Mathlib`). Build with `./lk build <Module>` from {ws}/verif (never plain `lake build`).

BACKGROUND. The framework proves properties of MusicLang over a hand-written executable Lean model (lean/MV/Model/*.lean)
and ties the model to the Python code (a) by differential correspondence streams and (b), for pure kernels, by a
*source tie*: `harness/py2lean.py` translates the Python AST of a function, fetched from the live module on every run,
into a Lean definition (`lean/MV/Gen/Src*.lean`, namespace `MV.Src`), and a theorem in `lean/MV/Props/Tie*.lean` proves
that generated definition EQUAL to the hand-written model function for ALL inputs. If someone edits the Python function,
the regenerated definition changes and the stored equality proof no longer type-checks. Read, in this order:
  {ws}/verif/DESIGN.md section 9.6 (grep "### 9.6"), FRAMEWORK.md,
  harness/py2lean.py, harness/translate_src.py, harness/srctie.py, harness/srcgroups/__init__.py (the plug-in layout you must use),
  lean/MV/Model/Py.lean, lean/MV/Lemmas/PyTie.lean, the generated examples lean/MV/Gen/SrcSlice.lean, SrcMetric.lean, SrcDur.lean,
  SrcOps.lean with their theorems lean/MV/Props/TieSlice.lean, TieMetric.lean, TieDur.lean, TieOps.lean, and the driver
  lean/MV/Drivers/Src2.lean; then `check` (section "2b source tie") and harness/props/{pids.split(',')[0]}.py.

YOUR GROUP: `{name}`, serving propert{'ies' if ',' in pids else 'y'} {pids}.
Python functions to translate (as many of them as you can; the first ones matter most): {funcs}
Hand-written model they must be proved equal to: {models}
{extra}

DELIVERABLES (new files only, except the two diffs named below):
 1. harness/srcgroups/{name}.py  — NAME, ENTRIES, IMPORTS, optional PRELUDE / extend_spec(sp), TIE, cases(rng, kernel, n)
    exactly as harness/srcgroups/__init__.py documents. `cases` must generate structured, mostly valid inputs from the
    library's own types (see harness/gen.py), including edge cases (empty lists, zero / negative / large values, error
    branches), with distribution buckets. The real function is called in-process; results are canonicalised strings.
 2. lean/MV/Drivers/{name}.lean — line-protocol driver with, for every kernel k, requests `(k mod args…)` (hand-written
    model) and `(k src args…)` (generated source image), like Drivers/Src2.lean.
 3. lean/MV/Props/Tie{name}.lean — ONLY the tie theorems `theorem <fn>_src … : Src.<fn> args = <model fn> args` (for all
    inputs; if an equality needs a hypothesis — e.g. a typing precondition the Python call sites guarantee — make it an
    explicit decidable hypothesis, say why in a comment, and add an `example` that it is satisfiable). Helper lemmas go in
    lean/MV/Lemmas/Tie{name}Lemmas.lean (list it in the plug-in's HELPERS). No sorry/admit/axiom/native_decide/bv_decide/
    implemented_by/unsafe/maxHeartbeats 0. Axioms must stay within propext, Classical.choice, Quot.sound.
 4. If py2lean.py cannot translate a construct you need, extend py2lean.py *minimally and additively* (new node handlers /
    new Spec binding kinds; never change the meaning of what is already translated: after your change
    `cd {ws}/verif && PYTHONPATH={ws}/repo:harness /venv/bin/python harness/translate.py` must leave every existing
    lean/MV/Gen/Src*.lean byte-identical — check with `git status lean/MV/Gen`). Anything outside the admitted subset must
    keep raising `Untranslatable`; nothing may be guessed. Other agents extend py2lean.py at the same time for other
    groups, so keep your edits small and localised. Save `git diff harness/py2lean.py > patches/py2lean-{name}.diff`.
    Prefer spec bindings (extend_spec) to a model function for callees that are already modelled and tied elsewhere.
 5. Wire the group into the property module(s): add '{name}' to SRC_TIE in harness/props/Cxx.py and make sure
    `srctie.run(ctx, SRC_TIE…)` runs its kernels; save `git diff harness/props > patches/props-{name}.diff`.
 6. If a model function turns out NOT to equal the source (the proof fails for a real reason), do not bend the theorem:
    find the input on which they differ, run the real Python on it, and report whether the model or the translation is
    wrong. Fix the translation or (only if the MODEL is wrong about the real code) report the model fix as a diff in
    patches/model-{name}.diff together with proof repairs; keep every existing theorem file compiling.

VALIDATE before you finish (all from {ws}/verif with `export VERIF_REPO={ws}/repo`):
  a. `for s in 0 1 2; do VERIF_SEED=$s ./check <each property of yours>; done` exit 0, and evidence/<Cxx>.json has
     coverage.source_tie.{name}.ok == true with your theorems listed;
  b. mutant: change one translated Python function in {ws}/repo in a subtle way (flipped comparison, off-by-one) →
     `./check` must report the tie as lost (stderr NOTE or the broken list) AND end in `VIOLATION … ` with a failing input;
     revert with `git -C {ws}/repo checkout -- .`;
  c. harmless rewrite of one translated function (rename a local, reorder independent statements) → check exits 0
     (a NOTE about a lost tie is acceptable if the proof is not robust to it, a VIOLATION is not).
  d. `./lk build MV.Props.Tie{name} MV.Drivers.{name}` from clean Gen regenerates and builds in < 3 minutes.

FINAL MESSAGE: list of files added, the functions translated (and the ones you gave up on, with the construct that blocks
them), each theorem with a one-line meaning and hypotheses, py2lean changes in one paragraph, timings, the mutant /
rewrite verdicts, and a DESIGN.md row for the groups table (group | Python functions | model functions proved equal | used by).
Leave everything in place in {ws}/verif; do not delete the workspace.""")
