#!/bin/bash
# Self-test of the C18 check (not a registered check): apply each mutant of selftest/mutants/C18-*.diff to a SCRATCH copy
# of the repository (VERIF_REPO, a git checkout that already contains the patches/C18-*.diff repairs), run the check,
# revert, then replay the failing inputs on the clean copy.  Expected per mutant: rc=1, VIOLATION with failing-input
# replays, every replay "PASS" on the clean copy.
: ${VERIF_REPO:?set VERIF_REPO to a scratch git checkout of the repaired repository}
export VERIF_REPO
cd "$(dirname "$0")/.."
for m in ${@:-selftest/mutants/C18-*.diff}; do
  name=$(basename $m .diff)
  rm -f evidence/replay/C18-*.json
  git -C $VERIF_REPO apply $(realpath $m) || { echo "$name: patch failed"; continue; }
  out=$(./check C18 --no-build 2>/dev/null); rc=$?
  git -C $VERIF_REPO checkout -- .
  sigs=""; clean=""
  for f in evidence/replay/C18-*.json; do
    [ -f "$f" ] || continue
    sigs="$sigs [$(/venv/bin/python -c "import json; d=json.load(open('$f')); print(d.get('signature') or d.get('kind'))")]"
    if grep -q '"kind": "failing-input"' $f; then clean="$clean {$(./check C18 --replay $f 2>/dev/null | head -1)}"; fi
  done
  echo "$name: rc=$rc violations=$(echo "$out" | grep -c '^VIOLATION') $sigs clean-replay:$clean"
done
rm -f evidence/replay/C18-*.json
