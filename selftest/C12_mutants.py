#!/venv/bin/python
"""Self-test of the C12 check (not a registered check): applies hand-made mutants of time_utils.py to a scratch copy
of the repository (VERIF_REPO, never /repo), runs ./check C12, replays the first replay file on the mutant and on the
clean copy.  Usage: VERIF_REPO=/var/tmp/ws-C12/repo selftest/C12_mutants.py"""
import os, re, subprocess, sys, json, glob
REPO = os.environ['VERIF_REPO']
assert REPO != '/repo'
VERIF = os.path.dirname(os.path.dirname(os.path.abspath(__file__)))
F = os.path.join(REPO, 'musiclang/write/time_utils/time_utils.py')
# behaviour-preserving on the property's domain (the `to_break` flag already stops the loop at `end`; only windows
# with b <= a tell the difference): the tie model/code breaks, no failing input exists ->
# `VIOLATION ... no-failing-input-found`, as DESIGN 2.6 prescribes
EQUIVALENT = [
    ('E1 break test `time >= end` -> `time > end`',
     '        if time >= end:\n            break', '        if time > end:\n            break'),
]
MUTANTS = [
    ('M2 head cut `time < start` -> `time <= start` (a note starting exactly at a becomes a continuation)',
     '        if time < start:\n            new_note.duration', '        if time <= start:\n            new_note.duration'),
    ('M3 tail clip `end - time` -> `end - start`',
     'new_note.duration = end - time', 'new_note.duration = end - start'),
    ('M4 repeat: one repetition too few (`+ 1` dropped)',
     'nb_times = int(duration / score.duration) + 1', 'nb_times = int(duration / score.duration)'),
    ('M5 head cut: `time += start - time` dropped (later notes are clipped against a wrong clock)',
     '            time += start - time\n', ''),
    ('M6 dropped copy: `new_note = note` (slicing shortens the notes of its argument)',
     'new_note = note.copy()', 'new_note = note'),
    ('M7 chord cut: `new_end = end - time` -> `end - start`',
     'new_end = end - time', 'new_end = end - start'),
    ('M8 skip test `time + note_duration <= start` -> `time + note_duration < end` (notes before the window dropped too eagerly)',
     'if (time < start) and (time + note_duration <= start):', 'if (time < start) and (time + note_duration < end):'),
]


def sh(cmd, **kw):
    return subprocess.run(cmd, shell=True, capture_output=True, text=True, cwd=VERIF, **kw)


def main():
    only = sys.argv[1:]
    clean = open(F).read()
    results = []
    for name, old, new in EQUIVALENT:
        if only and name.split()[0] not in only:
            continue
        assert clean.count(old) == 1
        open(F, 'w').write(clean.replace(old, new))
        try:
            p = sh('./check C12 --no-build')
        finally:
            open(F, 'w').write(clean)
            sh(f'git -C {REPO} checkout -- .')
        print(name, '\n   ->', [l for l in p.stdout.split('\n') if l.startswith(('VIOLATION', 'OK'))][:1], f'rc={p.returncode}', flush=True)
    for name, old, new in MUTANTS:
        if only and name.split()[0] not in only:
            continue
        assert clean.count(old) == 1, (name, clean.count(old))
        for f in glob.glob(os.path.join(VERIF, 'evidence/replay/C12-*')):
            os.unlink(f)
        open(F, 'w').write(clean.replace(old, new))
        try:
            p = sh('./check C12 --no-build')
            lines = [l for l in p.stdout.split('\n') if l.startswith('VIOLATION') or l.startswith('OK')]
            verdict = lines[0].split(' replay=')[0] if lines else f'rc={p.returncode}'
            rep = re.search(r'replay=(\S+)', p.stdout)
            on_mut = sh(f'./check C12 --replay {rep.group(1)}').stdout.split('\n')[0] if rep else ''
        finally:
            open(F, 'w').write(clean)
            sh(f'git -C {REPO} checkout -- .')
        on_clean = sh(f'./check C12 --replay {rep.group(1)}').stdout.split('\n')[0] if rep else ''
        sig = json.load(open(os.path.join(VERIF, rep.group(1)))).get('signature') if rep else None
        results.append((name, verdict, p.returncode, sig, on_mut[:60], on_clean[:60]))
        print(f'{name}\n   -> {verdict} rc={p.returncode} signature={sig}\n   replay on mutant: {on_mut[:70]} | on clean copy: {on_clean[:70]}', flush=True)
    assert open(F).read() == clean
    bad = [r for r in results if not (r[2] == 1 and 'VIOLATION' in r[1] and 'VIOLATION' in r[4] and r[5].startswith('PASS'))]
    print('ALL KILLED' if not bad else f'NOT KILLED: {[b[0][:3] for b in bad]}')
    return 1 if bad else 0


if __name__ == '__main__':
    sys.exit(main())
