import subprocess, os, re, sys, json
REPO='/var/tmp/ws-C16/repo'; VERIF='/var/tmp/ws-C16/verif'
env=dict(os.environ, VERIF_REPO=REPO)
M=[
 ('M1-grupetto-threshold', 'musiclang/write/ornementation.py', "    if duration >= frac(3, 2):\n        mordant_duration = frac(1, 2)", "    if duration >= frac(1):\n        mordant_duration = frac(1, 2)"),
 ('M2-mordant-guard', 'musiclang/write/ornementation.py', "def mordant(new_note, last_note, next_note):\n    duration = new_note.duration\n    mordant_duration = frac(1, 4)\n    if duration >= frac(1, 2):", "def mordant(new_note, last_note, next_note):\n    duration = new_note.duration\n    mordant_duration = frac(1, 4)\n    if duration > frac(1, 4):"),
 ('M3-roll-off-by-one', 'musiclang/write/ornementation.py', "    mordant_duration = frac(1, 4)\n    nb_rolls = int(duration / mordant_duration)\n", "    mordant_duration = frac(1, 4)\n    nb_rolls = int(duration / mordant_duration) + 1\n"),
 ('M4-melody-set-duration', 'musiclang/write/melody.py', "        return self.augment(duration / self.duration)", "        return self.augment(duration)"),
 ('M5-interpolate-count', 'musiclang/write/ornementation.py', "    duration = frac(new_note.duration, int(abs(delta_scale)))", "    duration = frac(new_note.duration, int(abs(delta_scale)) + 1)"),
 ('M6-inv-grupetto-cell', 'musiclang/write/ornementation.py', "def inv_grupetto(new_note, last_note, next_note):\n    duration = new_note.duration\n    mordant_duration = frac(2, 3) * frac(1, 4)", "def inv_grupetto(new_note, last_note, next_note):\n    duration = new_note.duration\n    mordant_duration = frac(2, 3) * frac(1, 2)"),
 ('M7-suspension-no-assert', 'musiclang/write/ornementation.py', None, None),
 ('M8-retarded-guard-flipped', 'musiclang/write/ornementation.py', "    if duration > retarded_duration:", "    if duration < retarded_duration:"),
 ('H1-harmless-rewrite', 'musiclang/write/ornementation.py', None, None),
]
def sh(cmd, **kw): return subprocess.run(cmd, shell=True, capture_output=True, text=True, **kw)
only=sys.argv[1:] 
for name, path, old, new in M:
    if only and name.split('-')[0] not in only: continue
    sh(f'git -C {REPO} checkout -- .')
    f=os.path.join(REPO,path); s=open(f).read()
    if name.startswith('M7'):
        s2=s.replace("new_note = L.l.set_duration(duration / 2) + new_note.set_duration(duration / 2)","new_note = L.l.set_duration(duration / 2) + new_note.set_duration(duration / 4)")
        s2=s2.replace('    assert new_note.duration == note.duration, f"{new_note} {new_note.duration} {note.duration} {note.tags}"\n','')
    elif name.startswith('H1'):
        # behaviour-preserving: rename a local, reorder independent statements, loop -> comprehension-free rewrite
        s2=s.replace("def retarded(new_note, last_note, next_note):\n    duration = new_note.duration\n    retarded_duration = frac(1, 12)","def retarded(new_note, last_note, next_note):\n    delay = frac(2, 24)\n    duration = new_note.duration\n    retarded_duration = delay")
        s2=s2.replace("    mordant_duration = frac(1, 6)\n    nb_rolls = int(duration / mordant_duration)","    mordant_duration = frac(1, 3) / 2\n    nb_rolls = int(duration * 6)")
    else:
        assert s.count(old)==1, (name, s.count(old))
        s2=s.replace(old,new)
    assert s2!=s, name
    open(f,'w').write(s2)
    diff=sh(f'git -C {REPO} diff').stdout
    open(f'{name}.diff','w').write(diff)
    r=sh('./check C16', cwd=VERIF, env=env)
    out=(r.stdout+r.stderr)
    viol=[l for l in out.split('\n') if l.startswith('VIOLATION') or l.startswith('OK ')]
    print(name, 'rc=',r.returncode, viol[:3], flush=True)
    reps=re.findall(r'replay=(\S+)', out)
    sigs=[]
    for rp in reps:
        d=json.load(open(os.path.join(VERIF,rp)))
        sigs.append((d.get('signature'), d.get('kind')))
    print('   signatures', sigs, flush=True)
    sh(f'git -C {REPO} checkout -- .')
    for rp in reps:
        rr=sh(f'./check C16 --replay {rp}', cwd=VERIF, env=env)
        print('   replay on clean:', rp, rr.stdout.strip().split('\n')[0][:100], 'rc=',rr.returncode, flush=True)
sh(f'git -C {REPO} checkout -- .')
print(sh(f'git -C {REPO} status --short').stdout)
