#!/bin/bash
# Re-run every stored seeded change (seeded/<id>-<n>/patch.diff) against its property check in a private copy of
# /verif and /repo; each must give VIOLATION. Not a registered check (it mutates a copy of the library).
cd "$(dirname "$0")/.."
for d in seeded/*/; do
  sd=$(basename $d)
  ./seedcheck.sh $sd
done
