#!/bin/bash
# C19 mutants: apply each to the scratch repo, run the check (expect VIOLATION), replay on the clean copy (expect PASS), revert.
REPO=/var/tmp/ws-C19/repo
VERIF=/var/tmp/ws-C19/verif
export VERIF_REPO=$REPO
cd $VERIF
VL=$REPO/musiclang/transform/composing/voice_leading.py
CH=$REPO/musiclang/write/chord.py
SC=$REPO/musiclang/write/score.py
CP=$REPO/musiclang/transform/composing/counterpoint.py
declare -A M
M[m1_octave_carry_7]="sed -i 's|note.octave += int(new_val // nb)|note.octave += int(new_val // 7)|' $VL"
M[m2_rules_mask_dropped]="sed -i 's|            proposed_sol \*= self.dvalsmask|            pass|' $VL"
M[m3_bass_window_flip]="sed -i 's|elif bass_pitch <= -6:|elif bass_pitch < -6:|' $VL"
M[m4_pvl_octave_on_zero]="sed -i 's|        if optimal_chordal_transposition < 0:|        if optimal_chordal_transposition <= 0:|' $CH"
M[m5_pvl_truncate]="sed -i 's|offset_octave = round(transposition/12)|offset_octave = int(transposition/12)|' $CH"
M[m6_voices_mask_dropped]="sed -i 's|            mov \*= self.dvalsmask\[:, :-1\]|            pass|' $VL"
M[m7_from_first_flipped]="sed -i 's|            if not from_first:|            if from_first:|' $SC"
M[m9_cp_offset_sign]="sed -i '71s|s \& (-i)|s \& i|' $REPO/musiclang/transform/composing/project.py"
M[m8_cp_wrong_octave]="sed -i 's|to_add.octave = notes\[idx\] // 7|to_add.octave = notes[idx] // 8|' $CP"
for name in ${MUTANTS:-m1_octave_carry_7 m2_rules_mask_dropped m3_bass_window_flip m4_pvl_octave_on_zero m5_pvl_truncate m6_voices_mask_dropped m7_from_first_flipped m8_cp_wrong_octave m9_cp_offset_sign}; do
  git -C $REPO checkout -- .
  eval "${M[$name]}"
  if git -C $REPO diff --quiet; then echo "== $name: PATCH DID NOT APPLY"; continue; fi
  start=$(date +%s)
  out=$(./check C19 2>&1); rc=$?
  end=$(date +%s)
  viol=$(echo "$out" | grep '^VIOLATION' | head -3)
  echo "== $name rc=$rc $((end-start))s"
  echo "$viol"
  echo "$out" | grep 'broken:' | cut -c1-300 | head -3
  git -C $REPO checkout -- .
  for rp in $(echo "$viol" | sed -n 's/.*replay=\([^ ]*\).*/\1/p'); do
    if grep -q '"kind": "failing-input"' $rp; then
      echo "   replay on clean copy: $(./check C19 --replay $rp 2>&1 | head -1)"
    fi
  done
done
git -C $REPO checkout -- .
