"""Mutants of the real code for C07 (apply to a SCRATCH copy of the repo given by VERIF_REPO, never to /repo):\neach must give VIOLATION with a replay that passes on the clean copy.  Usage: VERIF_REPO=<scratch> python selftest/C07_mutants.py [names]"""
import subprocess, sys, os, re, json
REPO=os.environ.get('VERIF_REPO', '/var/tmp/ws-C07/repo'); VERIF=os.path.dirname(os.path.dirname(os.path.abspath(__file__)))
MU='musiclang/write/out/midi_utils.py'; CO='musiclang/write/out/constants.py'
MUTANTS = {
 'M1-sort-without-event-type': (MU, "df_events = df_events.sort_values(['TRACK', 'OFFSET', 'EVENT_TYPE'])", "df_events = df_events.sort_values(['TRACK', 'OFFSET'])"),
 'M3-silence-does-not-reset-last-note': (MU, "        else:\n            # Update the last note index for this track\n            last_note_index[track] = index", "        elif not row['SILENCE']:\n            # Update the last note index for this track\n            last_note_index[track] = index"),
 'M4-table-flute-72': (CO, '"flute": 73,', '"flute": 72,'),
 'M5-number-to-channel-le': (MU, "    if n < 9:\n        return n\n    if n >= 9:\n        return n + 1", "    if n <= 9:\n        return n\n    if n > 9:\n        return n + 1"),
 'M6-relabel-uses-loop-index': (MU, "matrix[matrix[:, TRACK] == track, TRACK] = invert_instruments[program]", "matrix[matrix[:, TRACK] == track, TRACK] = i"),
 'M8-first-delta-zero': (MU, "df_events['DELTA'] = delta.where(delta.notna(), df_events['OFFSET'])", "df_events['DELTA'] = delta.fillna(0)"),
 'M10-tempo-truncated': (MU, 'tempo=mido.bpm2tempo(tempo), time=int(0)', 'tempo=int(60000000 / tempo), time=int(0)'),
 'M11-keeps-silences': (MU, "df = df[(df['CONTINUATION'] == False) & (df['SILENCE'] == False)]", "df = df[(df['CONTINUATION'] == False)]"),
 'M12-off-uses-duration-only': (MU, "df_copy['OFFSET'] = df_copy['OFFSET'] + df_copy['DURATION']", "df_copy['OFFSET'] = df_copy['DURATION']"),
}
env=dict(os.environ, VERIF_REPO=REPO)
which = sys.argv[1:] or list(MUTANTS)
for name in which:
    path, old, new = MUTANTS[name]
    src=open(os.path.join(REPO,path)).read()
    assert src.count(old)==1, (name, src.count(old))
    open(os.path.join(REPO,path),'w').write(src.replace(old,new))
    try:
        p=subprocess.run(['./check','C07'],cwd=VERIF,env=env,capture_output=True,text=True,timeout=1500)
        out=(p.stdout+p.stderr)
        lines=[l for l in out.split('\n') if l.startswith(('VIOLATION','OK ','HARNESS','  broken'))]
        print('=====',name,'rc',p.returncode)
        for l in lines: print('   ',l[:300])
        replays=re.findall(r'replay=(\S+)', out)
    finally:
        subprocess.run(['git','-C',REPO,'checkout','--','.'],check=True)
    for r in replays[:2]:
        data=json.load(open(os.path.join(VERIF,r)))
        print('    replay', r, 'kind', data.get('kind'), 'sig', data.get('signature'))
        if data.get('kind')=='failing-input':
            q=subprocess.run(['./check','C07','--replay',r],cwd=VERIF,env=env,capture_output=True,text=True,timeout=600)
            print('    on clean copy:', q.stdout.strip().split('\n')[0][:200], 'rc', q.returncode)
