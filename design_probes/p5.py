exec(open('p3.py').read().split("ops = {")[0])
from musiclang.library import *
import pickle, copy
# C05 roundtrip
def eq_deep(a, b):
    return str(a)==str(b)
fails = collections.defaultdict(list)
amps = ['n','ppp','pp','p','mp','mf','f','ff','fff']
for a in amps:
    n = getattr(s0, a)
    print(a, repr(n), n.amp, n.amp_figure)
def rnd_note_full():
    n = rnd_note(True)
    if n.type not in 'rl':
        if random.random()<0.3: n = getattr(n, random.choice(amps[1:]))
    if random.random()<0.2: n = n.add_tag(random.choice(['accent','x y', "it's"]))
    if random.random()<0.2: n = n.set_duration(F(random.randint(1,20), random.randint(1,12)))
    return n
for it in range(2000):
    n = rnd_note_full()
    try:
        m = eval(str(n))
        if not (m==n and str(m)==str(n) and m.accident==n.accident and m.amp_figure==n.amp_figure and m.tags==n.tags and m.mode==n.mode):
            fails['note'].append((str(n), str(m)))
    except Exception as e:
        fails['note-exc-'+type(e).__name__].append((str(n), repr(e)))
for it in range(300):
    s = rnd_score(True, nch=random.randint(1,3))
    try:
        t = Score.from_str(str(s))
        if isinstance(t, Chord): t = Score([t])
        if not (t==s and str(t)==str(s)): fails['score'].append((str(s), str(t)))
        if sound(t)!=sound(s): fails['score-sound'].append((str(s),))
        u = pickle.loads(pickle.dumps(s))
        if not (u==s and str(u)==str(s)): fails['pickle'].append((str(s),))
        u = copy.deepcopy(s)
        if not (u==s and str(u)==str(s)): fails['deepcopy'].append((str(s),))
    except Exception as e:
        fails['score-exc-'+type(e).__name__].append((str(s), repr(e)))
# drums, custom chords, tonalities
for x in [bd, hh.e, d3.o(1), x0, x3.e.o(1), x0.f]:
    try:
        y = eval(str(x)); print('RT', repr(x), repr(y), x==y, x.octave, y.octave, x.type, y.type)
    except Exception as e: print('RT fail', repr(x), e)
cc = I.M(s0, s2.o(1), s4)(piano__0=b0+b1)
print(repr(cc)); 
try:
    y = Score.from_str(str(cc)); print(type(y), y==cc, str(y)==str(cc))
except Exception as e: print('cc fail', repr(e))
for t in [Tonality(d, m, o) for d in range(12) for m in ['M','phrygian'] for o in (-1,0,2)]:
    y = eval(str(t))
    if not (y==t and y.degree==t.degree and y.octave==t.octave and y.mode==t.mode): print('ton fail', t, y)
for k,v in fails.items():
    print('=====', k, len(v)); v.sort(key=lambda x: len(x[0])); print(v[0])
