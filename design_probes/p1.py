from musiclang.library import *
from musiclang import Score, Chord, Tonality, Note, Melody
from musiclang.write.out import get_notes
import traceback
# C02 phrygian
print('phrygian', I.phrygian.scale_pitches, 'III of M', (III % I.M).scale_pitches)
# C03 to_events continuation arithmetic
sc = Score([(I % I.M)(piano__0=s0.h + l.h + s1)])
for t in (60,120):
    print('events', t, sc.to_events(tempo=t))
# C07
import tempfile, os
d = tempfile.mkdtemp()
try:
    sc.to_midi(os.path.join(d,'a.mid'))
    print('midi ok')
except Exception as e:
    print('midi fail', type(e), e)
# C08
for mode in ['M','m','mm','dorian','phrygian','lydian','mixolydian','aeolian','locrian']:
    try:
        m = (I % Tonality(0, mode))(piano__0=s0+s1).to_music21()
        print('m21', mode, 'ok')
    except Exception as e:
        print('m21', mode, type(e).__name__, e)
# C16
try:
    print('grupetto', s0.grupetto.realize_tags(), [n.duration for n in s0.grupetto.realize_tags().notes])
except Exception as e: print('grupetto fail', e)
try:
    print('roll e3', s0.e3.roll.realize_tags())
except Exception as e: print('roll fail', type(e).__name__, e)
# C18
from musiclang.transform.library import TransposeDiatonic
print('TD', TransposeDiatonic(1)(s0 + r + l + s1))
# C20
a = s0; b = s0.f
print('eq', a==b, hash(a)==hash(b), a in {b})
