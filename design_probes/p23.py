from musiclang.library import *
from musiclang import Score, Chord, Tonality, Note
from musiclang.write.out.to_mxl import get_note_spelling
bad=0; n=0
for mode in ['M','m','mm']:
    for deg in range(12):
        for el in range(7):
            c=Chord(el, tonality=Tonality(deg, mode))
            for t,vals in (('s',range(7)),('h',range(12))):
                for v in vals:
                    for o in (-2,-1,0,1):
                        note=Note(t,v,o,1)
                        nn,pitch=get_note_spelling(note,c)
                        n+=1
                        if nn.pitch.midi != 60+pitch:
                            bad+=1
                            if bad<15: print('BAD',mode,deg,el,note,pitch,nn.nameWithOctave,nn.pitch.midi)
print('checked',n,'bad',bad)
# voice vs render on M/m/mm without leading continuation
sc=Score([(I%I.m)(piano__0=s0+l+r+l+s2.e+l.e, violin__0=r+s4), (V%I.m)(piano__0=l+s1, violin__0=l+su1)])
m=sc.to_music21()
import music21
for part in m.parts:
    for v in part.recurse().getElementsByClass(music21.stream.Voice):
        print('voice')
        for e in v:
            if isinstance(e, music21.note.Note): print('  N', e.pitch.midi, e.offset, e.quarterLength, e.tie)
            elif isinstance(e, music21.note.Rest): print('  R', e.offset, e.quarterLength)
            else: print('  ?', e)
