exec(open('p3.py').read().split("ops = {")[0])
fails=collections.defaultdict(list)
def rhythm(s):
    out={}
    t=0
    for c in s.chords:
        for p,m in c.score.items():
            tt=t
            for n in m.notes:
                out.setdefault(p,[]).append((tt, n.duration, 'r' if n.is_silence else ('l' if n.is_continuation else 'n')))
                tt+=n.duration
        t+=c.duration
    return out
def symbols(s):
    out={}
    for c in s.chords:
        for p,m in c.score.items():
            for n in m.notes:
                out.setdefault(p,[]).append((n.type,n.val,n.octave,n.accident,n.mode))
    return out
for it in range(300):
    src = rnd_score(False, nch=random.randint(1,3))
    tgt = rnd_score(False, nch=random.randint(1,3))
    tgt = Score([c.to_chord().set_duration(c.duration) for c in tgt.chords])
    D = min(src.duration, tgt.duration)
    for vl in (False, True):
      for kp in (False, True):
        try:
            res = src.project_on_score(tgt, voice_leading=vl, keep_pitch=kp)
            if res.duration != D: fails[f'dur vl={vl} kp={kp}'].append((str(src), str(tgt), res.duration, D))
            # chords equal to target's (as prefix by time)
            t=0; ok=True
            tchs=[]; tt=0
            for c in tgt.chords:
                tchs.append((tt, c)); tt+=c.duration
            rr=0
            for c in res.chords:
                cand=[x for (t0,x) in tchs if t0==rr]
                if not cand or not c.to_chord().chord_equals(cand[0].to_chord()): ok=False
                rr+=c.duration
            if not ok: fails[f'chords vl={vl} kp={kp}'].append((str(src), str(tgt), str(res)))
            if kp:
                a=sound(res); b=[e for e in window(sound(src),0,D)] if False else None
                base=[(int(p),o,min(o+d,D)-o,v,tr) for (p,o,d,v,tr) in sound(src) if o<D]
                got=[(int(p),o,d,v,tr) for (p,o,d,v,tr) in sound(res)]
                if sorted(got)!=sorted(base): fails[f'sound vl={vl} kp'].append((str(src), str(tgt), base, got))
        except Exception as e:
            import traceback; fails[f'exc vl={vl} kp={kp} '+type(e).__name__].append((str(src), str(tgt), traceback.format_exc()[-300:]))
for k,v in fails.items():
    print('=====', k, len(v)); print(*[str(x).replace('\n',' ')[:700] for x in min(v, key=lambda x: len(str(x)))], sep='\n   ')
