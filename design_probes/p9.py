exec(open('p3.py').read().split("ops = {")[0])
from musiclang import Metric
from musiclang.write.rhythm.utils_metric import bjorklund_algorithm
# C17 euclid
def canon(n,k):
    return [1 if (i*k)%n < k else 0 for i in range(n)]
def rots(a): return [a[i:]+a[:i] for i in range(len(a))]
badE=0
for n in range(1,40):
    for k in range(1,n+1):
        try:
            p = bjorklund_algorithm(n,k)
        except Exception as e:
            print('exc',n,k,repr(e)); badE+=1; continue
        if len(p)!=n or sum(p)!=k or p[0]!=1: print('basic',n,k,p); badE+=1
        # gaps
        idx=[i for i,x in enumerate(p) if x]; gaps=[(idx[(j+1)%k]-idx[j])%n or n for j in range(k)]
        if max(gaps)-min(gaps)>1: print('gaps',n,k,p); badE+=1
        if p not in rots(canon(n,k)): print('not-rot-of-canonical',n,k,p, canon(n,k)); badE+=1
print('euclid bad', badE)
# apply_to_melody
fails=collections.defaultdict(list)
for it in range(2000):
    sig = random.choice(Metric.SIGNATURES); tatum = random.choice([F(1),F(1,2),F(1,4),F(1,3)]); nb=random.randint(1,2)
    dur = nb*sig[0]*F(4,sig[1])
    if (dur/tatum).denominator!=1: continue
    n=int(dur/tatum)
    arr=[random.randint(0,1) for _ in range(n)]
    mel=None
    for j in range(random.randint(1,5)): mel += rnd_note(False)
    # make all notes real notes
    from musiclang import Melody
    mel = Melody([x if x.is_note else s0 for x in mel.notes])
    try:
        m = Metric(arr, sig, tatum=tatum, nb_bars=nb)
        out = m.apply_to_melody(mel)
        if out.duration != dur: fails['dur'].append((arr, str(mel), str(out)))
        exp = [i*tatum for i,x in enumerate(arr) if x]
        if out.get_note_times()!=exp: fails['onsets'].append((arr,str(mel),str(out)))
        # cyclic order
        sounding=[x for x in out.notes if x.is_note]
        off = 0 if arr[0]==1 else 1
        ok = all((x.type,x.val,x.octave)==(mel.notes[(i+off)%len(mel.notes)].type,mel.notes[(i+off)%len(mel.notes)].val,mel.notes[(i+off)%len(mel.notes)].octave) for i,x in enumerate(sounding))
        if not ok: fails['order'].append((arr,str(mel),str(out)))
        back = Metric.FromMelody(out, signature=sig, tatum=tatum, nb_bars=nb).array
        if back!=arr: fails['frommelody'].append((arr, back, str(out)))
        if m.complementary().complementary().array!=arr or m.reversed().reversed().array!=arr: fails['invol'].append(arr)
        k=random.randint(-5,5)
        if m.circular_shift(k).circular_shift(-k).array!=arr: fails['shift'].append((arr,k))
    except Exception as e:
        import traceback; fails['exc-'+type(e).__name__].append((arr, sig, tatum, traceback.format_exc()[-300:]))
for k,v in fails.items():
    print('=====', k, len(v)); print(min(v, key=lambda x: len(str(x))))
